import asyncio, types, functools, inspect
import collections.abc as _abc
class _GenCoro(_abc.Coroutine):
    __slots__ = ('gen', '__name__', '__qualname__')
    def __init__(self, gen, func):
        self.gen = gen
        self.__name__ = getattr(func, '__name__', 'coro'); self.__qualname__ = getattr(func, '__qualname__', 'coro')
    def send(self, v): return self.gen.send(v)
    def throw(self, *a): return self.gen.throw(*a)
    def close(self): return self.gen.close()
    def __await__(self): return (yield from self.gen)
    def __iter__(self): return self.gen
    def __next__(self): return self.gen.send(None)
    @property
    def cr_frame(self): return self.gen.gi_frame
    @property
    def cr_running(self): return self.gen.gi_running
    @property
    def cr_code(self): return self.gen.gi_code
    @property
    def cr_await(self): return self.gen.gi_yieldfrom
def coroutine(func):
    if inspect.iscoroutinefunction(func):
        return func
    if inspect.isgeneratorfunction(func):
        gen_func = types.coroutine(func)
    else:
        @functools.wraps(func)
        def _gen(*a, **k):
            res = func(*a, **k)
            if inspect.isgenerator(res) or asyncio.isfuture(res) or inspect.iscoroutine(res) or isinstance(res, _GenCoro):
                res = yield from res
            return res
        gen_func = types.coroutine(_gen)
    @functools.wraps(func)
    def wrapper(*a, **k):
        return _GenCoro(gen_func(*a, **k), func)
    wrapper._is_coroutine_marker = getattr(asyncio.coroutines, '_is_coroutine_marker', None)
    return wrapper
asyncio.coroutine = coroutine
import collections, collections.abc
for n in ('Mapping','MutableMapping','Sequence','MutableSequence','Set','MutableSet','Iterable','Iterator','Callable','Hashable','Sized','Container'):
    if not hasattr(collections, n): setattr(collections, n, getattr(collections.abc, n))
import tornado.netutil, ssl
if not hasattr(tornado.netutil, 'SSLCertificateError'):
    tornado.netutil.SSLCertificateError = ssl.CertificateError
import sys, types as _t
_m = _t.ModuleType('wpull.driver.process')
class Process(object):
    def __init__(self,*a,**k): raise NotImplementedError
_m.Process = Process
sys.modules['wpull.driver.process'] = _m
try:
    import html5lib.tokenizer
except ImportError:
    import html5lib._tokenizer, html5lib
    _tk = _t.ModuleType('html5lib.tokenizer')
    class HTMLTokenizer(html5lib._tokenizer.HTMLTokenizer):
        def __init__(self, stream, encoding=None, useChardet=True, parseMeta=True, **kw):
            super().__init__(stream, override_encoding=encoding, useChardet=useChardet, **kw)
    _tk.HTMLTokenizer = HTMLTokenizer
    sys.modules['html5lib.tokenizer'] = _tk
    html5lib.tokenizer = _tk
try:
    import imp
except ImportError:
    import importlib.util, importlib.machinery
    _imp = _t.ModuleType('imp')
    _imp.PY_SOURCE = 1; _imp.PKG_DIRECTORY = 5
    def load_module(name, file, pathname, description):
        if description[2] == _imp.PKG_DIRECTORY:
            pathname = pathname + '/__init__.py'
        loader = importlib.machinery.SourceFileLoader(name, pathname)
        spec = importlib.util.spec_from_file_location(name, pathname, loader=loader)
        mod = importlib.util.module_from_spec(spec)
        sys.modules[name] = mod
        spec.loader.exec_module(mod)
        return mod
    _imp.load_module = load_module
    sys.modules['imp'] = _imp
import sqlalchemy, sqlalchemy.sql.expression as _sx
_orig_select = sqlalchemy.select
def _select(*ents, **kw):
    if len(ents) == 1 and isinstance(ents[0], (list, tuple)):
        ents = tuple(ents[0])
    return _orig_select(*ents, **kw)
sqlalchemy.select = _select; _sx.select = _select
import asyncio.locks as _locks
class _CM:
    def __init__(self, lock): self._lock = lock
    def __enter__(self): return None
    def __exit__(self, *a):
        try: self._lock.release()
        finally: self._lock = None
def _lock_iter(self):
    yield from self.acquire().__await__()
    return _CM(self)
_locks._ContextManagerMixin.__iter__ = _lock_iter
import logging as _logging
_logging.getLogger('wpull.resmon').setLevel(_logging.ERROR)   # "psutil missing" notice at import time
