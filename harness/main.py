"""Entry point: ./check <ID> --tier quick|thorough [--seed N] [--replay PATH] [--selftest]"""
import argparse
import importlib
import os
import sys
import traceback

DRIVERS = {
    'C13': 'drivers.pipeline',
    'C12': 'drivers.connpool',
    'C14': 'drivers.urltable',
    'C01': 'drivers.crawl', 'C03': 'drivers.crawl', 'C18': 'drivers.crawl', 'C20': 'drivers.crawl',
    'C02': 'drivers.scope',
    'C08': 'drivers.httpwire', 'C04': 'drivers.httpwire',
    'C19': 'drivers.decoder',
    'C16': 'drivers.websession',
    'C17': 'drivers.ftpcontrol',
    'C05': 'drivers.warcwriter', 'C06': 'drivers.warcwriter', 'C07': 'drivers.warcwriter',
    'C10': 'drivers.urlnorm', 'C11': 'drivers.urlnorm',
    'C15': 'drivers.pathname',
    'C09': 'drivers.errorflow',
    'X01': 'drivers.cache',      # not a listed property: wpull/cache.py against specs/Cache.tla (DESIGN 12.13)
}


def main():
    ap = argparse.ArgumentParser()
    ap.add_argument('pid')
    ap.add_argument('--tier', default=os.environ.get('VERIF_TIER') or 'quick', choices=['quick', 'thorough'])
    ap.add_argument('--seed', type=int, default=int(os.environ.get('VERIF_SEED') or 0))
    ap.add_argument('--replay')
    ap.add_argument('--selftest', action='store_true')
    a = ap.parse_args()
    if a.pid not in DRIVERS:
        print('unknown property', a.pid)
        return 2
    try:
        from harness import wpull_compat  # noqa: F401  (must precede any wpull import)
        from harness.report import Check
        mod = importlib.import_module(DRIVERS[a.pid])
        chk = Check(a.pid, a.tier, a.seed)
        if a.replay:
            return mod.replay(chk, a.replay)
        if a.selftest:
            return mod.selftest(chk)
        mod.run(chk)
        return chk.finish()
    except SystemExit:
        raise
    except BaseException:
        traceback.print_exc()
        print('MACHINERY-FAILURE property=%s' % a.pid)
        return 2


def main_in_scratch():
    """Everything a check writes temporarily (its own files, TLC's, and what the code under test leaves behind when a
    process is killed - e.g. the CA bundle the application writes at start-up) lives in one scratch directory that
    is removed when the check ends."""
    import shutil
    import tempfile
    base = tempfile.mkdtemp(prefix='verif_check_')
    os.environ['TMPDIR'] = base
    tempfile.tempdir = base
    me = os.getpid()

    def cleanup():
        if os.getpid() == me:         # (a forked child that gets here must not remove the parent's files)
            shutil.rmtree(base, ignore_errors=True)
    # registered first = run last: after the exit handlers of the code under test (which remove files in here)
    import atexit
    atexit.register(cleanup)
    return main()


if __name__ == '__main__':
    sys.exit(main_in_scratch())
