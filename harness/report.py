"""Verdict bookkeeping: evidence files, known findings, replay files, exit status."""
import hashlib
import json
import os
import sys
import time

ROOT = os.path.dirname(os.path.dirname(os.path.abspath(__file__)))
# (VERIF_EVIDENCE_DIR: runs against a mutated copy of the repository keep their evidence and replay files apart)
_OUT = os.environ.get('VERIF_EVIDENCE_DIR')
EVIDENCE = os.path.join(_OUT, 'evidence') if _OUT else os.path.join(ROOT, 'evidence')
REPLAYS = os.path.join(_OUT, 'replays') if _OUT else os.path.join(ROOT, 'replays')
KNOWN = os.path.join(ROOT, 'known_findings.json')

ASSUMPTIONS = [
    'wpull runs on Python 3.12 through harness/wpull_compat.py (asyncio.coroutine, '
    'with (yield from lock), collections ABC aliases, html5lib tokenizer, imp, sqlalchemy select([..]) shims); '
    'asyncio semantics are those of CPython 3.12',
    'bounded model: TLC results are exhaustive only for the constants listed under coverage.constants',
    'single-threaded deterministic execution (virtual-time loop / in-memory network); process death = os._exit, '
    'no power loss',
]


def load_known():
    try:
        with open(KNOWN) as fh:
            return json.load(fh)
    except FileNotFoundError:
        return []


def canon(obj):
    return json.dumps(obj, sort_keys=True, separators=(',', ':'), default=str)


class Check(object):
    def __init__(self, pid, tier, seed, level='model_checking'):
        self.pid = pid
        self.tier = tier
        self.seed = seed
        self.level = level
        self.t0 = time.time()
        self.states = 0
        self.transitions = 0
        self.design_runs = []
        self.traces = 0
        self.evaluations = 0
        self.distinct = set()
        self.samples = []
        self.violations = []      # unlisted
        self.known_hits = {}      # canon(signature) -> (entry, count)
        self.drift = []
        self.extra = {}
        self.exhaustive = False
        self.constants = {}
        self.rule = ''
        self.assumptions = list(ASSUMPTIONS)
        self.known = [k for k in load_known() if k.get('property') == pid]
        self.coverage_actions = {}
        self.notes = []

    # ---- design check
    def design(self, name, res, constants=None, expect_actions=None):
        """Record a TLC design-check run.  A failing design check is a machinery failure (exit 2):
        model counterexamples are resolved at development time (DESIGN 3.2)."""
        from . import tlc
        tlc.require_ok(res, 'design check ' + name)
        self.states += res['distinct']
        self.transitions += res['states']
        for a, n in res.get('coverage', {}).items():
            self.coverage_actions[name + '.' + a] = self.coverage_actions.get(name + '.' + a, 0) + n
        self.design_runs.append({'name': name, 'distinct_states': res['distinct'], 'states_generated': res['states'],
                                 'depth': res.get('depth', 0), 'wall_s': round(res['wall_s'], 2),
                                 'constants': constants or {}})
        if expect_actions:
            missing = [a for a in expect_actions if res.get('coverage', {}).get(a, 0) == 0]
            if missing and res.get('coverage'):
                raise tlc.TLCError('vacuity guard: actions never taken in %s: %s' % (name, missing))

    def trace_stats(self, stats):
        self.states += stats.get('distinct', 0)
        self.transitions += stats.get('states', 0)

    # ---- cases
    def case(self, key=None, sample=None, nontrivial=True):
        self.evaluations += 1
        if key is not None and nontrivial:
            self.distinct.add(key if isinstance(key, (str, int, tuple)) else canon(key))
        if sample is not None and len(self.samples) < 6:
            self.samples.append(sample)

    def validated(self, n=1):
        self.traces += n

    def note(self, s):
        self.notes.append(s)
        print('NOTE', s)

    def drifted(self, what, detail=None):
        if len(self.drift) < 50:
            self.drift.append({'what': what, 'detail': detail})
        if len(self.drift) <= 5:
            print('MODEL-DRIFT property=%s %s' % (self.pid, what))

    def violation(self, signature, description, replay):
        """signature: small JSON-able dict identifying the failing input class / call site."""
        sig = canon(signature)
        for k in self.known:
            if k.get('status') == 'known' and canon(k.get('signature')) == sig:
                ent = self.known_hits.setdefault(sig, [k, 0, replay])
                ent[1] += 1
                return False
        # new violation
        for v in self.violations:
            if v['sig'] == sig:
                v['count'] += 1
                return True
        os.makedirs(os.path.join(REPLAYS, self.pid), exist_ok=True)
        h = hashlib.sha1(sig.encode()).hexdigest()[:12]
        path = os.path.join(REPLAYS, self.pid, h + '.json')
        with open(path, 'w') as fh:
            json.dump({'property': self.pid, 'signature': signature, 'description': description,
                       'replay': replay}, fh, indent=1, default=str)
        self.violations.append({'sig': sig, 'signature': signature, 'description': description,
                                'path': path, 'count': 1})
        return True

    # ---- finish
    def finish(self):
        wall = time.time() - self.t0
        for sig, (k, n, replay) in sorted(self.known_hits.items()):
            print('KNOWN-FINDING: property=%s %s [%d case(s)]' % (self.pid, k.get('description', sig), n))
        for v in self.violations:
            print('VIOLATION property=%s replay=%s' % (self.pid, v['path']))
            print('  signature=%s count=%d :: %s' % (v['sig'], v['count'], v['description']))
        cov = {
            'states': max(self.states, 0),
            'transitions': max(self.transitions, 0),
            'traces_validated_against_impl': self.traces,
            'samples': self.samples or ['(no sample recorded)'],
            'evaluations': self.evaluations,
            'distinct_nontrivial': len(self.distinct),
            'rule': self.rule,
            'exhaustive': bool(self.exhaustive),
            'constants': self.constants,
            'design_checks': self.design_runs,
            'action_coverage': self.coverage_actions,
            'model_drift': self.drift,
            'known_findings_hit': [{'signature': json.loads(s), 'cases': n} for s, (k, n, r) in self.known_hits.items()],
            'unlisted_violations': [{'signature': v['signature'], 'count': v['count'], 'description': v['description']}
                                    for v in self.violations],
            'notes': self.notes,
        }
        cov.update(self.extra)
        ev = {
            'property_id': self.pid,
            'tier': self.tier,
            'seed': int(self.seed),
            'level': self.level,
            'coverage': cov,
            'assumptions': self.assumptions,
            'wall_s': round(wall, 2),
            'violations': len(self.violations),
        }
        os.makedirs(EVIDENCE, exist_ok=True)
        tmp = os.path.join(EVIDENCE, self.pid + '.json.tmp')
        with open(tmp, 'w') as fh:
            json.dump(ev, fh, indent=1, default=str)
        os.replace(tmp, os.path.join(EVIDENCE, self.pid + '.json'))
        print('%s tier=%s seed=%s states=%d transitions=%d traces=%d evaluations=%d distinct=%d drift=%d '
              'known=%d violations=%d wall=%.1fs'
              % (self.pid, self.tier, self.seed, self.states, self.transitions, self.traces, self.evaluations,
                 len(self.distinct), len(self.drift), len(self.known_hits), len(self.violations), wall))
        sys.stdout.flush()
        return 1 if self.violations else 0
