"""Deterministic virtual-time asyncio event loop.

The real asyncio ready queue (FIFO) and timer heap are used unchanged; there is no
selector.  When nothing is ready and no timer is due the loop asks the *environment*
(`env_step`) for the next external event.  If the environment has nothing to offer the
loop raises `Hang` - quiescence with unfinished top-level work, which is how liveness
violations of the real code become observable.
"""
import asyncio
import logging
from asyncio import base_events

logging.getLogger('asyncio').setLevel(logging.CRITICAL)


class Hang(Exception):
    pass


class _Sel:
    def __init__(self, loop):
        self.loop = loop

    def select(self, timeout):
        l = self.loop
        if l.abort is not None:
            # the environment gives up on this execution (e.g. the code under test keeps consuming an endless supply)
            e, l.abort = l.abort, None
            raise e
        if timeout is None:
            if not l.env_step():
                raise Hang('quiescent')
        elif timeout > 0:
            # no ready handle, only timers: environment may pre-empt, otherwise jump
            if l.env_before_timer and l.env_step():
                return []
            l._vtime += timeout
        return []

    def close(self):
        pass


class VLoop(base_events.BaseEventLoop):
    def __init__(self, env_step=lambda: False, env_before_timer=False):
        super().__init__()
        self._vtime = 0.0
        self._selector = _Sel(self)
        self.env_step = env_step
        self.env_before_timer = env_before_timer
        self._clock_resolution = 1e-9

    def time(self):
        return self._vtime

    tick_hook = None
    abort = None

    def _run_once(self):
        # one loop iteration = run everything that is ready now; the hook lets an environment
        # script act *between* iterations (e.g. a stop request arriving from a signal handler)
        if self.tick_hook is not None:
            self.tick_hook()
        super()._run_once()

    def _process_events(self, evs):
        pass

    def _write_to_self(self):
        pass


def run(coro_factory, env_step=lambda: False, env_before_timer=False, tick_hook=None, before_cleanup=None):
    """Run coro_factory() to completion on a fresh VLoop.

    Returns ('ok', result) | ('exc', exception) | ('hang', None).
    """
    loop = VLoop(env_step, env_before_timer)
    loop.tick_hook = tick_hook
    loop.set_exception_handler(lambda l, ctx: None)   # orphan tasks of abandoned runs are not our subject
    asyncio.set_event_loop(loop)
    try:
        try:
            res = loop.run_until_complete(coro_factory())
            return ('ok', res)
        except Hang:
            return ('hang', None)
        except BaseException as e:  # noqa
            if isinstance(e, (KeyboardInterrupt, SystemExit)):
                raise
            return ('exc', e)
    finally:
        if before_cleanup is not None:
            before_cleanup()
        # dispose of what is left (parked workers, orphan tasks): cancel and let the cancellations run
        try:
            loop.tick_hook = None
            loop.env_step = lambda: False
            for _ in range(5):
                pend = [t for t in asyncio.all_tasks(loop) if not t.done()]
                if not pend:
                    break
                for t in pend:
                    t.cancel()
                try:
                    loop.run_until_complete(asyncio.gather(*pend, return_exceptions=True))
                except BaseException:  # noqa
                    break
        except BaseException:  # noqa
            pass
        asyncio.set_event_loop(None)
        try:
            loop.close()
        except Exception:
            pass
