"""kf_add.py <property> <status> <commit|-> <signature-json> <what failed>  : append an entry to known_findings.json"""
import json, sys
prop, status, commit, sig, what = sys.argv[1:6]
p = '/verif/known_findings.json'
k = json.load(open(p))
e = {'property': prop, 'status': status, 'signature': json.loads(sig), 'description': what}
if status == 'fixed':
    e['commit'] = commit
    e['record'] = 'fixed: property=%s %s %s' % (prop, commit, what)
else:
    e['record'] = 'known: property=%s %s' % (prop, what)
k.append(e)
json.dump(k, open(p, 'w'), indent=1)
print(e['record'][:150])
