"""Thin TLC runner: design checks, batch trace validation, state-graph dumps."""
import json
import os
import re
import shutil
import subprocess
import tempfile
import time

SPECS = os.path.join(os.path.dirname(os.path.dirname(os.path.abspath(__file__))), 'specs')
JAR = '/opt/veriftools/tla/tla2tools.jar'
COMMUNITY = '/opt/veriftools/tla/CommunityModules-deps.jar'


class TLCError(Exception):
    pass


def _classpath():
    cands = [JAR]
    d = os.path.dirname(JAR)
    for f in sorted(os.listdir(d)):
        if f.endswith('.jar') and f != os.path.basename(JAR):
            cands.append(os.path.join(d, f))
    return ':'.join(cands)


def _java_cmd(heap='2g', depth_first=False):
    import tempfile
    cmd = ['java', '-XX:+UseParallelGC', '-Xmx' + heap, '-Xss16m', '-Djava.io.tmpdir=' + tempfile.gettempdir()]
    if depth_first:
        cmd.append('-Dtlc2.tool.queue.IStateQueue=StateDeque')
    cmd += ['-cp', _classpath(), 'tlc2.TLC']
    return cmd


_RE_STATES = re.compile(r'(\d+) states generated, (\d+) distinct states found, (\d+) states left on queue')
_RE_COV = re.compile(r'^<(\w+) line \d+, col \d+ to line \d+, col \d+ of module (\w+)>: (\d+):(\d+)', re.M)
_RE_DEPTH = re.compile(r'The depth of the complete state graph search is (\d+)')


def run_tlc(module, cfg_text, *, workers=8, timeout=600, simulate=None, depth=None, seed=None,
            env=None, heap='2g', coverage=False, dump=None, deadlock=None, depth_first=False,
            extra_files=None, keep=False, extra_args=None):
    """Run TLC on specs/<module>.tla with the given cfg text.

    Returns dict(ok, out, states, distinct, left, coverage{action:count}, violated, wall_s).
    """
    work = tempfile.mkdtemp(prefix='tlc_')
    t0 = time.time()
    try:
        # copy the specs (tiny) so concurrent runs never collide on generated files
        for f in os.listdir(SPECS):
            if f.endswith('.tla'):
                shutil.copy(os.path.join(SPECS, f), work)
        for name, text in (extra_files or {}).items():
            with open(os.path.join(work, name), 'w') as fh:
                fh.write(text)
        cfg = os.path.join(work, module + '.cfg')
        with open(cfg, 'w') as fh:
            fh.write(cfg_text)
        cmd = _java_cmd(heap, depth_first) + ['-workers', str(workers), '-metadir', os.path.join(work, 'meta'),
                                              '-noGenerateSpecTE', '-config', cfg]
        if coverage:
            cmd += ['-coverage', '1']
        if simulate:
            cmd += ['-simulate', 'num=%d' % simulate]
        if depth:
            cmd += ['-depth', str(depth)]
        if seed is not None:
            cmd += ['-seed', str(seed)]
        if dump:
            cmd += ['-dump', 'dot,actionlabels', os.path.join(work, 'graph')]
        if deadlock is False:
            cmd += ['-deadlock']
        cmd += list(extra_args or [])
        cmd.append(module + '.tla')
        e = dict(os.environ)
        e.update(env or {})
        try:
            p = subprocess.run(cmd, cwd=work, env=e, stdout=subprocess.PIPE, stderr=subprocess.STDOUT,
                               timeout=timeout)
            out = p.stdout.decode('utf-8', 'replace')
            rc = p.returncode
            timed_out = False
        except subprocess.TimeoutExpired as ex:
            out = (ex.stdout or b'').decode('utf-8', 'replace')
            rc = -9
            timed_out = True
        res = {'out': out, 'rc': rc, 'timed_out': timed_out, 'wall_s': time.time() - t0}
        m = None
        for m in _RE_STATES.finditer(out):
            pass
        if m:
            res['states'], res['distinct'], res['left'] = int(m.group(1)), int(m.group(2)), int(m.group(3))
        else:
            res['states'] = res['distinct'] = res['left'] = 0
        md = _RE_DEPTH.search(out)
        res['depth'] = int(md.group(1)) if md else 0
        cov = {}
        for mm in _RE_COV.finditer(out):
            cov[mm.group(1)] = cov.get(mm.group(1), 0) + int(mm.group(4))
        res['coverage'] = cov
        viol = None
        mv = re.search(r'Error: Invariant (\w+) is violated', out)
        if mv:
            viol = 'invariant:' + mv.group(1)
        elif 'Error: Deadlock reached' in out:
            viol = 'deadlock'
        elif 'Temporal properties were violated' in out:
            viol = 'temporal'
        elif re.search(r'Error: Action property (\w+) is violated', out):
            viol = 'action:' + re.search(r'Error: Action property (\w+) is violated', out).group(1)
        elif 'is violated' in out:
            viol = 'other'
        res['violated'] = viol
        res['ok'] = (viol is None and not timed_out
                     and ('Model checking completed. No error has been found' in out
                          or (simulate and rc in (0,)) or (simulate and 'Finished in' in out and 'Error' not in out)))
        if dump:
            g = os.path.join(work, 'graph.dot')
            res['graph'] = open(g).read() if os.path.exists(g) else None
        if keep:
            res['work'] = work
        return res
    finally:
        if not keep:
            shutil.rmtree(work, ignore_errors=True)


def require_ok(res, what):
    if not res['ok']:
        tail = '\n'.join(res['out'].splitlines()[-60:])
        raise TLCError('%s: TLC did not pass (violated=%s rc=%s timed_out=%s)\n%s'
                       % (what, res['violated'], res['rc'], res['timed_out'], tail))
    return res


# ---------------------------------------------------------------- trace batches

_RE_VERDICT = re.compile(r'VERDICTS_BEGIN(.*?)VERDICTS_END', re.S)


def validate_batch(module, cfg_text, traces, *, timeout=900, heap='3g', depth_first=True, chunk=None):
    """Validate a list of traces (JSON-able dicts, each with key 'ev': list of events) with
    specs/<module>.tla.  The trace module must read JsonDeserialize(IOEnv.TRACE_FILE), keep the
    trace index in registers (see specs/TraceBatch.tla) and print one line
        VERDICTS_BEGIN <<...>> VERDICTS_END
    from its POSTCONDITION, where element i = <<maxl, badclause, badline>>.
    Returns list of dict(len, accepted, bad, badline) in trace order + summed stats.
    """
    verdicts = []
    stats = {'states': 0, 'distinct': 0, 'wall_s': 0.0, 'runs': 0}
    chunk = chunk or len(traces) or 1
    for off in range(0, len(traces), chunk):
        part = traces[off:off + chunk]
        tf = tempfile.NamedTemporaryFile('w', suffix='.json', delete=False)
        try:
            json.dump(part, tf)
            tf.close()
            res = run_tlc(module, cfg_text, workers=1, timeout=timeout, env={'TRACE_FILE': tf.name},
                          heap=heap, depth_first=depth_first, deadlock=False)
        finally:
            os.unlink(tf.name)
        m = _RE_VERDICT.search(res['out'])
        if not m:
            tail = '\n'.join(res['out'].splitlines()[-60:])
            raise TLCError('trace validation with %s produced no verdicts (rc=%s timed_out=%s)\n%s'
                           % (module, res['rc'], res['timed_out'], tail))
        nums = [int(x) for x in re.findall(r'-?\d+', m.group(1))]
        if len(nums) != 3 * len(part):
            raise TLCError('verdict vector has %d numbers for %d traces' % (len(nums), len(part)))
        for i, tr in enumerate(part):
            maxl, bad, badline = nums[3 * i:3 * i + 3]
            n = len(tr['ev'])
            verdicts.append({'len': n, 'matched': maxl, 'accepted': maxl >= n and bad == 0,
                             'bad': bad, 'badline': badline})
        stats['states'] += res['states']
        stats['distinct'] += res['distinct']
        stats['wall_s'] += res['wall_s']
        stats['runs'] += 1
    return verdicts, stats


# ---------------------------------------------------------------- dot graph walking

_RE_NODE = re.compile(r'^(-?\d+) \[label="(.*?)"(?:,style = filled)?\];?$', re.M)
_RE_EDGE = re.compile(r'^(-?\d+) -> (-?\d+) \[label="(.*?)"', re.M)


def parse_dot(text):
    """Return (nodes{id:label}, edges[(src,dst,action)], initial ids)."""
    nodes = {}
    init = []
    for m in re.finditer(r'^(-?\d+) \[label="(.*?)"(,style = filled)?\]', text, re.M):
        nodes[m.group(1)] = m.group(2).replace('\\n', '\n').replace('\\"', '"').replace('\\\\', '\\')
        if m.group(3):
            init.append(m.group(1))
    edges = [(m.group(1), m.group(2), m.group(3)) for m in _RE_EDGE.finditer(text)]
    return nodes, edges, init
