#!/bin/sh
# seed_eval.sh <seed-dir (patch.diff, demo.py, README.txt)> <seed-id> <property> <check ids...>
# Confirms a seeded change (demo passes on the clean tree, fails with the patch, repository suite unchanged),
# runs the given checks against it, and stores it under /verif/seeded/<seed-id>/ with meta.json.
set -u
SRC="$1"; SID="$2"; PROP="$3"; shift 3
WT=$(mktemp -d /tmp/seedwt_XXXXXX); rmdir "$WT"
git -C /repo worktree add -q "$WT" HEAD || exit 2
cleanup() { git -C /repo worktree remove --force "$WT" >/dev/null 2>&1; }
trap cleanup EXIT
run_demo() { (cd "$1" && PYTHONHASHSEED=0 PYTHONPATH="$1:/verif/harness" timeout 300 /venv/bin/python -W ignore "$SRC/demo.py" "$1" >/tmp/seed_demo.out 2>&1; echo $?); }
clean_rc=$(run_demo "$WT")
if ! git -C "$WT" apply "$SRC/patch.diff"; then echo "PATCH DOES NOT APPLY"; exit 2; fi
mut_rc=$(run_demo "$WT")
tests=$(cd "$WT" && /venv/bin/python -m pytest -q -p no:cacheprovider --timeout=900 --continue-on-collection-errors 2>&1 | tail -1)
echo "demo clean rc=$clean_rc  patched rc=$mut_rc  tests: $tests"
results=""
for c in "$@"; do
  out=$(cd /verif && VERIF_REPO="$WT" timeout 1500 ./check "$c" --tier quick 2>&1)
  rc=$?
  v=$(echo "$out" | grep -c "^VIOLATION")
  echo "check $c: rc=$rc violations=$v"
  echo "$out" | grep "signature=" | head -3
  results="$results{\"check\":\"$c\",\"rc\":$rc,\"violation_lines\":$v},"
done
mkdir -p "/verif/seeded/$SID"
cp "$SRC/patch.diff" "$SRC/demo.py" "/verif/seeded/$SID/" 2>/dev/null
cp "$SRC/README.txt" "/verif/seeded/$SID/README.txt" 2>/dev/null
cat > "/verif/seeded/$SID/meta.json" <<EOM
{"id": "$SID", "property": "$PROP", "demo_clean_rc": $clean_rc, "demo_patched_rc": $mut_rc,
 "repo_tests_with_patch": "$tests",
 "checks_run": [${results%,}],
 "ran": "git worktree of /repo HEAD + patch; demo.py on both trees; repository suite; VERIF_REPO=<worktree> ./check <ID> --tier quick"}
EOM
