"""Self-test of the compat layer: every wpull module the checks use must import, and the whole
application must build from a real argument vector."""
import importlib
import sys

from harness import wpull_compat  # noqa: F401

MODS = '''wpull.pipeline.pipeline wpull.pipeline.session wpull.pipeline.item wpull.network.pool
wpull.network.connection wpull.network.dns wpull.database.sqltable wpull.database.wrap wpull.url wpull.urlfilter
wpull.processor.rule wpull.processor.web wpull.processor.ftp wpull.protocol.http.stream wpull.protocol.http.client
wpull.protocol.http.web wpull.protocol.http.robots wpull.protocol.http.request wpull.protocol.ftp.client
wpull.protocol.ftp.stream wpull.protocol.ftp.request wpull.warc.recorder wpull.warc.format wpull.decompression
wpull.path wpull.writer wpull.scraper.html wpull.scraper.css wpull.scraper.javascript wpull.scraper.sitemap
wpull.application.builder wpull.application.app wpull.application.options wpull.cookiewrapper'''.split()

for m in MODS:
    importlib.import_module(m)
from wpull.application.builder import Builder
from wpull.application.options import AppArgumentParser
args = AppArgumentParser().parse_args(['http://example.invalid/', '--no-robots', '-r', '--html-parser', 'html5lib', '-q',
                                       '--delete-after'])
app = Builder(args).build()
assert app is not None
print('compat self-test: ok (%d modules, application builds)' % len(MODS))
sys.exit(0)
