"""Regenerate MANIFEST.json from the table below (kept in one place so it is always valid)."""
import json
import os

ROOT = os.path.dirname(os.path.dirname(os.path.abspath(__file__)))

BASELINE_OFF = ("cd /repo && env -u WPULL_VERIF /venv/bin/python -m pytest -ra -q -p no:cacheprovider --timeout=900 "
                "--continue-on-collection-errors")

TRUST = ('Trusted base: harness/wpull_compat.py (Python 3.12 shims), the virtual-time loop and in-memory network of the '
         'harness, TLC, and the bounded constants of the model (listed in the evidence file).')

CHECKS = {
    'C13': dict(
        technique='TLA+ model (Pipeline.tla) checked by TLC; real Pipeline executions (stateless schedule exploration, '
                  'TLC-generated environment scripts) validated by TLC trace specs',
        text='Pipeline.tla is an implementation-shaped model of ItemQueue/Producer/Worker/Pipeline on asyncio; TLC checks '
             'at-most-once, in-order, only-supplied, exactly-once-without-stop, no-work-after-stop, error-surfaces and '
             'no-hang exhaustively for K<=3-4 items, 2-3 workers, 2 tasks, one stop, 1-2 concurrency changes and one '
             'exception (plus liveness under weak fairness).  The real wpull Pipeline is then executed under a '
             'deterministic virtual-time loop for every environment schedule of small instances (all completion '
             'orders, disturbances at every quiescent point and before every loop iteration), for TLC-generated '
             'scripts and seeded random scripts; each recorded event trace is checked by TLC against PipelineMon '
             '(property clauses on observed events => VIOLATION) and PipelineTrace (behaviour of the model => DRIFT).',
        design_ref='DESIGN.md 5 (C13), 12'),
}

NOT_YET = {}


def main():
    props = [json.loads(l) for l in open(os.path.join(ROOT, 'properties.jsonl'))]
    checks = []
    na = []
    for p in props:
        pid = p['id']
        if pid in CHECKS:
            c = CHECKS[pid]
            checks.append({
                'property_id': pid,
                'quick_cmd': './check %s --tier quick' % pid,
                'thorough_cmd': './check %s --tier thorough' % pid,
                'evidence_file': 'evidence/%s.json' % pid,
                'replay_cmd_template': './check %s --replay {path}' % pid,
                'engine': 'tlc',
                'level_claimed': {'category': c.get('category', 'model_checking'), 'text': c['text'],
                                  'design_ref': c['design_ref']},
                'level_note': c.get('note', TRUST),
                'technique': c['technique'],
            })
        else:
            na.append({'property_id': pid, 'reason': NOT_YET.get(
                pid, 'not claimed yet: specification and conformance driver under construction (see DESIGN.md 10)')})
    man = {
        'version': 1,
        'setup_cmd': './setup.sh',
        'hooks': {
            'guard': 'WPULL_VERIF',
            'enable': 'none needed: all observation is done from outside (subclasses / wrappers registered by the '
                      'harness, fake network, wrapped file operations); /repo contains no instrumentation',
            'baseline_off_cmd': BASELINE_OFF,
            'source_commits': [],
            'add_only': True,
        },
        'engines': [{'name': 'tlc', 'path': '/opt/veriftools/tla/tla2tools.jar',
                     'serves_properties': sorted(CHECKS),
                     'kind_free_text': 'TLC 1.8 explicit-state model checker: exhaustive design checks of specs/*.tla, '
                                       'batch trace validation of executions recorded from the real code, and '
                                       'simulation-mode scenario generation'}],
        'checks': checks,
        'not_applicable': na,
        'notes': 'See DESIGN.md.  known_findings.json lists genuine defects (fixed / known).  Genuine-defect repairs are '
                 'unguarded "fix:" commits in /repo.',
    }
    with open(os.path.join(ROOT, 'MANIFEST.json'), 'w') as fh:
        json.dump(man, fh, indent=1)
    print('MANIFEST.json: %d checks, %d not claimed' % (len(checks), len(na)))


if __name__ == '__main__':
    main()
