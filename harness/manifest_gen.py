"""Regenerate MANIFEST.json from the table below (kept in one place so it is always valid)."""
import json
import os

ROOT = os.path.dirname(os.path.dirname(os.path.abspath(__file__)))

BASELINE_OFF = ("cd /repo && env -u WPULL_VERIF /venv/bin/python -m pytest -ra -q -p no:cacheprovider --timeout=900 "
                "--continue-on-collection-errors")

TRUST = ('Trusted base: harness/wpull_compat.py (Python 3.12 shims), the virtual-time loop and in-memory network of the '
         'harness, TLC, and the bounded constants of the model (listed in the evidence file).')

CHECKS = {
    'C13': dict(
        technique='TLA+ model (Pipeline.tla) checked by TLC; real Pipeline executions (stateless schedule exploration, '
                  'TLC-generated environment scripts) validated by TLC trace specs',
        text='Pipeline.tla is an implementation-shaped model of ItemQueue/Producer/Worker/Pipeline on asyncio; TLC checks '
             'at-most-once, in-order, only-supplied, exactly-once-without-stop, no-work-after-stop, error-surfaces and '
             'no-hang exhaustively for K<=3-4 items, 2-3 workers, 2 tasks, one stop, 1-2 concurrency changes and one '
             'exception (plus liveness under weak fairness).  The real wpull Pipeline is then executed under a '
             'deterministic virtual-time loop for every environment schedule of small instances (all completion '
             'orders, disturbances at every quiescent point and before every loop iteration), for TLC-generated '
             'scripts and seeded random scripts; each recorded event trace is checked by TLC against PipelineMon '
             '(property clauses on observed events => VIOLATION) and PipelineTrace (behaviour of the model => DRIFT).',
        design_ref='DESIGN.md 5 (C13), 12'),
}

E2E_NOTE = ('Crawl.tla models the URL table, producer/workers, the visit loop (filters, robots, redirects, retries) and '
            'crash/restart; the real application (Builder -> Application.run, real SQLite table, real HTTP client, real '
            'scrapers) crawls scripted sites over an in-memory network under a deterministic loop; every recorded trace '
            '(table transactions after commit, requests seen by the server, visits, crash, exit) is judged by TLC with '
            'CrawlMon.tla, whose reference sets (which URLs must / may be requested) are computed in TLA+ from the site '
            'and the documented meaning of the options.')
CHECKS.update({
    'C01': dict(technique='TLA+ crawl model + TLC; traces of complete real crawls validated by the TLA+ monitor CrawlMon',
                text='Exactly-once / completeness / all-rows-final judged by TLC on traces of real crawls: a catalogue of site '
                     'shapes (diamond with unequal paths, cycles, self links, duplicate and differently spelled links, '
                     'same-host redirects, page requisites, depth limits, two start URLs) x options x concurrency 1..4, '
                     'with every order in which the server can answer concurrent requests explored by stateless DFS '
                     '(bounded).  ' + E2E_NOTE, design_ref='DESIGN.md 5 (C01)'),
    'C03': dict(technique='TLA+ crawl model with Crash/Restart + TLC; crash-point enumeration on the real application, '
                          'two-run traces validated by CrawlMon',
                category='model_checking',
                text='For every event of a complete crawl (each table transaction after commit, each request/response) a '
                     'forked child running the real application is killed with os._exit right after it; the same command is '
                     'then run again on the same on-disk database; the concatenated two-run trace is judged by TLC: nothing '
                     'done before the kill is requested again, nothing stuck in progress, no discovered row lost, the two '
                     'runs together cover the uninterrupted crawl.  ' + E2E_NOTE, design_ref='DESIGN.md 5 (C03)'),
    'C18': dict(technique='TLA+ crawl model (adversarial server) + TLC; real crawls against hostile scripted servers '
                          'validated by CrawlMon',
                text='Redirect loops and chains over 301/302/307/308, missing and unparsable Location, perpetual 5xx, '
                     'connection drops and 401 with/without credentials, for tries 1..3 and max-redirect 0..5: per visit '
                     'the number of requests is bounded by max-redirect + 1 (+1 authentication retry), no request is made '
                     'for an item whose tries are exhausted, and every crawl terminates with no pending work.  ' + E2E_NOTE,
                design_ref='DESIGN.md 5 (C18)'),
    'C20': dict(technique='TLA+ crawl model with robots pool + TLC; real crawls with robots.txt scenarios validated by CrawlMon',
                text='Disallowed URLs never requested (directly or as redirect hop), robots.txt obtained before any page of '
                     'its origin and not fetched again once obtained, nofollow pages not followed, missing robots.txt '
                     'allows all, 5xx on robots.txt postpones; agent groups and large files; one and two origins; '
                     'concurrency 1..2 with all answer orders.  ' + E2E_NOTE, design_ref='DESIGN.md 5 (C20)'),
})

CHECKS['C02'] = dict(
    technique='declarative TLA+ scope rules (Scope.tla) evaluated by TLC on vectors answered by the real filter list; '
              'crawl-level request monitor (CrawlMon)',
    text='Scope.tla states every rule (scheme, recursion, depth, requisite depth, no-parent, domain/host lists, span-hosts '
         'with its allowances, regex, directory, suffix, retry limit) and the single redirect waiver declaratively; TLC '
         'checks its structural theorems over a full abstract product (ScopeCheck) and then evaluates the rules on every '
         'vector of the per-cluster exhaustive enumerations and of the activation x failure-pattern composition, each '
         'answered by the REAL filter list built from a real argument vector (URLFiltersSetupTask._build_url_filters + '
         'SpanHostsFilter + FetchRule.consult_filters) on concrete URLInfo/URLRecord witnesses: a URL the real code would '
         'request although a rule forbids it is a violation.  At crawl level every request seen by the scripted server '
         'in complete crawls of sites offering out-of-scope links, requisites and redirects is judged by CrawlMon.',
    design_ref='DESIGN.md 5 (C02)')

CHECKS['C14'] = dict(
    technique='TLA+ reference model (URLTable.tla) checked by TLC; real SQLiteURLTable / URLTableHookWrapper histories '
              '(TLC-generated per-transition and simulated scenarios, seeded random histories) validated by TLC monitor '
              'and strict trace specs',
    text='URLTable.tla is a sequential reference model of SQLiteURLTable/URLTableHookWrapper (one action per public call = '
         'one transaction; rows, row ids, url_strings, hostnames, queued_files, visits, wrapper counter).  TLC checks 24 '
         'clauses over <projection before, call, result, projection after> exhaustively: 2 URLs x all calls x 4 property '
         'templates x batches <= 2 to depth 3, 3 URLs x all calls to depth 3, 3 URLs x core calls to depth 5 (re-add is '
         'a no-op and not reported; exactly the new URLs reported; only removal deletes; status changes only by '
         'check-out/in/update/release; try +1 exactly when asked; depth stable; not-found iff none eligible; release '
         'exact; reopen identity; reads agree; failures atomic; nothing else raises).  The real table is executed in '
         'memory, on disk with close+reopen, and through the hook wrapper on one history per transition of the bounded '
         'model, on TLC-simulated histories (5 URLs x 30 calls) and on seeded random histories of 50-200 calls over '
         '10-20 arbitrary URL strings; after every call the result and the table contents read back by SQL are recorded; '
         'TLC validates each trace against URLTableMon (VIOLATION) and URLTableTrace (DRIFT).',
    design_ref='DESIGN.md 5 (C14)')
CHECKS['C17'] = dict(
    technique='TLA+ model (FtpControl.tla) checked by TLC; TLC-generated server strategies replayed against the real FTP '
              'client over fakenet/vloop; recorded conversations validated by TLC monitor and strict trace specs',
    text='FtpControl.tla is a byte-level model of the FTP control conversation (Session.start/start_listing/download, '
         'Commander, ControlStream.read_reply, Reply.parse, Command.to_bytes, login table, PASV parse).  TLC checks '
         'one-command-one-line, the command-order automaton, reply assembly equal to the whole-stream reference and '
         'completion-only-after-data-EOF-and-2xx-final exhaustively for every alphabet string <= 2 in user/password/path, '
         '9 reply shapes x every cut, every data-close timing, dropped connections and two sessions.  The real '
         'Client/Session runs over an in-memory network under a virtual loop for every TLC-enumerated server strategy, '
         'TLC-simulated behaviours, every percent-encoded alphabet string <= 3 per URL position, Command.to_bytes '
         'directly, and every 2-piece / byte-wise / composition cut of each shape at each step; each recorded '
         'conversation is validated by FtpControlMon (VIOLATION) and FtpControlTrace (DRIFT).',
    design_ref='DESIGN.md 5 (C17)')

NOT_YET = {}


def main():
    props = [json.loads(l) for l in open(os.path.join(ROOT, 'properties.jsonl'))]
    checks = []
    na = []
    for p in props:
        pid = p['id']
        if pid in CHECKS:
            c = CHECKS[pid]
            checks.append({
                'property_id': pid,
                'quick_cmd': './check %s --tier quick' % pid,
                'thorough_cmd': './check %s --tier thorough' % pid,
                'evidence_file': 'evidence/%s.json' % pid,
                'replay_cmd_template': './check %s --replay {path}' % pid,
                'engine': 'tlc',
                'level_claimed': {'category': c.get('category', 'model_checking'), 'text': c['text'],
                                  'design_ref': c['design_ref']},
                'level_note': c.get('note', TRUST),
                'technique': c['technique'],
            })
        else:
            na.append({'property_id': pid, 'reason': NOT_YET.get(
                pid, 'not claimed yet: specification and conformance driver under construction (see DESIGN.md 10)')})
    man = {
        'version': 1,
        'setup_cmd': './setup.sh',
        'hooks': {
            'guard': 'WPULL_VERIF',
            'enable': 'none needed: all observation is done from outside (subclasses / wrappers registered by the '
                      'harness, fake network, wrapped file operations); /repo contains no instrumentation',
            'baseline_off_cmd': BASELINE_OFF,
            'source_commits': [],
            'add_only': True,
        },
        'engines': [{'name': 'tlc', 'path': '/opt/veriftools/tla/tla2tools.jar',
                     'serves_properties': sorted(CHECKS),
                     'kind_free_text': 'TLC 1.8 explicit-state model checker: exhaustive design checks of specs/*.tla, '
                                       'batch trace validation of executions recorded from the real code, and '
                                       'simulation-mode scenario generation'}],
        'checks': checks,
        'not_applicable': na,
        'notes': 'See DESIGN.md.  known_findings.json lists genuine defects (fixed / known).  Genuine-defect repairs are '
                 'unguarded "fix:" commits in /repo.',
    }
    with open(os.path.join(ROOT, 'MANIFEST.json'), 'w') as fh:
        json.dump(man, fh, indent=1)
    print('MANIFEST.json: %d checks, %d not claimed' % (len(checks), len(na)))


if __name__ == '__main__':
    main()
