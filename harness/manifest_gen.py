"""Regenerate MANIFEST.json from the table below (kept in one place so it is always valid)."""
import json
import os

ROOT = os.path.dirname(os.path.dirname(os.path.abspath(__file__)))

BASELINE_OFF = ("cd /repo && env -u WPULL_VERIF /venv/bin/python -m pytest -ra -q -p no:cacheprovider --timeout=900 "
                "--continue-on-collection-errors")

TRUST = ('Trusted base: harness/wpull_compat.py (Python 3.12 shims), the virtual-time loop and in-memory network of the '
         'harness, TLC, and the bounded constants of the model (listed in the evidence file).')

CHECKS = {
    'C13': dict(
        technique='TLA+ model (Pipeline.tla) checked by TLC; real Pipeline executions (stateless schedule exploration, '
                  'TLC-generated environment scripts) validated by TLC trace specs',
        text='Pipeline.tla is an implementation-shaped model of ItemQueue/Producer/Worker/Pipeline on asyncio; TLC checks '
             'at-most-once, in-order, only-supplied, exactly-once-without-stop, no-work-after-stop, error-surfaces and '
             'no-hang exhaustively for K<=3-4 items, 2-3 workers, 2 tasks, one stop, 1-2 concurrency changes and one '
             'exception (plus liveness under weak fairness).  The real wpull Pipeline is then executed under a '
             'deterministic virtual-time loop for every environment schedule of small instances (all completion '
             'orders, disturbances at every quiescent point and before every loop iteration), for TLC-generated '
             'scripts and seeded random scripts; each recorded event trace is checked by TLC against PipelineMon '
             '(property clauses on observed events => VIOLATION) and PipelineTrace (behaviour of the model => DRIFT).  '
             'The layer above - Application.run/stop over a PipelineSeries of real pipelines - has its own model '
             '(AppSeries.tla: series order, skip-after-stop, completion of non-skippable pipelines, failure -> break + '
             'mapped exit code, run-once, series concurrency rule, termination), model-checked for <=4 pipelines and '
             'checked on the real Application for every environment schedule of small instances plus TLC-generated and '
             'random scenarios, each trace judged by AppSeriesMon and AppSeriesTrace.',
        design_ref='DESIGN.md 5 (C13), 12'),
}

E2E_NOTE = ('Crawl.tla models the URL table, producer/workers, the visit loop (filters, robots, redirects, retries) and '
            'crash/restart; the real application (Builder -> Application.run, real SQLite table, real HTTP client, real '
            'scrapers) crawls scripted sites over an in-memory network under a deterministic loop; every recorded trace '
            '(table transactions after commit, requests seen by the server, visits, crash, exit) is judged by TLC with '
            'CrawlMon.tla, whose reference sets (which URLs must / may be requested) are computed in TLA+ from the site '
            'and the documented meaning of the options.')
CHECKS.update({
    'C01': dict(technique='TLA+ crawl model + TLC; traces of complete real crawls validated by the TLA+ monitor CrawlMon',
                text='Exactly-once / completeness / all-rows-final judged by TLC on traces of real crawls: a catalogue of site '
                     'shapes (diamond with unequal paths, cycles, self links, duplicate and differently spelled links, '
                     'same-host redirects, page requisites, depth limits, two start URLs) x options x concurrency 1..4, '
                     'with every order in which the server can answer concurrent requests explored by stateless DFS '
                     '(bounded).  ' + E2E_NOTE, design_ref='DESIGN.md 5 (C01)'),
    'C03': dict(technique='TLA+ crawl model with Crash/Restart + TLC; crash-point enumeration on the real application, '
                          'two-run traces validated by CrawlMon',
                category='model_checking',
                text='For every event of a complete crawl (each table transaction after commit, each request/response) a '
                     'forked child running the real application is killed with os._exit right after it; the same command is '
                     'then run again on the same on-disk database; the concatenated two-run trace is judged by TLC: nothing '
                     'done before the kill is requested again, nothing stuck in progress, no discovered row lost, the two '
                     'runs together cover the uninterrupted crawl.  The scenarios include sitemaps, a depth limit with two paths, '
                     'statement-level kill points, kills during start-up (schema statements) and a recursive FTP crawl against a '
                     'scripted FTP server (LIST / RETR as the requests of the model URLs).  ' + E2E_NOTE, design_ref='DESIGN.md 5 (C03), 12.6'),
    'C18': dict(technique='TLA+ crawl model (adversarial server) + TLC; real crawls against hostile scripted servers '
                          'validated by CrawlMon',
                text='Redirect loops and chains over 301/302/307/308, missing and unparsable Location, perpetual 5xx, '
                     'connection drops and 401 with/without credentials, for tries 1..3 and max-redirect 0..5: per visit '
                     'the number of requests is bounded by max-redirect + 1 (+1 authentication retry), no request is made '
                     'for an item whose tries are exhausted, and every crawl terminates with no pending work.  ' + E2E_NOTE,
                design_ref='DESIGN.md 5 (C18)'),
    'C20': dict(technique='TLA+ crawl model with robots pool + TLC; real crawls with robots.txt scenarios validated by CrawlMon',
                text='Disallowed URLs never requested (directly or as redirect hop), robots.txt obtained before any page of '
                     'its origin and not fetched again once obtained, nofollow pages not followed, missing robots.txt '
                     'allows all, 5xx on robots.txt postpones; agent groups and large files; one and two origins; '
                     'concurrency 1..2 with all answer orders.  ' + E2E_NOTE, design_ref='DESIGN.md 5 (C20)'),
})

CHECKS['C02'] = dict(
    technique='declarative TLA+ scope rules (Scope.tla) evaluated by TLC on vectors answered by the real filter list; '
              'crawl-level request monitor (CrawlMon)',
    text='Scope.tla states every rule (scheme, recursion, depth, requisite depth, no-parent, domain/host lists, span-hosts '
         'with its allowances, regex, directory, suffix, retry limit) and the single redirect waiver declaratively; TLC '
         'checks its structural theorems over a full abstract product (ScopeCheck) and then evaluates the rules on every '
         'vector of the per-cluster exhaustive enumerations and of the activation x failure-pattern composition, each '
         'answered by the REAL filter list built from a real argument vector (URLFiltersSetupTask._build_url_filters + '
         'SpanHostsFilter + FetchRule.consult_filters) on concrete URLInfo/URLRecord witnesses: a URL the real code would '
         'request although a rule forbids it is a violation.  At crawl level every request seen by the scripted server '
         'in complete crawls of sites offering out-of-scope links, requisites, redirects and sitemaps is judged by CrawlMon.  '
         'For FTP crawls FtpScope.tla models wpull\'s FTP recursion (records with level / link type, parent listing, LIST / '
         'RETR, glob expansion, 1-2 workers); TLC checks that the model never sends a command outside a declarative '
         'reference (least fixed point over the server tree under -r, -l, --no-parent, --no-glob, -A/-R, -I/-X, regex), and '
         'the TLC-generated scenarios plus a catalogue are replayed as complete real crawls against a scripted in-memory '
         'FTP tree; every command the server receives is judged by FtpScopeMon, every recording by FtpScopeTrace.',
    design_ref='DESIGN.md 5 (C02), 12')

CHECKS['C14'] = dict(
    technique='TLA+ reference model (URLTable.tla) checked by TLC; real SQLiteURLTable / URLTableHookWrapper histories '
              '(TLC-generated per-transition and simulated scenarios, seeded random histories) validated by TLC monitor '
              'and strict trace specs',
    text='URLTable.tla is a sequential reference model of SQLiteURLTable/URLTableHookWrapper (one action per public call = '
         'one transaction; rows, row ids, url_strings, hostnames, queued_files, visits, wrapper counter).  TLC checks 24 '
         'clauses over <projection before, call, result, projection after> exhaustively: 2 URLs x all calls x 4 property '
         'templates x batches <= 2 to depth 3, 3 URLs x all calls to depth 3, 3 URLs x core calls to depth 5 (re-add is '
         'a no-op and not reported; exactly the new URLs reported; only removal deletes; status changes only by '
         'check-out/in/update/release; try +1 exactly when asked; depth stable; not-found iff none eligible; release '
         'exact; reopen identity; reads agree; failures atomic; nothing else raises).  The real table is executed in '
         'memory, on disk with close+reopen, and through the hook wrapper on one history per transition of the bounded '
         'model, on TLC-simulated histories (5 URLs x 30 calls) and on seeded random histories of 50-200 calls over '
         '10-20 arbitrary URL strings; after every call the result and the table contents read back by SQL are recorded; '
         'TLC validates each trace against URLTableMon (VIOLATION) and URLTableTrace (DRIFT).',
    design_ref='DESIGN.md 5 (C14)')
CHECKS['C17'] = dict(
    technique='TLA+ model (FtpControl.tla) checked by TLC; TLC-generated server strategies replayed against the real FTP '
              'client over fakenet/vloop; recorded conversations validated by TLC monitor and strict trace specs',
    text='FtpControl.tla is a byte-level model of the FTP control conversation (Session.start/start_listing/download, '
         'Commander, ControlStream.read_reply, Reply.parse, Command.to_bytes, login table, PASV parse).  TLC checks '
         'one-command-one-line, the command-order automaton, reply assembly equal to the whole-stream reference and '
         'completion-only-after-data-EOF-and-2xx-final exhaustively for every alphabet string <= 2 in user/password/path, '
         '9 reply shapes x every cut, every data-close timing, dropped connections and two sessions.  The real '
         'Client/Session runs over an in-memory network under a virtual loop for every TLC-enumerated server strategy, '
         'TLC-simulated behaviours, every percent-encoded alphabet string <= 3 per URL position, Command.to_bytes '
         'directly, and every 2-piece / byte-wise / composition cut of each shape at each step; each recorded '
         'conversation is validated by FtpControlMon (VIOLATION) and FtpControlTrace (DRIFT).',
    design_ref='DESIGN.md 5 (C17)')


CHECKS['C08'] = dict(
    technique='TLA+ model of the HTTP response reader (HttpWire.tla) checked by TLC against RFC 7230 reference operators; '
              'TLC-generated behaviours and seeded random messages served byte-exactly to the real client over an '
              'in-memory network; recorded executions validated by TLC monitor and trace specs',
    text='HttpWire.tla is an implementation-shaped model of Session/Stream/ChunkedTransferReader in which every read may '
         'return any number of octets (= all segmentations).  TLC checks it exhaustively against reference operators '
         'written from RFC 7230 3.3.3 only, for bounded message spaces: methods, status classes incl. an interim 1xx, four '
         'transfer-coding spellings, six Content-Length kinds, five header formattings, chunk extensions and trailers, every '
         'truncation point, up to two exchanges in lockstep.  TLC-generated behaviours (messages + piece sizes) and seeded '
         'random concrete messages under random segmentations down to single octets are served byte-exactly to the real '
         'wpull.protocol.http.client; each recorded execution is checked by TLC against HttpWireMon (payload, '
         'truncation-is-error, complete-is-ok, no over-read, persistence: VIOLATION) and HttpWireTrace (DRIFT).',
    design_ref='DESIGN.md 5 (C08/C04)')
CHECKS['C04'] = dict(
    technique='same model and executions as C08, run through the real WARCRecorder; the written WARC file is parsed by an '
              'independent reader and judged by the TLC monitor (record block fidelity, count, linkage)',
    text='The executions of C08 additionally run through the real WARCRecorder attached to the real HTTP client; an '
         'independent minimal WARC reader extracts every record block; HttpWireMon (TLC) compares each response block with '
         'RefMessageBytes of the message the scripted server sent (every octet once, in order, nothing of the neighbouring '
         'exchanges, overrun octets excluded), each request block with the octets the server received, and checks one '
         'request + one response/revisit record per completed exchange with WARC-Concurrent-To linkage; revisit records '
         '(--warc-dedup) must hold exactly the received header block, requests with a body (POST) header and body, and an '
         'archive that cannot be read back record by record is itself a violation.',
    design_ref='DESIGN.md 5 (C08/C04)')
CHECKS['C19'] = dict(
    technique='TLA+ decoder model parameterised by measured zlib profiles, checked by TLC; TLC-enumerated compositions '
              'replayed into the real decompressors and Stream.read_body; TLC monitor + strict trace validation',
    text='Decoder.tla abstracts a zlib inflater by the profile of the body (where it raises, where it reaches eof, what it '
         'has emitted after k bytes) and models GzipDecompressor / DeflateDecompressor / the stream conversions; TLC checks '
         'output-equals-one-shot and corrupt-or-truncated-is-an-error for every composition of the body into pieces.  '
         'Every composition of every real body <= 7 bytes (quick) / <= 11 bytes (thorough) x gzip, zlib, raw, identity x '
         'every truncation x single-byte corruptions is replayed into the real classes and through Stream.read_body '
         '(Content-Length, close and chunked paths) over the in-memory network; DecoderMon compares with the one-shot '
         'reference (inflate results come from zlib in the projection).',
    design_ref='DESIGN.md 5 (C19)')
CHECKS['C16'] = dict(
    technique='TLA+ model of WebSession / Request.prepare_for_send / CookieJarWrapper / RedirectTracker checked by TLC; '
              'TLC-generated server strategies and URL-text classes played against the real WebClient over an in-memory '
              'network; received bytes parsed independently and judged by a TLC monitor; strict trace validation',
    text='WebSession.tla models the request object across redirects, authentication retries and cookies; TLC checks '
         'one-Host-for-the-URL, credentials and cookies only for their host, no https->http referrer, redirect bound.  '
         'Exhaustive for visits of <= 2 requests over 2 hosts (schemes and ports in thorough), simulated for chains of '
         '<= 5 requests over 3 hosts x 2 schemes x 2 ports x 8 status codes; URL-text classes (user-info, IDN, IPv6, ports, '
         'encoded delimiters, %0D%0A, spaces) with <= 2 (quick) / <= 3 (thorough) odd components are used as start URL and '
         'as Location.  The bytes the scripted server received are parsed independently; WebSessionMon (TLC) evaluates '
         'nine clauses (target, one Host, auth, cookie, referrer, well-formed, bound, delivered, ends).',
    design_ref='DESIGN.md 5 (C16)')
WARC_TEXT = ('WarcWriter.tla models the recorder as the sequence of file-system operations of an append (journal create/write/'
             'close, archive open/write/close, journal remove, CDX append) inside start-up, HTTP/FTP sessions, rollover and '
             'close, with I/O-error and crash actions; TLC checks it for <= 2 sessions, <= 2 processes, one error, one kill.  '
             'The real WARCRecorder runs under a counting/faulting file-operation layer on scripted recorder sessions and '
             'on the real HTTP client over the in-memory network; an independent strict WARC/CDX/journal reader projects '
             'the files; TLC evaluates every clause on that projection (WarcWriterMon: VIOLATION; WarcWriterTrace: DRIFT).  ')
CHECKS['C05'] = dict(
    technique='TLA+ model of the WARC recorder as file-system operations + TLC; files written by the real recorder read by '
              'an independent reader and judged by the TLC monitor',
    text=WARC_TEXT + 'C05: 13 clauses on fault-free runs of 55 (quick) to 1500 (thorough) scenarios: record sequence, one '
         'gzip member per record, framing, one line per named field, Content-Length, unique IDs, warcinfo pointer, block '
         'digest, payload-digest range for request/response/revisit, and - against what the scripted server sent - the payload '
         'digest is that of the body sent (interim 1xx responses, line-break octets inside header values).  SHA-1 values are '
         'computed by the reader.',
    design_ref='DESIGN.md 5 (C05-C07)')
CHECKS['C06'] = dict(
    technique='TLA+ model with IOError and Crash actions + TLC; fault and kill enumeration at every operation of every append '
              'of the real recorder, judged by the TLC monitor',
    category='model_checking',
    text=WARC_TEXT + 'C06: at every operation index an injected OSError (journal and archive open/write/close/unlink) and a '
         'really killed forked child + restart: content restored and journal removed after a handled fault; after a kill '
         'the archive is valid or the journal names the pre-append length and truncating restores validity; start-up '
         'refuses while a journal exists - also for archive names that mean something to glob ([...], *).',
    design_ref='DESIGN.md 5 (C05-C07)')
CHECKS['C07'] = dict(
    technique='TLA+ model of append + CDX + rollover + TLC; CDX files written by the real recorder judged by the TLC monitor',
    text=WARC_TEXT + 'C07: one CDX line per response record and no stray line; file/offset/length address exactly the '
         'record (one gzip member when compressed) across rollover and appending; URL, record id, payload digest, status '
         'and MIME type equal the record / archived response (header shapes up to and beyond 4 KiB) and the response the '
         'scripted server sent (the final one after interim responses; its own Content-Type field); archive names with '
         'blanks and glob characters.',
    design_ref='DESIGN.md 5 (C05-C07)')
URL_TEXT = ('UrlNorm.tla defines the URL input space as structured families over an alphabet of about 30 character classes '
            '(authority, path, query/fragment, cross and encoding clusters; base input + respellings), an '
            'implementation-shaped transcription Norm of URLInfo.parse/url (IPv4/IPv6/IDNA handling included) and the '
            'property predicates.  TLC enumerates the clusters, checks the predicates on Norm (design check) and prints the '
            'families; every member is run through the real wpull.url; TLC evaluates the predicates on the REAL outputs '
            '(UrlNormMon: VIOLATION) and compares them with Norm (UrlNormTrace: DRIFT).  Representative classes, not all of '
            'Unicode / IDNA.  ')
CHECKS['C10'] = dict(
    technique='TLA+ transcription and predicates checked by TLC; TLC-enumerated inputs executed on the real code; real '
              'outputs judged by TLC monitor and trace specs',
    text=URL_TEXT + 'C10 clauses: ASCII, no whitespace/C0, lower-case scheme and host, default port omitted, no dot or empty '
         'segments, upper-case escapes, idempotent, round trip, variants agree.  About 15 k inputs quick, 177 k thorough.',
    design_ref='DESIGN.md 5 (C10/C11)')
CHECKS['C11'] = dict(
    technique='same machinery as C10 with totality clauses evaluated by TLC on outcomes observed from the real code',
    text=URL_TEXT + 'C11 clauses: parse returns or raises ValueError; every documented attribute/accessor readable; '
         'parse_url_or_log never raises; urljoin/urljoin_safe raise only ValueError; termination (recursion limit + CPU '
         'watchdog).  Structured clusters, 14 document encodings and TLC-enumerated delimiter soup (all strings <= 5 over 10 '
         'delimiters ...): about 26 k inputs quick, 188 k thorough.',
    design_ref='DESIGN.md 5 (C10/C11)')
CHECKS['C15'] = dict(
    technique='TLA+ transcription of the path-naming functions + containment predicate checked by TLC; TLC-enumerated '
              'scenarios executed on the real PathNamer / file writer session; chosen paths judged by the TLC monitor',
    text='PathName.tla transcribes url_to_dir_parts, url_to_filename, FTP unquote-after-split, safe_filename, '
         'parse_content_disposition and the writer session path choice, and defines Contained.  TLC enumerates parts x 120 '
         'sanitiser configurations, URLs x 64 structural and 120 sanitiser configurations, Content-Disposition values x 16 '
         'configurations, checks Contained on the transcription and prints the scenarios; each runs through the real '
         'PathNamer / BaseFileWriterSession under a real temporary directory; TLC evaluates Returns, Prefixed, Contained and '
         'Inside (realpath) on the chosen paths (VIOLATION) and compares with the transcription (DRIFT).  18 k scenarios '
         'quick, 377 k thorough.  Names that reach the file system without PathNamer (symbolic links of FTP listings, '
         'listing and Content-Disposition names) are covered by whole crawls with hostile names under an empty directory: '
         'anything that appears next to the crawl\'s own directory is a violation.',
    design_ref='DESIGN.md 5 (C15)')
CHECKS['C09'] = dict(
    technique='TLA+ exception-propagation model (ErrorFlow.tla) checked by TLC; TLC-enumerated fault, malformation, cut and '
              'document cases executed against the real application over an in-memory network and through the real '
              'scrapers; each recorded run judged by a TLC monitor (clauses + drift against the model prediction)',
    text='PARTIAL (see level_note).  ErrorFlow.tla transcribes every try/except frame between the primitives and '
         'Application.run (76 sites x 31 exception kinds, CPython + wpull class hierarchy); TLC computes the terminal outcome '
         'of every (site, kind) and checks that the remotely provokable pairs that escape are exactly the documented ones.  '
         'On the real code: all 1263 injectable (site, kind) faults in a complete crawl; 146 grammar-level malformation '
         'classes x segmentation over HTTP, robots.txt and FTP (scripted FTP server; also with --preserve-permissions, '
         '--retr-symlinks=off, --continue with partial local files, --post-data); premature close at all 628 byte '
         'offsets of 5 reference responses; up to 57 k token-level documents x charset labels through the html5lib, CSS, '
         'JavaScript and sitemap scrapers; ErrorFlowMon (TLC) judges each run (no hang, no escape, others fetched, all rows '
         'final, target final).',
    note=TRUST + '  NOT decided: arbitrary byte strings into the document, listing and header parsers (fuzzing territory), '
         'TLS, the lxml parser, OS sockets and DNS, MLSD, coprocessors and plugins.',
    design_ref='DESIGN.md 5 (C09), 8')

CHECKS['C12'] = dict(
    technique='TLA+ model (ConnPool.tla) checked by TLC; real ConnectionPool/HostPool and HTTP Session executions '
              '(stateless schedule exploration, per-iteration cancellation injection, TLC-generated environment scripts, '
              'seeded random schedules) validated by TLC monitor and strict trace specs',
    text='ConnPool.tla models ConnectionPool.acquire/release/no_wait_release/_process_no_wait_releases/clean and '
         'HostPool.acquire/release/clean on asyncio 3.12 (FIFO-fair locks with the fast path only when no live waiter, '
         'Condition.wait re-acquiring on cancellation, notify(1), task-to-task cancellation propagation), one action per '
         'await-free block.  TLC checks Mutex, HeldBusy, Disjoint, Bound, WaitersAccounted, BusyAccounted, WaiterServed, '
         'ReleaseCompletes, NoLeak exhaustively for N<=3 clients, H<=2 keys, M<=2, <=2 rounds, 1-2 cancellations at every '
         'suspension point, 1 remote close, forced clean, and liveness (Served, Drains) under weak fairness on smaller '
         'instances; the unrepaired variant is shown to violate the clauses.  The real pool runs under a deterministic '
         'virtual-time loop: every environment choice at every quiescent point of small instances, a cancellation of each '
         'client before every loop iteration of base schedules, TLC-generated scripts, seeded random schedules up to N=5, '
         'H=3, M=3, through ConnectionPool.session() (normal and exceptional exit), and through the real HTTP Client/Session '
         '(start/download/recycle/abort) directly and via HTTPProxyConnectionPool (plain and CONNECT) with connect refusals, '
         'refused / cut tunnels, mid-body closes and early exits; every recorded trace (with a projection of pools, idle/checked-out connection ids, waiter '
         'counters, lock flags after each event) is checked by ConnPoolMon (VIOLATION) and ConnPoolTrace (DRIFT).',
    design_ref='DESIGN.md 5 (C12)')

NOT_YET = {}


def main():
    props = [json.loads(l) for l in open(os.path.join(ROOT, 'properties.jsonl'))]
    checks = []
    na = []
    for p in props:
        pid = p['id']
        if pid in CHECKS:
            c = CHECKS[pid]
            checks.append({
                'property_id': pid,
                'quick_cmd': './check %s --tier quick' % pid,
                'thorough_cmd': './check %s --tier thorough' % pid,
                'evidence_file': 'evidence/%s.json' % pid,
                'replay_cmd_template': './check %s --replay {path}' % pid,
                'engine': 'tlc',
                'level_claimed': {'category': c.get('category', 'model_checking'), 'text': c['text'],
                                  'design_ref': c['design_ref']},
                'level_note': c.get('note', TRUST),
                'technique': c['technique'],
            })
        else:
            na.append({'property_id': pid, 'reason': NOT_YET.get(
                pid, 'not claimed yet: specification and conformance driver under construction (see DESIGN.md 10)')})
    man = {
        'version': 1,
        'setup_cmd': './setup.sh',
        'hooks': {
            'guard': 'WPULL_VERIF',
            'enable': 'none needed: all observation is done from outside (subclasses / wrappers registered by the '
                      'harness, fake network, wrapped file operations); /repo contains no instrumentation',
            'baseline_off_cmd': BASELINE_OFF,
            'source_commits': [],
            'add_only': True,
        },
        'engines': [{'name': 'tlc', 'path': '/opt/veriftools/tla/tla2tools.jar',
                     'serves_properties': sorted(CHECKS),
                     'kind_free_text': 'TLC 1.8 explicit-state model checker: exhaustive design checks of specs/*.tla, '
                                       'batch trace validation of executions recorded from the real code, and '
                                       'simulation-mode scenario generation'}],
        'checks': checks,
        'not_applicable': na,
        'notes': 'See DESIGN.md.  known_findings.json lists genuine defects (fixed / known).  Genuine-defect repairs are '
                 'unguarded "fix:" commits in /repo.',
    }
    with open(os.path.join(ROOT, 'MANIFEST.json'), 'w') as fh:
        json.dump(man, fh, indent=1)
    print('MANIFEST.json: %d checks, %d not claimed' % (len(checks), len(na)))


if __name__ == '__main__':
    main()
