#!/bin/sh
# apply_fix.sh <diff> <commit message file>  : apply a reviewed fix to /repo, run the repository suite, commit.
set -e
D="$1"; M="$2"
cd /repo
git diff --quiet || { echo "repo dirty"; exit 2; }
git apply --check "$D"
git apply "$D"
res=$(/venv/bin/python -m pytest -q -p no:cacheprovider --timeout=900 --continue-on-collection-errors 2>&1 | tail -1)
echo "$res"
case "$res" in *"111 passed"*) ;; *) echo "SUITE CHANGED"; git checkout -- .; exit 3;; esac
git commit -qa -F "$M"
git log --oneline | head -1
