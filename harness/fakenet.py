"""In-memory network for the real wpull Connection / ConnectionPool / protocol clients.

`FakeConnection` overrides only `connect()`: `reader` is a real `asyncio.StreamReader` fed lazily
(a piece is delivered only when the reader blocks, so a server script decides exactly how many bytes
each `read(n)` sees and where each line is cut), `writer` a recording stub.  read / readline / write /
run_network_operation / close / reset / closed are the real code.

Server side: an object with
    on_connect(ep)          the client connected
    on_data(ep, data)       the client wrote `data`
    on_close(ep)            the client closed the connection
using the endpoint API  ep.send(bytes, cuts=None) / ep.send_pieces([..]) / ep.close() / ep.fail(exc).
"""
import asyncio
import collections
import errno
import socket

from wpull.network.connection import Connection, ConnectionState, CloseTimer, DummyCloseTimer
from wpull.network.dns import Resolver, ResolveResult, AddressInfo
from wpull.errors import DNSNotFound

_EOF = object()


class LazyReader(asyncio.StreamReader):
    def __init__(self, ep, limit=2 ** 16):
        super().__init__(limit=limit)
        self._ep = ep

    async def _wait_for_data(self, func_name):
        self._ep._pump_soon(force=True)
        await super()._wait_for_data(func_name)


class FakeTransport(object):
    def __init__(self, ep):
        self._ep = ep

    def get_extra_info(self, name, default=None):
        if name == 'peername':
            return self._ep.address
        return default

    def is_closing(self):
        # (a connection the peer has reset is lost: asyncio closes its transport at once)
        return self._ep.client_closed or self._ep.was_reset

    def close(self):
        self._ep._client_close()


class FakeWriter(object):
    def __init__(self, ep):
        self._ep = ep
        self.transport = FakeTransport(ep)

    def write(self, data):
        ep = self._ep
        if ep.client_closed:
            return
        data = bytes(data)
        ep.received += data
        ep.writes.append(data)
        ep.net.log.append(('write', ep.id, data))
        if ep.server is not None:
            ep.server.on_data(ep, data)

    def writelines(self, lines):
        for l in lines:
            self.write(l)

    async def drain(self):
        ep = self._ep
        if ep.write_error is not None:
            e, ep.write_error = ep.write_error, None
            raise e
        return None

    def close(self):
        self._ep._client_close()

    def get_extra_info(self, name, default=None):
        return self.transport.get_extra_info(name, default)

    def can_write_eof(self):
        return False


class Endless(object):
    """A server that never stops sending: piece(i) is handed to the client each time it waits for more.  After `limit`
    pieces the execution is abandoned with `exc` (the client would go on for ever)."""
    def __init__(self, piece, limit, exc):
        self.piece, self.limit, self.exc = piece, limit, exc
        self.count = 0


class Endpoint(object):
    """One accepted connection, seen from the server script."""
    def __init__(self, net, address, server):
        self.net = net
        self.address = address
        self.server = server
        self.id = len(net.endpoints) + 1
        self.out = collections.deque()
        self.received = bytearray()
        self.writes = []
        self.client_closed = False
        self.server_closed = False
        self.was_reset = False
        self.write_error = None
        self.delivered = []           # pieces actually handed to the reader, in order
        self.reader = LazyReader(self, limit=getattr(net, 'reader_limit', 2 ** 16))
        self.writer = FakeWriter(self)
        self._pump_scheduled = False
        self.data = {}                # scratch space for server scripts

    # ---- server API
    def send(self, data, cuts=None):
        """Queue bytes for the client.  cuts: list of piece lengths (the rest is one more piece),
        or an int n for pieces of n bytes, or None for one piece."""
        data = bytes(data)
        if not data:
            return
        if cuts is None:
            pieces = [data]
        elif isinstance(cuts, int):
            pieces = [data[i:i + cuts] for i in range(0, len(data), cuts)]
        else:
            pieces = []
            pos = 0
            for c in cuts:
                if c <= 0 or pos >= len(data):
                    continue
                pieces.append(data[pos:pos + c])
                pos += c
            if pos < len(data):
                pieces.append(data[pos:])
        self.send_pieces(pieces)

    def send_pieces(self, pieces):
        for p in pieces:
            if p:
                self.out.append(bytes(p))
        self._pump_soon()

    def close(self):
        """Server closes its side: the client sees EOF after the queued data."""
        if not self.server_closed:
            self.server_closed = True
            self.out.append(_EOF)
            self._pump_soon()

    def reset_now(self):
        """The peer resets the connection (TCP RST) - also while the client is not reading: asyncio reports it as
        connection_lost(exc), i.e. the reader gets the exception (not an end of stream) and the transport is closed."""
        self.was_reset = True
        self.out.clear()
        self.reader.set_exception(ConnectionResetError(errno.ECONNRESET, 'Connection reset by peer'))

    def fail(self, exc):
        """The connection breaks: the pending/next read raises exc (after the queued data)."""
        self.out.append(exc)
        self._pump_soon()

    # ---- plumbing
    def _client_close(self):
        if not self.client_closed:
            self.client_closed = True
            self.net.log.append(('close', self.id))
            if self.server is not None:
                self.server.on_close(self)
            # like asyncio's transport.close() -> connection_lost(None): a read still pending on this connection
            # ends with end-of-stream
            try:
                if not self.reader.at_eof() and not self.reader._eof:
                    self.reader.feed_eof()
            except Exception:
                pass

    def _pump_soon(self, force=False):
        if not self._pump_scheduled and self.out and (force or self.reader._waiter is not None):
            self._pump_scheduled = True
            asyncio.get_event_loop().call_soon(self._pump)

    def _pump(self):
        self._pump_scheduled = False
        r = self.reader
        if r._waiter is None or not self.out or self.client_closed:
            return
        item = self.out.popleft()
        if isinstance(item, Endless):
            if item.count >= item.limit:
                asyncio.get_event_loop().abort = item.exc
                return
            self.out.appendleft(item)
            item.count += 1
            item = bytes(item.piece(item.count))
        if item is _EOF:
            r.feed_eof()
        elif isinstance(item, BaseException):
            r.set_exception(item)
        else:
            self.delivered.append(item)
            r.feed_data(item)
            # eager_eof: the peer's close travels right behind its last octets (the end of the stream is already known
            # when the reader is handed that last piece); default: it is delivered at the next blocked read
            if getattr(self, 'eager_eof', False) and self.out and self.out[0] is _EOF:
                self.out.popleft()
                r.feed_eof()


class BaseServer(object):
    def on_connect(self, ep):
        pass

    def on_data(self, ep, data):
        pass

    def on_close(self, ep):
        pass


class FakeNet(object):
    def __init__(self):
        self.listeners = {}     # (ip, port) -> callable(ep) returning a server object, or a server object
        self.hosts = {}         # hostname -> ip
        self.endpoints = []
        self.log = []
        self.connect_errors = collections.deque()   # scripted: next connects fail with these (None = succeed)
        self.refuse = set()     # addresses that refuse connections
        self.reader_limit = 2 ** 16   # asyncio's default line limit; scenarios may scale it down

    def add_host(self, hostname, ip):
        self.hosts[hostname] = ip

    def listen(self, ip, port, server):
        self.listeners[(ip, port)] = server

    async def _open(self, conn):
        addr = (conn.address[0], conn.address[1])
        fut = asyncio.get_event_loop().create_future()
        asyncio.get_event_loop().call_soon(fut.set_result, None)
        await fut                       # connecting always takes one loop iteration
        self.log.append(('connect', addr))
        if self.connect_errors:
            e = self.connect_errors.popleft()
            if e is not None:
                raise e
        if addr in self.refuse or addr not in self.listeners:
            raise ConnectionRefusedError(errno.ECONNREFUSED, 'refused')
        srv = self.listeners[addr]
        ep = Endpoint(self, addr, None)
        self.endpoints.append(ep)
        if callable(srv) and not hasattr(srv, 'on_data'):
            srv = srv(ep)
        ep.server = srv
        srv.on_connect(ep)
        return ep.reader, ep.writer

    def connection_factory(self, address, hostname=None, **kwargs):
        kwargs.pop('ssl_context', None)
        return FakeConnection(self, address, hostname, **kwargs)

    def resolver(self, **kwargs):
        return FakeResolver(self, **kwargs)


class FakeConnection(Connection):
    def __init__(self, net, address, hostname=None, **kwargs):
        super().__init__(address, hostname, **kwargs)
        self._net = net

    @asyncio.coroutine
    def connect(self):
        if self._state != ConnectionState.ready:
            raise Exception('Closed connection must be reset before reusing.')

        self.reader, self.writer = yield from \
            self.run_network_operation(
                self._net._open(self),
                wait_timeout=self._connect_timeout,
                name='Connect')

        if self._timeout is not None:
            self._close_timer = CloseTimer(self._timeout, self)
        else:
            self._close_timer = DummyCloseTimer()

        self._state = ConnectionState.created

    @asyncio.coroutine
    def start_tls(self, ssl_context=True):
        return self


class FakeResolver(Resolver):
    def __init__(self, net, **kwargs):
        super().__init__(**kwargs)
        self._net = net
        self.dns_python_enabled = False

    @asyncio.coroutine
    def resolve(self, host):
        ip = self._net.hosts.get(host)
        if ip is None:
            try:
                socket.inet_aton(host)
                ip = host
            except OSError:
                if ':' in host:
                    ip = host
        if ip is None:
            raise DNSNotFound('DNS resolution failed: {}'.format(host))
        fam = socket.AF_INET6 if ':' in ip else socket.AF_INET
        return ResolveResult([AddressInfo(ip, fam, None, None)])
