#!/bin/sh
# seed_regress.sh <seed-id>  : re-run the quick check of a stored seeded change against the CURRENT /repo HEAD + patch.
# Prints one line:  <seed-id> <property> applied=<yes|no> rc=<rc> violations=<n> [was=<violation lines recorded in meta.json>]
SID="$1"
D=/verif/seeded/$SID
PROP=$(python3 -c "import json,sys; print(json.load(open('$D/meta.json'))['property'])")
WAS=$(python3 -c "
import json
m=json.load(open('$D/meta.json'))
print(sum(c.get('violation_lines',0) for c in m.get('checks_run',[]) if c.get('check')=='$PROP'))")
WT=$(mktemp -d /tmp/seedrg_XXXXXX); rmdir "$WT"
git -C /repo worktree add -q "$WT" HEAD || { echo "$SID $PROP worktree-failed"; exit 0; }
trap 'git -C /repo worktree remove --force "$WT" >/dev/null 2>&1' EXIT
if ! git -C "$WT" apply "$D/patch.diff" 2>/dev/null; then
  if ! git -C "$WT" apply --3way "$D/patch.diff" >/dev/null 2>&1; then
    echo "$SID $PROP applied=no was=$WAS"; exit 0
  fi
fi
out=$(cd /verif && VERIF_REPO="$WT" VERIF_EVIDENCE_DIR=/tmp/seedrg_ev timeout 1500 ./check "$PROP" --tier quick 2>&1)
rc=$?
v=$(echo "$out" | grep -c "^VIOLATION")
echo "$SID $PROP applied=yes rc=$rc violations=$v was=$WAS"
