"""C16 - every HTTP request on the wire matches the URL being fetched.

1. design check (TLC, WebSession.tla): the model of the code AS IT IS satisfies C16 except for requests made by
   copying the original request on a 307/308 (AsIs* invariants: there is no other way); the model of the
   proposed repair satisfies every clause.
2. spec -> code: WebSessionGen.tla makes TLC enumerate server strategies (start URL with/without user-info, scheme,
   port, referrer, login, initial cookies; per answer: status x Location (URL on any host/port/scheme, missing,
   unparsable) x Set-Cookie): exhaustively for a small alphabet, by simulation for the full one.  Each script is
   played against the REAL WebClient/WebSession (CookieJarWrapper + DeFactoCookiePolicy + RedirectTracker, wired as
   ClientSetupTask._build_web_client does) over harness.fakenet; relative and absolute Location renderings; a
   plain-HTTP proxy variant.
   URL-text dimension: TLC enumerates the product of component classes (user-info, host form, port, path, query,
   fragment); the driver renders each as URL text, fed as start URL and as Location of a 302 and of a 307.
3. code -> spec: the bytes each fake listener received are parsed by an independent projection and validated by TLC:
   WebSessionMon (C16's clauses against what HTTP semantics expect from the server's own script: decides VIOLATION)
   and WebSessionTrace (is it a behaviour of WebSession.tla: decides DRIFT).
"""
import json
import os
import random
import re
from concurrent.futures import ThreadPoolExecutor

from harness import tlc
from drivers import websession_exec as X
from drivers import websession_text as TX

CLAUSES = {1: 'Delivered', 2: 'TargetOK', 3: 'OneHostOK', 4: 'AuthOK', 5: 'CookieOK', 6: 'RefererOK',
           7: 'WellFormed', 8: 'BoundOK', 9: 'EndsOK', 10: 'TunnelOK'}
FIX_COPY = os.environ.get('VERIF_C16_FIX_COPY', 'TRUE')
REDIRECTS = (301, 302, 303, 307, 308)


def consts(hosts, paths, schemes, ports, maxred, maxhops, fix, statuses=(200, 301, 302, 303, 307, 308, 401, 500)):
    q = lambda xs: '{' + ', '.join('"%s"' % x for x in xs) + '}'
    return ('CONSTANTS Hosts = %s Paths = %s Schemes = %s PortsC = %s MaxRed = %d MaxHops = %d FixCopy = %s '
            'Statuses = {%s}\n' % (q(hosts), q(paths), q(schemes), q(ports), maxred, maxhops, fix,
                                   ', '.join(str(x) for x in statuses)))


def design_cfg(c, invs):
    return 'SPECIFICATION Spec\n' + c + ''.join('INVARIANT %s\n' % i for i in invs) + 'CHECK_DEADLOCK FALSE\n'


def gen(c, simulate=None, seed=0, depth=20, timeout=600, start_hosts=('h1',), refs=('none', 'http', 'https')):
    q = lambda xs: '{' + ', '.join('"%s"' % x for x in xs) + '}'
    cfg = ('SPECIFICATION GSpec\n' + c + 'CONSTANTS MaxOdd = 0 StartHosts = %s Refs = %s SimMode = %s\nCONSTRAINT Emit\n'
           'CHECK_DEADLOCK FALSE\n' % (q(start_hosts), q(refs), 'TRUE' if simulate else 'FALSE'))
    res = tlc.run_tlc('WebSessionGen', cfg, workers=1 if simulate else 4, simulate=simulate, depth=depth,
                      seed=seed, timeout=timeout, heap='3g')
    if not simulate:
        tlc.require_ok(res, 'scenario generation WebSessionGen')
    out = []
    seen = set()
    for m in re.finditer(r'<<"SCRIPT", "(.*?)">>', res['out']):
        txt = m.group(1).replace('\\"', '"')
        if txt in seen:
            continue
        seen.add(txt)
        out.append(json.loads(txt))
    out.sort(key=lambda d: json.dumps(d, sort_keys=True))
    return out, res


def to_script(g, maxred, rel, proxy):
    """TLC script -> executor script, or None if the requested rendering is not applicable."""
    cfg = g['cfg']
    cur = cfg['start']
    steps = []
    used_rel = False
    for s in g['steps']:
        st = {'status': s['status'], 'loc': s['locurl'] if s['loc'] == 'url' else s['loc'],
              'setcookie': s['setcookie']}
        if s['loc'] == 'url':
            same = all(s['locurl'][k] == cur[k] for k in ('scheme', 'host', 'port', 'creds'))
            if rel and same:
                st['rel'] = True
                used_rel = True
            if s['status'] in REDIRECTS:
                cur = s['locurl']
        steps.append(st)
    if rel and not used_rel:
        return None
    return {'start': cfg['start'], 'login': cfg['login'], 'referer': cfg['referer'], 'jar0': sorted(cfg['jar0']),
            'maxred': maxred, 'proxy': proxy, 'steps': steps}


def expected(u):
    absolutes = ['%s://%s%s' % (u['scheme'], X.authority(u), X.target_of(u))]
    if u.get('creds'):
        absolutes.append('%s://%s:%s@%s%s' % ((u['scheme'],) + X.creds_of(u['host']) + (X.authority(u), X.target_of(u))))
    return {'host': u['host'], 'scheme': u['scheme'], 'port': u['port'], 'targets': [X.target_of(u)],
            'authority': X.authority(u), 'absolutes': absolutes}


def ahost(value):
    """Abstract image of a Host field value."""
    for h, (name, ip) in X.HOSTS.items():
        if value == name:
            return [h, 'def']
        for (sch, pc), p in X.PORTS.items():
            if pc == 'alt' and value == '%s:%d' % (name, p):
                return [h, 'alt', sch]
        # an explicit port that is the default of the other scheme is a non-default port of this URL
        if value == '%s:443' % name:
            return [h, 'alt', 'http']
        if value == '%s:80' % name:
            return [h, 'alt', 'https']
    return ['?', value]


def annotate(sc, ev):
    """Add to the recorded events what HTTP semantics expect at each hop (from the server's own script)."""
    cur = sc['start']
    out = []
    hop = 0
    for e in ev:
        e = dict(e)
        if e['e'] == 'send':
            e['exp'] = expected(cur)
            pn = e.pop('pn', None)
            if pn in (80, 443) and e['at']['host'] != 'proxy':
                # the in-memory network has no TLS: a listener port shared by "http on 443" and "https on 443" is
                # read relative to the scheme of the URL being fetched
                sch = e['exp']['scheme']
                e['at'] = dict(e['at'], scheme=sch, port='def' if pn == {'http': 80, 'https': 443}[sch] else 'alt')
            e['curl'] = e.pop('url') or {'host': '?'}
            e['ahosts'] = [ahost(v) for v in e['hosts']]
            e.pop('_authv', None)
        elif e['e'] == 'recv':
            st = sc['steps'][hop] if hop < len(sc['steps']) else {'status': 200, 'loc': 'missing'}
            loc = st.get('loc', 'missing')
            e['locurl'] = loc if isinstance(loc, dict) else sc['start']
            e['locurl'] = {k: e['locurl'][k] for k in ('scheme', 'host', 'port', 'path', 'creds')}
            if isinstance(loc, dict) and st['status'] in REDIRECTS:
                cur = loc
            hop += 1
        out.append(e)
    return out


def trace_of(sc, ev):
    start = {k: sc['start'][k] for k in ('scheme', 'host', 'port', 'path', 'creds')}
    return {'start': start, 'referer': sc.get('referer', 'none'), 'login': bool(sc.get('login')),
            'jar0': list(sc.get('jar0', [])), 'maxred': sc.get('maxred', 3), 'ev': annotate(sc, ev)}


MON_CFG = 'SPECIFICATION MSpec\nCONSTRAINT Record\nPOSTCONDITION Post\nCHECK_DEADLOCK FALSE\n'


MON_KEYS = {'send': ('e', 'at', 'exp', 'target', 'method', 'hosts', 'auth', 'cookies', 'referer', 'nreferer', 'refcred', 'wf', 'proxied'),
            'recv': ('e', 'status', 'loc'), 'outcome': ('e', 'v'), 'tunnel': ('e', 'target', 'hosts', 'wf')}
STRICT_KEYS = {'send': ('e', 'curl', 'ahosts', 'auth', 'cookies', 'referer'),
               'recv': ('e', 'status', 'loc', 'locurl', 'setcookie'), 'outcome': ('e', 'v')}


def slim(t, keys, top):
    d = {k: t[k] for k in top if k in t}
    d['ev'] = [{k: e[k] for k in keys[e['e']] if k in e} for e in t['ev'] if e['e'] in keys]
    return d


def validate(traces, strict=True):
    mon_traces = [slim(t, MON_KEYS, ('maxred',)) for t in traces]
    strict_traces = [slim(t, STRICT_KEYS, ('start', 'referer', 'login', 'jar0', 'maxred')) for t in traces] if strict else []
    str_cfg = ('SPECIFICATION TSpec\n' + consts(['h1', 'h2', 'h3'], ['a'], ['http', 'https'], ['def', 'alt'], 99, 99, FIX_COPY)
               + 'CONSTRAINT Record\nPOSTCONDITION Post\nCHECK_DEADLOCK FALSE\n')
    chunks = [(i, min(i + 1500, len(traces))) for i in range(0, len(traces), 1500)]

    def job(a):
        kind, (lo, hi) = a
        if kind == 'mon':
            return tlc.validate_batch('WebSessionMon', MON_CFG, mon_traces[lo:hi])
        # the strict spec takes MaxRed from the constants: group by maxred
        part = strict_traces[lo:hi]
        verd = [None] * len(part)
        stats = {'states': 0, 'distinct': 0, 'wall_s': 0.0, 'runs': 0}
        for mr in sorted(set(t['maxred'] for t in part)):
            idx = [i for i, t in enumerate(part) if t['maxred'] == mr]
            v, st = tlc.validate_batch('WebSessionTrace', str_cfg.replace('MaxRed = 99', 'MaxRed = %d' % mr),
                                       [part[i] for i in idx])
            for i, vv in zip(idx, v):
                verd[i] = vv
            for k in stats:
                stats[k] += st[k]
        return verd, stats

    jobs = [('mon', c) for c in chunks] + ([('strict', c) for c in chunks] if strict else [])
    with ThreadPoolExecutor(max_workers=8) as ex:
        results = list(ex.map(job, jobs))
    mv, sv, stats = [], [], []
    for (kind, _), (v, st) in zip(jobs, results):
        (mv if kind == 'mon' else sv).extend(v)
        stats.append(st)
    return mv, sv, stats


def clauses_of(mask):
    return [CLAUSES[k] for k in sorted(CLAUSES) if (mask >> (k - 1)) & 1]


def bad_send(t, lines, k):
    """The send event at which clause k was first violated (lines: 4 bits per clause; a line is the 1-based
    trace position of the state after consuming event line-1)."""
    line = (lines >> (4 * (k - 1))) & 15 if k <= 7 else 0
    i = line - 2
    if 0 <= i < len(t['ev']) and t['ev'][i]['e'] == 'send':
        return i, t['ev'][i]
    return None, None


def how_made(t, i):
    """How the request of event i came about: the kind of answer that preceded it."""
    prev = [e for e in t['ev'][:i] if e['e'] == 'recv']
    if not prev:
        return 'initial'
    st = prev[-1]['status']
    return 'after-%s' % ('307/308' if st in (307, 308) else '301/302/303' if st in REDIRECTS else str(st))


def run(chk):
    import time
    quick = chk.tier == 'quick'
    rng = random.Random(chk.seed)
    tm = {}
    t0 = time.time()
    # ---------------- 1. design checks
    asis = ['TypeOK', 'AsIsOneHost', 'AsIsAuth', 'AsIsCookie', 'AsIsReferer', 'BoundOK', 'RedirectBound']
    full = ['TypeOK', 'OneHostOK', 'AuthOK', 'CookieOK', 'RefererOK', 'BoundOK', 'RedirectBound']
    dc = (['h1', 'h2'], ['a'], ['http', 'https'], ['def'], 1, 3) if quick else \
         (['h1', 'h2'], ['a'], ['http', 'https'], ['def', 'alt'], 2, 4)
    pool = ThreadPoolExecutor(max_workers=5)
    dfut = []
    for name, fix, invs in (('as-is', 'FALSE', asis), ('repaired', 'TRUE', full)):
        c = consts(*dc, fix, (200, 302, 307, 401) if quick else (200, 301, 302, 303, 307, 308, 401, 500))
        dfut.append((name, fix, invs, pool.submit(tlc.run_tlc, 'WebSession', design_cfg(c, invs), workers=2 if quick else 4,
                                                  coverage=True, timeout=2400, heap='5g')))
    # ---------------- 2. TLC-generated server strategies (spec -> code)
    gfut = []
    # exhaustive: every server strategy for visits of <= 2 requests over the small alphabet
    c = consts(['h1', 'h2'], ['a'], ['http'], ['def'], 1, 2, FIX_COPY, (200, 302, 307, 401))
    gfut.append(('exhaustive-small', 1, pool.submit(gen, c, refs=('none',))))
    if not quick:
        c = consts(['h1', 'h2'], ['a'], ['http', 'https'], ['def'], 2, 2, FIX_COPY, (200, 308))
        gfut.append(('exhaustive-schemes', 2, pool.submit(gen, c, timeout=1200)))
    # simulation, full alphabet, longer chains
    for (mr, hops, num) in ((2, 4, 1200 if quick else 8000), (3, 5, 500 if quick else 5000)):
        c = consts(['h1', 'h2', 'h3'], ['a', 'b'], ['http', 'https'], ['def', 'alt'], mr, hops, FIX_COPY)
        gfut.append(('simulate', mr, pool.submit(gen, c, start_hosts=('h1', 'h2', 'h3'), simulate=num,
                                                 seed=chk.seed + 7 + mr, depth=2 * hops + 2)))
    for name, fix, invs, f in dfut:
        chk.design('WebSession[%s,MaxRed=%d,MaxHops=%d]' % (name, dc[4], dc[5]), f.result(),
                   constants=dict(Hosts=dc[0], Paths=dc[1], Schemes=dc[2], PortsC=dc[3], MaxRed=dc[4], MaxHops=dc[5],
                                  FixCopy=fix, invariants=invs),
                   expect_actions=['Start', 'Respond'])
    tm['design'] = round(time.time() - t0, 1); t0 = time.time()
    scripts = []    # (origin, maxred, tlc script)
    for origin, mr, f in gfut:
        g, res = f.result()
        if origin != 'simulate':
            chk.states += res['distinct']
            chk.transitions += res['states']
            chk.extra['gen_' + origin.replace('-', '_')] = {'scripts': len(g), 'states': res['distinct']}
        scripts += [(origin, mr, s) for s in g]
    pool.shutdown()
    chk.extra['tlc_generated_scripts'] = len(scripts)
    if quick and len(scripts) > 3200:
        keep = [s for s in scripts if s[0] != 'exhaustive-small']
        small = [s for s in scripts if s[0] == 'exhaustive-small']
        rng.shuffle(small)
        scripts = keep + small[:3200 - len(keep)]
        chk.extra['exhaustive_small_sampled'] = True
    tm['gen'] = round(time.time() - t0, 1); t0 = time.time()
    runs = []     # (origin, script, trace)
    for origin, mr, g in scripts:
        for rel, proxy in ((False, False), (True, False), (False, True)):
            if proxy and (origin != 'simulate' or rng.random() > 0.3):
                continue
            sc = to_script(g, mr, rel, proxy)
            if sc is None:
                continue
            ev, outcome = X.run_script(sc)
            runs.append((origin + ('/rel' if rel else '') + ('/proxy' if proxy else ''), sc, trace_of(sc, ev)))
    tm['exec'] = round(time.time() - t0, 1); t0 = time.time()
    # ---------------- URL-text dimension
    text_runs = TX.run_text_cases(chk, quick)
    tm['text'] = round(time.time() - t0, 1); t0 = time.time()
    # ---------------- 3. validation
    traces = [t for (_, _, t) in runs]
    mv, sv, stats = validate(traces)
    tmv, _, tstats = validate([t for (_, _, t) in text_runs], strict=False)
    for st in stats + tstats:
        chk.trace_stats(st)
    tm['validate'] = round(time.time() - t0, 1)
    chk.extra['phase_wall_s'] = tm
    ndrift = 0
    for (origin, sc, t), m, s in list(zip(runs, mv, sv)) + [(r, m, None) for r, m in zip(text_runs, tmv)]:
        chk.case(key=json.dumps(sc, sort_keys=True))
        chk.validated(1)
        if len(chk.samples) < 4 and len(t['ev']) >= 7 and origin.startswith('simulate'):
            chk.samples.append({'origin': origin, 'script': sc, 'events': t['ev']})
        if m['matched'] < m['len']:
            raise tlc.TLCError('monitor did not consume a trace: %r' % (m,))
        if m['bad']:
            for clause in clauses_of(m['bad']):
                i, e = bad_send(t, m['badline'], [k for k in CLAUSES if CLAUSES[k] == clause][0])
                sig = {'clause': clause}
                if origin.startswith('text') and clause in ('TargetOK', 'WellFormed', 'Delivered', 'EndsOK'):
                    cls = sc.get('text_class', 'text')
                    if clause == 'TargetOK':     # only the components the request-target is made of
                        cls = '+'.join(p for p in cls.split('+') if p.split('=')[0] in ('path', 'query')) or 'plain'
                    sig['input'] = cls
                if clause in ('OneHostOK', 'AuthOK', 'CookieOK', 'RefererOK', 'TargetOK', 'Delivered', 'WellFormed'):
                    # classify by how the offending request was made (first offending request of the trace)
                    sig['request'] = how_made(t, i) if i is not None else '?'
                if clause == 'TargetOK' and e is not None and e.get('proxied'):
                    sig['proxied'] = True
                if clause == 'WellFormed' and e is not None:
                    sig['why'] = e.get('why', '')
                if clause == 'EndsOK':
                    sig['outcome'] = t['ev'][-1].get('detail', '?').split(':')[1] if ':' in t['ev'][-1].get('detail', '') else t['ev'][-1].get('v')
                chk.violation(sig, '%s violated (%s): script %s; first offending request: %s'
                              % (clause, origin, json.dumps(sc, sort_keys=True)[:700],
                                 json.dumps({k: v for k, v in (e or {}).items() if k in
                                             ('at', 'target', 'hosts', 'auth', 'cookies', 'referer', 'exp', 'why')})[:600]),
                              {'script': sc, 'origin': origin})
        elif s is not None and s['matched'] < s['len']:
            ndrift += 1
            nxt = t['ev'][s['matched']] if s['matched'] < len(t['ev']) else None
            chk.drifted('strict WebSession.tla rejects event %d %s (%s)' % (s['matched'], json.dumps(nxt)[:400], origin),
                        {'script': sc})
    chk.rule = ('server strategies enumerated by TLC from WebSession.tla (exhaustive for the small alphabet%s; '
                'simulated for 3 hosts x 2 schemes x 2 ports x 8 status codes, chains <= 5 requests), each played '
                'with absolute and relative Location renderings and through a plain-HTTP proxy; URL-text classes '
                'enumerated by TLC as start URL and as 302/307 Location; distinct = distinct executor scripts'
                % ('' if quick else ' and for schemes x ports'))
    chk.exhaustive = False
    chk.constants = {'design': dict(zip(('Hosts', 'Paths', 'Schemes', 'PortsC', 'MaxRed', 'MaxHops'), dc)), 'FixCopy': FIX_COPY}
    chk.extra['runs_by_origin'] = _count(o for (o, _, _) in runs + text_runs)
    chk.extra['strict_rejections'] = ndrift
    chk.extra['interpretation'] = ('login credentials given for the whole crawl (--http-user) may go to any host; only '
                                   'credentials from a URL\'s user-info are bound to that URL\'s host; control characters '
                                   'other than CR/LF (and space in the request line) are not counted as smuggling')


def _count(it):
    d = {}
    for k in it:
        d[k] = d.get(k, 0) + 1
    return d


def replay(chk, path):
    rp = json.load(open(path))['replay']
    sc = rp['script']
    if 'text' in sc:
        t = TX.run_one(sc)
    else:
        ev, outcome = X.run_script(sc)
        t = trace_of(sc, ev)
    for e in t['ev']:
        print(json.dumps(e))
    mv, sv, _ = validate([t], strict='text' not in sc)
    print('monitor verdict', mv[0], clauses_of(mv[0]['bad']))
    if sv:
        print('strict verdict', sv[0])
    return 1 if mv[0]['bad'] else 0


def selftest(chk):
    """Binding self-test: corrupting one logged field makes the strict trace spec reject."""
    U = lambda h, **k: dict(dict(scheme='http', host=h, port='def', path='a', creds=False), **k)
    sc = {'start': U('h1'), 'login': True, 'referer': 'http', 'jar0': ['h1'], 'maxred': 2, 'proxy': False,
          'steps': [{'status': 401, 'loc': 'missing', 'setcookie': False},
                    {'status': 302, 'loc': U('h2', path='b'), 'setcookie': True},
                    {'status': 200, 'loc': 'missing', 'setcookie': False}]}
    ev, _ = X.run_script(sc)
    good = trace_of(sc, ev)
    cp = lambda: json.loads(json.dumps(good))
    b1 = cp(); b1['ev'][2]['auth'] = []                   # the retry did carry the login
    b2 = cp(); b2['ev'][4]['ahosts'] = [['h1', 'def']]    # the redirected request named h2
    b3 = cp(); b3['ev'][0]['cookies'] = []                # the first request carried h1's cookie
    b4 = cp(); b4['ev'][4]['hosts'] = ['h1.test']         # monitor only: wrong Host on the wire
    mv, sv, _ = validate([good, b1, b2, b3, b4])
    acc = [s['matched'] >= s['len'] for s in sv]
    print('strict accepted:', acc, 'monitor masks:', [clauses_of(m['bad']) for m in mv])
    ok = acc == [True, False, False, False, True] and [m['bad'] for m in mv] == [0, 0, 0, 0, 4]
    print('SELFTEST', 'ok' if ok else 'FAILED')
    return 0 if ok else 2
