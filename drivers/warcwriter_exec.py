"""Execute the REAL wpull WARCRecorder on a scenario, under a counting / faulting file-system layer.

Scenario (JSON-able; produced by TLC from specs/WarcWriterGen.tla or by the fixed core list of the driver):
  {'params': {'compress','cdx','maxsize' (None|int),'log','digests','move','extra'},
   'runs': [{'appending': bool, 'ex': [{'k': 'http'|'rev'|'ftp', 'shape': str, 'body': str, 'mode': 'script'|'net'}]}]}

The names `open`, `gzip`, `os`, `shutil`, `wpull` (for wpull.util.truncate_file) in the namespace of
wpull.warc.recorder are replaced by proxies for the duration of a run (restored afterwards).  Every operation on
a journal / archive / CDX path is an *operation point*:
  * the on-disk state at that point (= what a process killed here leaves behind) is projected by the
    independent reader and logged (delta encoded),
  * fault_at = n  -> the n-th operation raises OSError(EIO) (close: the real close is done, then it raises),
  * crash_at = n  -> os._exit(77) at the n-th operation (used in a forked child).
"""
import errno
import gzip as _gzip
import hashlib
import io
import logging
import os
import shutil as _shutil
import tempfile

import wpull.util
import wpull.warc.recorder as R
from wpull.protocol.http.request import Request as HTTPRequest, Response as HTTPResponse
from wpull.protocol.ftp.request import Request as FTPRequest, Response as FTPResponse

from drivers import warcwriter_reader as rd

_builtin_open = open
from urllib.parse import unquote as _unquote
FAULTABLE = ('j.open', 'j.write', 'j.close', 'a.open', 'a.write', 'a.close', 'j.remove', 'c.open', 'c.write', 'c.close')


def role_of(path):
    b = os.path.basename(str(path))
    if b.endswith('-wpullinc'):
        return 'j'
    if b.endswith('.cdx'):
        return 'c'
    if b.endswith('.warc') or b.endswith('.warc.gz'):
        return 'a'
    return None


META_ID = 11
# the --warc-file prefix: any legal file name.  (The model identifies files by number; the name class is a parameter
# of the scenario only.)  'class': characters that glob takes for a character class; 'blank': the CDX delimiter
#             'slash': the prefix names a directory (archive ".warc.gz" inside it: a dot file); 'bytes': not UTF-8
#             'newline': a line break in the name (the CDX line delimiter)
PREFIX = {'plain': 'a', 'class': 'a[1]', 'blank': 'a b', 'star': 'a*', 'slash': 'sub/', 'bytes': 'a\udce9',
          'newline': 'a\nb'}


def file_id(name):
    """Model file id of an archive name: a.warc[.gz] -> 0, a-0000N -> N + 1, a-meta -> 11."""
    b = os.path.basename(str(name))
    for pf in ('a[1]', 'a b', 'a*', 'a\udce9', 'a\nb'):
        if b.startswith(pf):
            b = 'a' + b[len(pf):]
    if b.startswith(('.warc', '-0', '-meta')) and os.path.basename(os.path.dirname(str(name))) == 'sub':
        b = 'a' + b          # prefix "sub/": the files are sub/.warc.gz, sub/-00000.warc.gz, ...
    if b.endswith('-wpullinc'):
        b = b[:-len('-wpullinc')]
    stem = b.split('.warc')[0]
    if stem == 'a':
        return 0
    if stem == 'a-meta':
        return META_ID
    if stem.startswith('a-') and stem[2:].isdigit():
        n = int(stem[2:])
        if n + 1 >= META_ID:
            raise RuntimeError('scenario uses too many numbered files: ' + b)
        return n + 1
    raise RuntimeError('unexpected archive name ' + b)


def op_class(name):
    if name in ('j.open', 'j.write', 'j.close'):
        return 'journal'
    if name in ('a.open', 'a.write', 'a.close'):
        return 'archive'
    if name == 'j.remove':
        return 'unlink'
    if name in ('c.open', 'c.write', 'c.close'):
        return 'cdx'
    return 'other'


class Injected(OSError):
    pass


def _boom(what):
    return Injected(errno.EIO, 'injected I/O error at ' + what)


# ------------------------------------------------------------------------------------------- fs layer
class FObj(object):
    def __init__(self, fs, real, role, path):
        self._fs, self._real, self._role, self._path = fs, real, role, path
        self._closed = False

    def write(self, data):
        if self._fs.op(self._role + '.write', self._path):
            raise _boom('write')
        return self._real.write(data)

    def truncate(self, size=None):
        self._fs.op(self._role + '.truncate', self._path)
        return self._real.truncate(size)

    def close(self):
        if self._closed:
            return
        self._closed = True
        inj = self._fs.op(self._role + '.close', self._path)
        self._real.close()
        if inj:
            raise _boom('close')

    def __enter__(self):
        return self

    def __exit__(self, *a):
        self.close()

    def __getattr__(self, n):
        return getattr(self._real, n)


class FS(object):
    """Counting / faulting layer installed into the namespace of wpull.warc.recorder."""
    def __init__(self, on_op, fault_at=None, crash_at=None):
        self.on_op = on_op
        self.fault_at = fault_at
        self.crash_at = crash_at
        self.n = 0
        self.injected = None
        self._saved = None

    def op(self, name, path):
        idx = self.n
        self.n += 1
        inj = (self.fault_at == idx) and name in FAULTABLE
        if inj:
            self.injected = name
        self.on_op(idx, name, path, inj)
        if self.crash_at == idx:
            os._exit(77)
        return inj

    # -- replacements
    def open(self, path, mode='r', *a, **kw):
        role = role_of(path) if isinstance(path, (str, bytes, os.PathLike)) else None
        if role is None:
            return _builtin_open(path, mode, *a, **kw)
        if self.op('%s.open' % role, path):
            raise _boom('open')
        return FObj(self, _builtin_open(path, mode, *a, **kw), role, path)

    def gzip_file(self, filename=None, mode=None, *a, **kw):
        role = role_of(filename) if filename is not None else None
        if role is None or not mode or 'r' in mode:
            return _gzip.GzipFile(filename, mode, *a, **kw)
        if self.op('%s.open' % role, filename):
            raise _boom('open')
        return FObj(self, _gzip.GzipFile(filename, mode, *a, **kw), role, filename)

    def install(self):
        fs = self

        class PathProxy(object):
            def getsize(self, p):
                if role_of(p):
                    fs.op(role_of(p) + '.getsize', p)
                return os.path.getsize(p)

            def exists(self, p):
                if role_of(p):
                    fs.op(role_of(p) + '.exists', p)
                return os.path.exists(p)

            def __getattr__(self, n):
                return getattr(os.path, n)

        class OsProxy(object):
            path = PathProxy()

            def remove(self, p):
                role = role_of(p)
                if role and fs.op(role + '.remove', p):
                    raise _boom('remove')
                return os.remove(p)

            def __getattr__(self, n):
                return getattr(os, n)

        class GzipProxy(object):
            GzipFile = staticmethod(fs.gzip_file)

            def __getattr__(self, n):
                return getattr(_gzip, n)

        class ShutilProxy(object):
            def move(self, src, dst, *a, **kw):
                role = role_of(src)
                if role:
                    fs.op(role + '.move', src)
                return _shutil.move(src, dst, *a, **kw)

            def __getattr__(self, n):
                return getattr(_shutil, n)

        class UtilProxy(object):
            def truncate_file(self, p):
                role = role_of(p)
                if role:
                    fs.op(role + '.trunc', p)
                return wpull.util.truncate_file(p)

            def __getattr__(self, n):
                return getattr(wpull.util, n)

        class WpullProxy(object):
            util = UtilProxy()

            def __getattr__(self, n):
                import wpull
                return getattr(wpull, n)

        names = ('open', 'gzip', 'os', 'shutil', 'wpull')
        self._saved = {n: R.__dict__.get(n, self) for n in names}
        R.open = self.open
        R.gzip = GzipProxy()
        R.os = OsProxy()
        R.shutil = ShutilProxy()
        R.wpull = WpullProxy()

    def restore(self):
        for n, v in (self._saved or {}).items():
            if v is self:
                R.__dict__.pop(n, None)
            else:
                R.__dict__[n] = v
        self._saved = None


# ------------------------------------------------------------------------------------------- wire data
def _pseudo(n, seed):
    out = bytearray()
    h = hashlib.sha256(b'%d' % seed).digest()
    while len(out) < n:
        h = hashlib.sha256(h).digest()
        out += h
    return bytes(out[:n])


def body_bytes(kind, idx):
    if kind == 'empty':
        return b''
    if kind == 'bin':
        return b'\x00\xff\r\n\r\nbin %d\n\n\x00\x01\x02' % idx + bytes(range(256))
    if kind == 'big':
        return _pseudo(70000, idx)
    if kind == 'mid':
        return _pseudo(9000, idx)
    return b'<html>hello body %d</html>\n' % idx


SHAPES = ('canon', 'nospace', 'lf', 'folded', 'empty', 'long', 'wide', 'noreason', 'foldedblank', 'nocolon', 'hibyte', 'huge', 'tabfold',
          'ctnosemi', 'ctspace', 'ctodd', 'line4098', 'line4097', 'line8194', 'precrlf', 'interim', 'interim103',
          'nelct', 'nelcl', 'ffct')


# shapes that only make sense through the real client (it may refuse or reinterpret them)
NET_ONLY = ('huge', 'precrlf', 'interim', 'interim103', 'nelcl')


def response_wire(shape, body, idx):
    """-> (header block bytes including the empty line, body bytes, status, media type or '-')."""
    n = len(body)
    if shape == 'canon':
        h = b'HTTP/1.1 200 OK\r\nContent-Type: text/html; charset=utf-8\r\nContent-Length: %d\r\nX-A: b\r\n\r\n' % n
        return h, body, 200, 'text/html'
    if shape == 'nospace':
        h = b'HTTP/1.1 200 OK\r\nContent-Type:text/html\r\nContent-Length:%d\r\n\r\n' % n
        return h, body, 200, 'text/html'
    if shape == 'lf':
        h = b'HTTP/1.1 200 OK\nContent-Type: text/plain\nContent-Length: %d\n\n' % n
        return h, body, 200, 'text/plain'
    if shape == 'folded':
        h = (b'HTTP/1.1 200 OK\r\nX-Long: part one\r\n   part two\r\nContent-Type: image/png\r\n'
             b'Content-Length: %d\r\n\r\n' % n)
        return h, body, 200, 'image/png'
    if shape == 'foldedblank':
        # a folded field whose continuation line holds only white space: NOT the end of the header block
        h = (b'HTTP/1.1 200 OK\r\nX-Long: part one\r\n   \r\nContent-Type: text/xml\r\n'
             b'Content-Length: %d\r\n\r\n' % n)
        return h, body, 200, 'text/xml'
    if shape == 'tabfold':
        # obs-fold with a TAB (no space-folded line anywhere): the media type is on the continuation line
        h = (b'HTTP/1.1 200 OK\r\nX-Other: a\r\n\tb\r\nContent-Type:\r\n\ttext/css\r\n'
             b'Content-Length: %d\r\n\r\n' % n)
        return h, body, 200, 'text/css'
    if shape == 'nocolon':
        # a stray line without a colon: the HTTP client parses headers leniently and accepts it
        h = (b'HTTP/1.1 200 OK\r\nstray line without colon\r\nContent-Type: text/csv\r\n'
             b'Content-Length: %d\r\n\r\n' % n)
        return h, body, 200, 'text/csv'
    if shape == 'hibyte':
        # bytes that str.splitlines() treats as line breaks (0x85, 0x0b, 0x0c) inside a field value
        h = (b'HTTP/1.1 200 OK\r\nX-Note: caf\x85 \x0b \x0c end\r\nContent-Type: audio/ogg\r\n'
             b'Content-Length: %d\r\n\r\n' % n)
        return h, body, 200, 'audio/ogg'
    if shape == 'huge':
        # more than the CDX writer looks at; whether the client accepts a header this long is its business
        pad = b''.join(b'X-Pad-%04d: %s\r\n' % (i, b'q' * 80) for i in range(760))
        h = b'HTTP/1.1 200 OK\r\n' + pad + b'Content-Type: video/mp4\r\nContent-Length: %d\r\n\r\n' % n
        return h, body, 200, 'video/mp4'
    if shape == 'ctnosemi':
        # the parameter follows the media type without a semicolon: the media type is still one token without blanks
        h = b'HTTP/1.1 200 OK\r\nContent-Type: text/html charset=utf-8\r\nContent-Length: %d\r\n\r\n' % n
        return h, body, 200, 'text/html'
    if shape == 'ctspace':
        # white space between the field name and the colon (a recipient removes it, RFC 7230 3.2.4)
        h = b'HTTP/1.1 200 OK\r\nContent-Type : text/css\r\nContent-Length\t: %d\r\n\r\n' % n
        return h, body, 200, 'text/css'
    if shape == 'ctodd':
        # media types with '+' and '.', a quoted parameter with blanks, folded
        h = (b'HTTP/1.1 200 OK\r\nContent-Type: application/vnd.x.y+xml;\r\n  title="a b c" ; q=1\r\n'
             b'Content-Length: %d\r\n\r\n' % n)
        return h, body, 200, 'application/vnd.x.y+xml'
    if shape in ('line4098', 'line4097', 'line8194'):
        # one header line whose length (line end included) is a multiple of 4096 plus 2 / plus 1: a reader that takes
        # lines in 4096-byte pieces sees a last piece that is just the line end
        total = int(shape[4:])
        name = b'X-Long: '
        line = name + b'a' * (total - len(name) - 2) + b'\r\n'
        assert len(line) == total
        h = b'HTTP/1.1 200 OK\r\n' + line + b'Content-Type: text/x-long\r\nContent-Length: %d\r\n\r\n' % n
        return h, body, 200, 'text/x-long'
    if shape == 'precrlf':
        # a stray empty line in front of the status line (left over from a sloppy server's previous answer): whether the
        # client accepts such an answer is its business (like 'huge'); if it does, the archive still has to be right
        h = b'\r\nHTTP/1.1 200 OK\r\nContent-Type: image/svg+xml\r\nContent-Length: %d\r\n\r\n' % n
        return h, body, 200, 'image/svg+xml'
    if shape in ('interim', 'interim103'):
        # an interim response (RFC 7231 6.2) in front of the final one: the archived response is the final one - its
        # status and media type go into the index, its body is the payload
        pre = (b'HTTP/1.1 100 Continue\r\n\r\n' if shape == 'interim' else
               b'HTTP/1.1 103 Early Hints\r\nLink: </s.css>; rel=preload\r\nContent-Type: text/x-hint\r\n\r\n')
        h = pre + b'HTTP/1.1 200 OK\r\nContent-Type: text/html\r\nContent-Length: %d\r\n\r\n' % n
        return h, body, 200, 'text/html'
    if shape in ('nelct', 'ffct'):
        # ONE field line (lines end at LF) whose value holds octet 0x85 / 0x0c followed by text that looks like a field
        sep = b'\xc3\x85' if shape == 'nelct' else b'\x0c'
        h = (b'HTTP/1.1 200 OK\r\nX-Author: ' + sep + b'Content-Type: image/png\r\nContent-Type: text/html\r\n'
             b'Content-Length: %d\r\n\r\n' % n)
        return h, body, 200, 'text/html'
    if shape == 'nelcl':
        h = (b'HTTP/1.1 200 OK\r\nX-Author: \xc3\x85Content-Length: 1\r\nContent-Type: text/rtf\r\n'
             b'Content-Length: %d\r\n\r\n' % n)
        return h, body, 200, 'text/rtf'
    if shape == 'empty':
        return b'HTTP/1.1 200 OK\r\n\r\n', body, 200, '-'
    if shape == 'long':
        pad = b''.join(b'X-Pad-%03d: %s\r\n' % (i, b'p' * 60) for i in range(72))
        h = b'HTTP/1.1 404 Not Found\r\n' + pad + b'Content-Type: application/json\r\nContent-Length: %d\r\n\r\n' % n
        return h, body, 404, 'application/json'
    if shape == 'wide':
        h = b'HTTP/1.1 200 OK\r\ncontent-type:   text/css  \r\nContent-Length: %d\r\n\r\n' % n
        return h, body, 200, 'text/css'
    if shape == 'noreason':
        h = b'HTTP/1.1 301\r\nContent-Type: text/html\r\nContent-Length: %d\r\nLocation: /z\r\n\r\n' % n
        return h, body, 301, 'text/html'
    raise ValueError(shape)


class RevisitTable(object):
    """Stand-in for URLTable.get_revisit_id: every URL listed is a revisit of a fixed earlier record."""
    def __init__(self):
        self.urls = set()

    def get_revisit_id(self, url, payload_digest):
        if url in self.urls and payload_digest:
            return '<urn:uuid:00000000-0000-4000-8000-000000000001>'
        return None


# ------------------------------------------------------------------------------------------- run
class Exec(object):
    """One scenario execution (possibly several recorder processes one after the other) in one directory."""
    def __init__(self, scn, base=None, fault_at=None, crash_at=None, keep_raw_at=(), quiet_ops=False,
                 log_from_append=None):
        self.scn = scn
        self.base = base or tempfile.mkdtemp(prefix='ww_')
        self.own_base = base is None
        self.wdir = os.path.join(self.base, 'w')
        self.tdir = os.path.join(self.base, 'tmp')
        self.mdir = os.path.join(self.base, 'moved')
        for d in (self.wdir, self.tdir, self.mdir):
            os.makedirs(d, exist_ok=True)
        self.prefix = os.path.join(self.wdir, PREFIX[self.scn.get('params', {}).get('pfx', 'plain')])
        if self.prefix.endswith('/'):
            os.makedirs(self.prefix, exist_ok=True)
        self.fault_at = fault_at
        self.crash_at = crash_at
        self.keep_raw_at = set(keep_raw_at)
        self.raw_at = {}
        self.quiet_ops = quiet_ops
        self.log_from_append = log_from_append
        self.muted = log_from_append is not None   # nothing is recorded before that write_record call
        self.ev = []
        self.ops = []            # (idx, name, append index or -1)
        self.last = {}           # file index -> (bytes, journal bytes)
        self.maxseen = {}
        self.cids = {}
        self.rids = {}
        self.strs = {}
        self.append_no = -1
        self.in_append = False
        self.wire = {}           # url -> dict(hl, body_digest, status, mime, shape, kind)
        self.fs = None
        self.injected = None
        self.outcomes = []
        self.notes = []

    # ---- interning
    def _intern(self, table, s):
        if not s:
            return 0
        if s not in table:
            table[s] = len(table) + 1
        return table[s]

    # ---- directory scan + lite projection
    def scan(self):
        """-> {name: (bytes, journal bytes or None)} for archives (keyed by base name; a file that was moved to the
        move_to directory keeps its identity, its journal - which never moves - stays attached), plus the CDX file."""
        out = {}
        journals = {}
        self.where = {}        # name -> the directory ('moved/', '', 'sub/') it was found in
        for tag, d in (('moved/', self.mdir), ('', self.wdir), ('sub/', os.path.join(self.wdir, 'sub'))):
            try:
                names = sorted(os.listdir(d))
            except FileNotFoundError:
                continue
            for nm in names:
                p = os.path.join(d, nm)
                if os.path.isdir(p):
                    continue
                if tag == 'sub/':
                    nm = 'sub/' + nm       # (prefix "sub/": the archive is the dot file sub/.warc[.gz])
                role = role_of(nm)
                if role in ('a', 'c'):
                    self.where[nm] = tag
                    with _builtin_open(p, 'rb') as fh:
                        out[nm] = (fh.read(), None)
                elif role == 'j':
                    with _builtin_open(p, 'rb') as fh:
                        journals[nm[:-len('-wpullinc')]] = fh.read()
        for nm, jb in journals.items():
            out[nm] = (out.get(nm, (b'', None))[0], jb)
        return out

    def lite(self, name, data):
        ms = rd.split_members(data, name.endswith('.gz'))
        out = []
        for m in ms:
            ty, rid, http = '', '', False
            if m['st'] == 'complete' and m['nrec'] == 1:
                f = rd.parse_record(m['raw'])
                ty, rid = f['type'], f['rid']
                http = bool(f.get('http')) and ty == 'response'
            raw_slice = data[m['off']:m['off'] + m['len']]
            out.append({'s': m['st'], 'l': m['len'], 'c': self._intern(self.cids, hashlib.sha1(raw_slice).digest()),
                        't': ty or 'none', 'r': self._intern(self.rids, rid), 'h': http})
        return out

    def cdx_rids(self):
        """The record ids named by the complete lines of the CDX index as it is on disk now (what a process killed
        here leaves behind), in file order; None if there is no index file."""
        for name, (data, _jb) in sorted(self.scan().items()):
            if role_of(name) != 'c':
                continue
            if not data.endswith(b'\n'):
                data = data[:data.rfind(b'\n') + 1]         # (an unfinished last line is no line)
            _hdr, lines = rd.read_cdx(data)
            return [self._intern(self.rids, ln.get('rid', '')) if ln.get('wellformed') else 0 for ln in lines]
        return None

    def delta(self):
        """Changed files since the last snapshot, in the encoding of the trace events."""
        cur = self.scan()
        ch = []
        seen = set()
        for name in sorted(cur):
            if role_of(name) != 'a':
                continue
            fi = file_id(name)
            seen.add(fi)
            if self.last.get(fi) == cur[name]:
                continue
            self.last[fi] = cur[name]
            data, jb = cur[name]
            jst, jn = rd.read_journal(jb)
            self.maxseen[fi] = max(self.maxseen.get(fi, 0), len(data))
            ch.append({'f': fi, 'x': True, 'j': jst, 'jn': jn, 'sz': len(data), 'm': self.lite(name, data)})
        for fi in list(self.last):
            if fi not in seen and self.last[fi] is not None:
                self.last[fi] = None
                ch.append({'f': fi, 'x': False, 'j': 'absent', 'jn': 0, 'sz': 0, 'm': []})
        return ch, cur

    # ---- hooks
    def on_op(self, idx, name, path, inj):
        self.ops.append((idx, name, self.append_no if self.in_append else -1))
        if self.quiet_ops or self.muted:
            return
        ch, cur = self.delta()
        if idx in self.keep_raw_at:
            self.raw_at[idx] = cur
        cf = file_id(path) if role_of(path) in ('a', 'j') else 0
        self.ev.append({'e': 'op', 'op': name, 'cls': op_class(name), 'fi': cf, 'inj': bool(inj), 'k': idx, 'ch': ch})

    def _rel(self, path):
        p = str(path)
        if p.endswith('-wpullinc'):
            p = p[:-len('-wpullinc')]
        b = os.path.basename(p)
        return ('moved/' if os.path.dirname(p) == self.mdir else '') + b

    def mark(self, e, **kw):
        if self.quiet_ops or self.muted:
            return
        ch, _ = self.delta()
        d = {'e': e, 'ch': ch}
        d.update(kw)
        self.ev.append(d)

    # ---- the recorder under test
    def make_recorder(self, run):
        p = self.scn['params']
        ex = self
        extra = None
        if p.get('extra'):
            extra = [('robots', 'off'), ('wpull-argv', '["--warc-file", "a"]'), ('operator', 'Jürgen'),
                     ('long', ' '.join(['word%d' % i for i in range(2400)]))]   # > 8 KiB: larger than one buffered write
        self.revisits = RevisitTable()
        params = R.WARCRecorderParams(
            compress=bool(p['compress']), extra_fields=extra, temp_dir=self.tdir, log=bool(p['log']),
            appending=bool(run['appending']), digests=bool(p['digests']), cdx=bool(p['cdx']) or None,
            max_size=p.get('maxsize'), move_to=self.mdir if p.get('move') else None,
            url_table=self.revisits if any(e['k'] == 'rev' for e in run['ex']) else None,
            software_string=None)

        class Traced(R.WARCRecorder):
            def write_record(self, record):
                ex.append_no += 1
                ex.in_append = True
                if ex.muted and ex.append_no == ex.log_from_append:
                    ex.muted = False
                fi = file_id(self._warc_filename)
                cr = ex.cdx_rids() if not (ex.quiet_ops or ex.muted) else None
                ex.mark('abegin', ty=str(record.fields.get('WARC-Type', '')), fi=fi, a=ex.append_no, len=0,
                        cx=bool(getattr(self, '_cdx_filename', None)),    # is the CDX index set up already?
                        cq=cr is not None, cr=cr or [])     # the index on disk: record ids of its complete lines
                ab = len(ex.ev) - 1
                size0 = len((ex.last.get(fi) or (b'', None))[0])
                ex.maxseen[fi] = size0
                try:
                    R.WARCRecorder.write_record(self, record)
                except BaseException as err:
                    ex.in_append = False
                    inj = ex.fs.injected
                    ex.mark('aend', ok=False, cls=op_class(inj) if inj else 'none', fi=fi,
                            err=type(err).__name__)
                    if not ex.quiet_ops and ab >= 0 and ex.ev[ab]['e'] == 'abegin':
                        ex.ev[ab]['len'] = max(ex.maxseen.get(fi, size0) - size0, 0)
                    raise
                ex.in_append = False
                ex.mark('aend', ok=True, cls='none', fi=fi, err='')
                if not ex.quiet_ops and ab >= 0 and ex.ev[ab]['e'] == 'abegin':
                    ex.ev[ab]['len'] = len((ex.last.get(fi) or (b'', None))[0]) - size0

        return Traced(self.prefix, params=params)

    # ---- exchanges
    def do_exchange(self, rec, e, idx):
        k = e['k']
        if k == 'ftp':
            return self.do_ftp(rec, e, idx)
        url = 'http://h.test/p%d' % idx
        if e.get('longurl'):
            url += '/' + 'segment-%d/' % idx * 90 + 'x' * 300      # > 1024 characters: header fields stay one line each
        body = body_bytes(e.get('body', 'text'), idx)
        head, body, status, mime = response_wire(e['shape'], body, idx)
        self.wire[url] = {'hl': len(head), 'bd': rd.b32sha1(body), 'status': status, 'mime': mime,
                          'shape': e['shape'], 'k': k, 'body': e.get('body', 'text'), 'hdrclass':
                          ('empty' if e['shape'] == 'empty' else ('over4k' if len(head) > 4096 else 'short'))}
        if k == 'rev':
            self.revisits.urls.add(url)
        if k == 'cut':
            # the server announces the whole body, sends half of it and closes: the client gives up, no response record
            body = body_bytes('mid', idx)
            head, body, status, mime = response_wire('canon', body, idx)
            self.wire.pop(url, None)
            try:
                self.do_net(rec, url, head, body[:len(body) // 2], dict(e, shape='empty'))
            except OSError as err:
                if isinstance(err, Injected) or self.fs.injected is not None:
                    raise
                return
            raise RuntimeError('the truncated response was accepted by the HTTP client')
        if e['shape'] in NET_ONLY:
            # only through the real client; a client that refuses the header leaves no response record (fine)
            try:
                return self.do_net(rec, url, head, body, e)
            except ValueError as err:          # ProtocolError: header too big
                if self.fs.injected is not None:
                    raise
                self.wire.pop(url, None)
                return
        if e.get('mode') == 'net':
            return self.do_net(rec, url, head, body, e)
        gen = self._scripted_http(rec, url, head, body)
        next(gen)                       # request record written
        if e.get('ovl'):
            return gen                  # the caller finishes this session after the NEXT exchange (overlapping workers)
        for _ in gen:
            pass

    def _scripted_http(self, rec, url, head, body):
        s = rec.new_http_recorder_session()
        abandoned = False
        try:
            req = HTTPRequest(url)
            req.address = ('10.0.0.1', 80)
            req.prepare_for_send()
            s.begin_request(req)
            s.request_data(req.to_bytes())
            s.end_request(req)
            yield 'request-written'
            resp = HTTPResponse()
            # exactly what Stream.read_response does: the lines before the empty line are parsed
            lines = head.splitlines(True)[:-1]
            resp.parse(b''.join(lines))
            resp.request = req
            s.begin_response(resp)
            wire = head + body
            # the client hands the header over line by line and the body in read-size pieces
            for ln in head.splitlines(True):
                s.response_data(ln)
            for i in range(0, len(body), 4096):
                s.response_data(body[i:i + 4096])
            s.end_response(resp)
        except GeneratorExit:
            abandoned = True       # the execution was given up half way (the generator is being disposed of): the
            raise                  # session of a process that is no more is not closed
        finally:
            if not abandoned:
                s.close()

    def do_ftp(self, rec, e, idx):
        url = 'ftp://f.test/file%d' % idx
        body = body_bytes(e.get('body', 'text'), idx)
        s = rec.new_ftp_recorder_session()
        try:
            req = FTPRequest(url)
            req.address = ('10.0.0.2', 21)
            s.begin_control(req, connection_reused=False)
            s.control_receive_data(b'220 hello\r\n')
            s.control_send_data(b'USER anonymous\r\n')
            s.control_receive_data(b'230-multi\r\n230 ok\r\n')
            s.control_send_data(b'RETR /file%d\r\n' % idx)
            resp = FTPResponse()
            resp.data_address = ('10.0.0.2', 2020)
            s.begin_transfer(resp)
            for i in range(0, len(body), 4096):
                s.transfer_receive_data(body[i:i + 4096])
            s.end_transfer(resp)
            s.control_receive_data(b'226 done\r\n')
            s.end_control(resp, connection_closed=False)
        finally:
            s.close()

    def do_net(self, rec, url, head, body, e):
        """The real HTTP client over the in-memory network, recorder attached through listen_to_http_client."""
        from harness import vloop, fakenet
        from wpull.network.pool import ConnectionPool
        from wpull.protocol.http.client import Client
        net = fakenet.FakeNet()
        net.add_host('h.test', '10.0.0.1')
        by_close = e['shape'] == 'empty'
        cuts = e.get('cuts')

        class Srv(fakenet.BaseServer):
            def on_data(self, ep, data):
                if bytes(ep.received).endswith(b'\r\n\r\n') and not ep.data.get('sent'):
                    ep.data['sent'] = True
                    ep.send(head + body, cuts)
                    if by_close:
                        ep.close()

        net.listen('10.0.0.1', 80, Srv())
        pool = ConnectionPool(resolver=net.resolver(), connection_factory=net.connection_factory,
                              ssl_connection_factory=net.connection_factory)
        client = Client(connection_pool=pool)
        rec.listen_to_http_client(client)
        import asyncio

        @asyncio.coroutine
        def go():
            with client.session() as session:
                response = yield from session.start(HTTPRequest(url))
                yield from session.download(io.BytesIO())
            return response.status_code

        kind, val = vloop.run(go, lambda: False)
        try:
            pool.close()
        except Exception:
            pass
        if kind == 'exc':
            raise val
        if kind == 'hang':
            raise RuntimeError('http client hung on the in-memory network')

    # ---- one recorder process
    def run_process(self, run, first_idx):
        root = logging.getLogger()
        handlers0, level0 = list(root.handlers), root.level
        pre = self.scan()
        jpre = any(jb is not None for (_, jb) in pre.values())
        self.mark('boot', jpre=jpre)
        how = 'closed'
        rec = None
        try:
            try:
                rec = self.make_recorder(run)
            except OSError as err:
                # the constructor gave up with an error of its own while a journal was lying around
                refused = jpre and not isinstance(err, Injected)
                self.mark('start', refused=refused, jpre=jpre, ok=False)
                return 'refused' if refused else 'aborted'
            self.mark('start', refused=False, jpre=jpre, ok=True)
            if self.scn['params'].get('log'):
                logging.getLogger('wpull.verif').info('recorder started (entry for the log record) \u00e4')
            idx = first_idx
            held = None
            for e in run['ex']:
                idx += 1
                try:
                    pending = self.do_exchange(rec, e, idx)
                    if pending is None:
                        self.mark('send', ok=True)          # this exchange's session has ended
                    if held is not None:
                        for _ in held:      # the overlapped session receives its response only now
                            pass
                        held = None
                        self.mark('send', ok=True)          # ... and the overlapped one ends after it
                    if pending is not None:
                        held = pending      # request record written; the session stays open
                except Injected:
                    self.mark('send', ok=False)
                except OSError as err:
                    if self.fs.injected is None:
                        raise
                    self.mark('send', ok=False)
            try:
                if held is not None:
                    for _ in held:
                        pass
                    self.mark('send', ok=True)
                rec.close()
            except OSError:
                if self.fs.injected is None:
                    raise
                how = 'aborted'
            return how
        except Exception as err:       # the recorder raised without any injected fault: an observation, not a crash
            if self.fs.injected is not None and isinstance(err, OSError):
                return 'aborted'
            self.notes.append('recorder raised %s: %s' % (type(err).__name__, str(err)[:200]))
            return 'raised'

        finally:
            for h in list(root.handlers):
                if h not in handlers0:
                    root.removeHandler(h)
                    try:
                        h.stream.close()
                    except Exception:
                        pass
            root.setLevel(level0)

    def execute(self, full=True):
        """Run all processes of the scenario.  Returns self (events in .ev)."""
        self.fs = FS(self.on_op, self.fault_at, self.crash_at)
        self.fs.install()
        try:
            idx = 0
            for rn, run in enumerate(self.scn['runs']):
                how = self.run_process(run, idx)
                idx += len(run['ex'])
                self.outcomes.append(how)
                self.injected = self.fs.injected
                if not self.quiet_ops and not self.muted:
                    ch, _ = self.delta()
                    clean = self.fs.injected is None
                    self.ev.append({'e': 'end', 'how': how, 'run': rn, 'ch': ch, 'hasfull': bool(full and clean),
                                    'full': self.full_projection() if (full and clean) else
                                    {'files': [], 'cdx': [], 'cdxon': False, 'cdxhdr': True}})
                if how != 'closed':
                    break
        finally:
            self.fs.restore()
        return self

    # ---- full projection (facts for the C05 / C07 clauses)
    def full_projection(self):
        cur = self.scan()
        files = []
        cdx = []
        cdxon = False
        cdxhdr = True
        names = {}
        # a line names its file by base name: the file NEXT TO the index (with --warc-move both end up in that directory)
        cdx_dirs = set(self.where.get(n) for n in cur if role_of(n) == 'c')
        for name in cur:
            if role_of(name) == 'a' and (self.where.get(name) in cdx_dirs or self.where.get(name) == 'sub/' or not cdx_dirs):
                names[os.path.basename(name)] = file_id(name)
        for name in sorted(cur):
            data, jb = cur[name]
            if role_of(name) == 'c':
                cdxon = True
                hok, lines = rd.read_cdx(data)
                cdxhdr = bool(hok)
                for ln in lines:
                    if not ln['wellformed']:
                        cdx.append({'wf': False, 'u': 0, 'r': 0, 'o': 0, 'l': 0, 'g': 99, 'st': 0, 'mi': 0, 'dg': 0})
                        continue
                    cdx.append({'wf': True, 'u': self._intern(self.strs, ln['url']),
                                'r': self._intern(self.rids, ln['rid']),
                                'o': ln['off'], 'l': ln['len'],
                                # the name as it is, or with the delimiter percent-encoded
                                'g': names.get(ln['file'], names.get(_unquote(ln['file']), 99)),
                                'st': max(ln['status'], 0), 'mi': self._intern(self.strs, ln['mime'].lower()),
                                'dg': self._intern(self.strs, ln['digest'])})
                continue
            ms = rd.split_members(data, name.endswith('.gz'), lenient=True)
            out = []
            for m in ms:
                rec = {'s': m['st'], 'o': m['off'], 'l': m['len'], 'n': m['nrec']}
                if m['st'] == 'complete' and m['nrec'] >= 1:
                    f = rd.parse_record(m['raw'])
                    w = self.wire.get(f['url'], {})
                    pdtok = f['pdv'][5:] if f['pdv'].startswith('sha1:') else '-'
                    rec.update({
                        't': f['type'] or 'none', 'r': self._intern(self.rids, f['rid']),
                        'w': self._intern(self.rids, f['wid']), 'ct': self._intern(self.rids, f['cto']),
                        'u': self._intern(self.strs, f['url']), 'ver': f['ver'], 'tail': f['tail'], 'he': f['hdrend'],
                        'nb': f['nbad'], 'nd': f['ndup'], 'clf': f['clen'] >= 0, 'cl': max(f['clen'], 0),
                        'bl': f['blen'], 'bd': f['bd'],
                        'pdp': f['pd'] != -2, 'pdf': f['pd'] >= 0, 'pdk': max(f['pd'], 0),
                        'hlf': f['hl'] >= 0, 'hl': max(f['hl'], 0), 'http': f['http'],
                        'resp': bool(f['type'] == 'response' and f['http'] and 'response' in f['ctype']),
                        'st': max(f['status'], 0), 'mi': self._intern(self.strs, f['mime'].lower()),
                        'dg': self._intern(self.strs, pdtok),
                        # scenario knowledge (wire bytes sent by the scripted server)
                        'whl': max(w.get('hl', 0), 0), 'pdw': bool(w) and f['pdv'] == w.get('bd'),
                        'hw': bool(w), 'wst': max(w.get('status', 0), 0),
                        'wmi': self._intern(self.strs, w.get('mime', '-').lower()),
                        'shape': w.get('shape', ''), 'hc': w.get('hdrclass', ''),
                    })
                else:
                    rec.update({'t': 'none', 'r': 0, 'w': 0, 'ct': 0, 'u': 0, 'ver': False, 'tail': False, 'he': False,
                                'nb': 0, 'nd': 0, 'clf': False, 'cl': 0, 'bl': 0, 'bd': 'none', 'pdp': False,
                                'pdf': False, 'pdk': 0, 'hlf': False, 'hl': 0, 'http': False, 'resp': False, 'st': 0,
                                'mi': 0, 'dg': 0, 'whl': 0, 'pdw': False, 'hw': False, 'wst': 0, 'wmi': 0, 'shape': '', 'hc': ''})
                out.append(rec)
            files.append({'f': file_id(name), 'sz': len(data), 'gz': name.endswith('.gz'), 'm': out, 'name': name})
        return {'files': files, 'cdx': cdx, 'cdxon': cdxon, 'cdxhdr': cdxhdr}

    def cleanup(self):
        if self.own_base:
            _shutil.rmtree(self.base, ignore_errors=True)


def project_dir(base):
    """Lite projection of a directory tree left behind by a (killed) recorder process: an Exec that only reads."""
    x = Exec({'params': {}, 'runs': []}, base=base)
    ch, _ = x.delta()
    return ch
