"""C09 executor: the real wpull application crawling a small site with ONE hostile URL, over the in-memory network.

Site (HTTP case):   http://a.test/      page linking to  http://b.test/<target path>  and  http://a.test/p3
                    http://b.test/...   the hostile URL (own host => own connection pool: nothing the hostile server does
                                        to its connection can legitimately disturb the fetch of the other URLs)
                    http://a.test/p3    ordinary page
Site (FTP case):    ftp://f.test/       directory listing  ->  a.txt, h.txt (hostile), c.txt      (own scripted FTP server)

Observation points (wrapped from OUTSIDE, class attributes patched for the duration of one run and restored):
  http.start / http.download      wpull.protocol.http.client.Session.start / download
  ftp.start / ftp.start_listing / ftp.download / ftp.download_listing      wpull.protocol.ftp.client.Session.*
  robots.can_fetch                wpull.protocol.http.robots.RobotsTxtChecker.can_fetch
  scrape_info                     wpull.scraper.base.DemuxDocumentScraper.scrape_info
  pipeline.process                wpull.pipeline.pipeline.Pipeline.process      (did an exception reach Application.run?)
each logs  leave(point, kind)  when an exception leaves it while the TARGET url is being processed.

Fault injection (binding (a)): `fault = {site, kind}` arms one real object to raise `kind` once, while the target URL is
being processed: network primitives through the fake connection (reader exception / connect error), parsers by a
one-shot wrapper around the real method (restored afterwards), the scraper site by a double registered in the real
DemuxDocumentScraper.
"""
import asyncio
import errno
import functools
import gzip
import os
import signal
import ssl
import zlib

from harness import fakenet
from drivers.crawl_exec import CrawlRun, Site, SiteServer, _http
import re

PROXY_IP = '10.0.0.9'

# ------------------------------------------------------------------ exception kinds
# name -> (class getter, instance factory); order = most specific first for classification


def _kinds():
    import wpull.errors as E
    from wpull.protocol.abstract.client import DurationTimeout
    from wpull.protocol.ftp.util import FTPServerError
    from wpull.protocol.ftp.ls.listing import ListingError
    return [
        ('DurationTimeout', DurationTimeout, lambda: DurationTimeout('injected')),
        ('NetworkTimedOut', E.NetworkTimedOut, lambda: E.NetworkTimedOut('injected')),
        ('ConnectionRefused', E.ConnectionRefused, lambda: E.ConnectionRefused('injected')),
        ('DNSNotFound', E.DNSNotFound, lambda: E.DNSNotFound('injected')),
        ('NetworkError', E.NetworkError, lambda: E.NetworkError('injected')),
        ('SSLVerificationError', E.SSLVerificationError, lambda: E.SSLVerificationError('injected')),
        ('AuthenticationError', E.AuthenticationError, lambda: E.AuthenticationError('injected')),
        ('FTPServerError', FTPServerError, lambda: FTPServerError('injected', 550)),
        ('ServerError', E.ServerError, lambda: E.ServerError('injected')),
        ('ProtocolError', E.ProtocolError, lambda: E.ProtocolError('injected')),
        ('ListingError', ListingError, lambda: ListingError('injected')),
        ('UnicodeError', UnicodeError, lambda: UnicodeDecodeError('utf-8', b'\xff', 0, 1, 'injected')),
        ('SSLCertError', ssl.CertificateError, lambda: ssl.CertificateError('injected')),
        ('BadGzipFile', gzip.BadGzipFile, lambda: gzip.BadGzipFile('injected')),
        ('TimeoutError', asyncio.TimeoutError, lambda: asyncio.TimeoutError()),
        ('OSConnRefused', ConnectionRefusedError, lambda: ConnectionRefusedError(errno.ECONNREFUSED, 'injected')),
        ('OSError', OSError, lambda: OSError(errno.EIO, 'injected')),
        ('IncompleteRead', asyncio.IncompleteReadError, lambda: asyncio.IncompleteReadError(b'', 5)),
        ('EOFError', EOFError, lambda: EOFError('injected')),
        ('ZlibError', zlib.error, lambda: zlib.error('injected')),
        ('RecursionError', RecursionError, lambda: RecursionError('injected')),
        ('KeyError', KeyError, lambda: KeyError('injected')),
        ('IndexError', IndexError, lambda: IndexError('injected')),
        ('LookupError', LookupError, lambda: LookupError('injected')),
        ('ValueError', ValueError, lambda: ValueError('injected')),
        ('AttributeError', AttributeError, lambda: AttributeError('injected')),
        ('TypeError', TypeError, lambda: TypeError('injected')),
        ('AssertionError', AssertionError, lambda: AssertionError('injected')),
        ('OverflowError', OverflowError, lambda: OverflowError('injected')),
        ('RuntimeError', RuntimeError, lambda: RuntimeError('injected')),
        ('Exception', Exception, lambda: Exception('injected')),
    ]


_KINDS = None


def kinds():
    global _KINDS
    if _KINDS is None:
        _KINDS = _kinds()
    return _KINDS


def kind_of(exc):
    """Name of the most specific known class of exc (walk the MRO: the first class of it that is in the table)."""
    table = {c: n for (n, c, _) in kinds()}
    for c in type(exc).__mro__:
        if c in table:
            return table[c]
    return 'BaseException'


def make_exc(kind):
    for n, c, f in kinds():
        if n == kind:
            return f()
    raise KeyError(kind)


# ------------------------------------------------------------------ site
A_IP, B_IP, F_IP = '10.0.0.1', '10.0.0.2', '10.0.0.3'
FTP_DATA_PORT = 1025


class HostileSite(Site):
    """Site whose robots.txt may be raw bytes too: robots = {host: {'kind': 'raw', 'data': latin-1 str, 'close': bool}}"""
    def respond(self, host, port, path, n_hit):
        if path == '/robots.txt':
            r = self.robots.get(host, {'kind': 'missing'})
            if r['kind'] == 'raw':
                return 'raw', r['data'].encode('latin-1')
        return Site.respond(self, host, port, path, n_hit)

    def lookup(self, host, port, path):
        d = Site.lookup(self, host, port, path)
        if d is None and path == '/robots.txt':
            r = self.robots.get(host)
            if r is not None and r['kind'] == 'raw':
                return dict(id=0, host=host, path=path, kind='raw', cuts=r.get('cuts'), close=r.get('close'),
                            fail=r.get('fail'))
        return d


def http_site(target_path='/h', data=None, close=True, cuts=None, robots_raw=None, fail=None, target_kind='raw',
              extra=None):
    """3-page site; the hostile URL is url 2 (on b.test).  data: latin-1 str of the raw response."""
    t = dict(id=2, host='b.test', path=target_path, kind=target_kind, links=[], close=close, cuts=cuts, fail=fail)
    if target_kind == 'raw':
        t['data'] = data
    t.update(extra or {})
    urls = [dict(id=1, host='a.test', path='/', kind='page', links=[dict(to=2), dict(to=3)]), t,
            dict(id=3, host='a.test', path='/p3', kind='page', links=[])]
    robots = {}
    if robots_raw is not None:
        robots['b.test'] = dict(kind='raw', **robots_raw)
        robots['a.test'] = dict(kind='missing')
    return dict(hosts={'a.test': A_IP, 'b.test': B_IP}, urls=urls, robots=robots)


def http_argv(db, directory, robots=False, extra=()):
    a = ['http://a.test/', '--html-parser', 'html5lib', '-q', '--database', db, '-P', directory, '--waitretry', '0',
         '--tries', '1', '--max-redirect', '3', '-r', '--span-hosts', '--timeout', '30', '--no-check-certificate']
    if not robots:
        a.append('--no-robots')
    return a + list(extra)


# ------------------------------------------------------------------ FTP server script
class FtpScript(object):
    """Scripted FTP server.  files: {name: bytes} in the root directory; dirs: names of sub-directories;
    listings: {path: bytes} overrides the LIST payload of a directory.

    hostile = {'at': 'greet'|<command name>|'data'|'end', 'do': ..., 'when': 'target'|'always'}
      do: ('reply', bytes[, cuts[, 'continue']])   send these bytes instead of the normal reply; with 'continue' the
                                                   normal flow goes on (transfer), otherwise the server does nothing more
          ('close',)             close the control connection instead of replying
          ('fail', kind)         the control connection breaks: the pending read raises an exception of that kind
          ('data', bytes[, cuts])   (at 'data') bytes sent on the data connection instead of the normal payload
          ('dataclose',)         (at 'data') close the data connection and never send the final reply
          ('datafail', kind)     (at 'data') the data connection breaks with an exception of that kind
          ('refuse_data',)       (at 'PASV') answer with a port nobody listens on
    """
    def __init__(self, run, files, dirs=(), listings=None, hostile=None, mlsd=None):
        self.run = run
        self.mlsd = mlsd or {}      # {path: bytes}: directories for which MLSD (RFC 3659) is answered
        self.files = files
        self.dirs = dirs
        self.listings = listings or {}
        self.hostile = hostile or {}
        self.log = []
        self.data_eps = []
        self.greets = 0
        self.retr_done = False

    def hostile_at(self, at):
        h = self.hostile
        if not h or h.get('at') != at:
            return None
        if h.get('when', 'target') == 'after_retr':
            # only once the target file itself has been transferred (what follows is the listing for its mode bits)
            return h['do'] if (self.run.target_active and self.retr_done) else None
        if h.get('when', 'target') == 'always' or self.run.target_active:
            return h['do']
        return None

    def listing(self, path):
        if path in self.listings:
            return self.listings[path]
        if path.rstrip('/') != '':
            return b''
        lines = []
        for d in self.dirs:
            lines.append('drwxr-xr-x 2 ftp ftp 4096 Jan 01  2020 %s' % d)
        for n in sorted(self.files):
            lines.append('-rw-r--r-- 1 ftp ftp %d Jan 01  2020 %s' % (len(self.files[n]), n))
        return ('\r\n'.join(lines) + '\r\n').encode()


class FtpControl(fakenet.BaseServer):
    def __init__(self, script, ep):
        self.s = script
        self.buf = b''

    def reply(self, ep, at, normal):
        """Send the reply for protocol point `at`; returns True if the normal flow continues."""
        h = self.s.hostile_at(at)
        if h is None or h[0] in ('data', 'dataclose', 'datafail', 'refuse_data'):
            ep.send(normal)
            return True
        self.s.log.append((at, h[0]))
        if h[0] == 'reply':
            ep.send(h[1], cuts=h[2] if len(h) > 2 else None)
            return len(h) > 3 and h[3] == 'continue'
        if h[0] == 'close':
            ep.close()
            return False
        if h[0] == 'fail':
            ep.fail(make_exc(h[1]))
            if self.s.run.fault is not None:
                self.s.run.fault_fired += 1
            return False
        raise ValueError(h)

    def on_connect(self, ep):
        self.s.greets += 1
        self.reply(ep, 'greet', b'220 ready\r\n')

    def on_data(self, ep, data):
        self.buf += data
        while b'\r\n' in self.buf:
            line, self.buf = self.buf.split(b'\r\n', 1)
            self.command(ep, line)

    def command(self, ep, line):
        s = self.s
        name, _, arg = line.partition(b' ')
        name = name.upper().decode('latin-1')
        arg = arg.decode('utf-8', 'replace')
        s.log.append(('cmd', name, arg))
        if name == 'USER':
            self.reply(ep, 'USER', b'331 need password\r\n')
        elif name == 'PASS':
            self.reply(ep, 'PASS', b'230 logged in\r\n')
        elif name == 'TYPE':
            self.reply(ep, 'TYPE', b'200 ok\r\n')
        elif name == 'SIZE':
            n = arg.rsplit('/', 1)[-1]
            if n in s.files:
                self.reply(ep, 'SIZE', ('213 %d\r\n' % len(s.files[n])).encode())
            else:
                self.reply(ep, 'SIZE', b'550 no\r\n')
        elif name == 'PASV':
            h = s.hostile_at('PASV')
            if h is not None and h[0] == 'refuse_data':
                s.log.append(('PASV', 'refuse_data'))
                ep.send(b'227 Entering Passive Mode (10,0,0,3,4,9)\r\n')
            else:
                self.reply(ep, 'PASV', b'227 Entering Passive Mode (10,0,0,3,4,1)\r\n')
        elif name == 'MLSD' and arg not in s.mlsd:
            self.reply(ep, 'MLSD', b'500 unknown\r\n')
        elif name in ('LIST', 'RETR', 'MLSD'):
            dep = s.data_eps[-1] if s.data_eps else None
            if name == 'MLSD':
                payload = s.mlsd[arg]
                ok = True
            elif name == 'LIST':
                payload = s.listing(arg)
                ok = True
            else:
                n = arg.rsplit('/', 1)[-1]
                ok = n in s.files
                payload = s.files.get(n, b'')
            if not ok:
                self.reply(ep, name, b'550 no such file\r\n')
                return
            counted = getattr(s.run, 'count_ftp', False) and name in ('LIST', 'RETR', 'MLSD')
            if counted:
                # (drivers/crawl.py, FTP scenarios) the request of the URL this command fetches
                u = s.run.uid('ftp://f.test' + arg)
                s.run.nreq += 1
                nq = s.run.nreq
                try:
                    item = s.run.task_item.get(asyncio.current_task(), 0)
                except RuntimeError:
                    item = 0
                s.run.log(e='req', n=nq, u=u, kind='page' if u else 'other', host='f.test', h=1, port=21, path=arg,
                          conn_host='f.test', item=item)
                s.run.log(e='resp', n=nq, u=u, cls='page', h=1)
            if not self.reply(ep, name, b'150 here it comes\r\n'):
                return
            h = s.hostile_at('data')
            if h is not None:
                s.log.append(('data', h[0]))
            if dep is not None:
                if h is not None and h[0] == 'data':
                    dep.send(h[1], cuts=h[2] if len(h) > 2 else None)
                    dep.close()
                elif h is not None and h[0] == 'dataclose':
                    dep.close()
                    return
                elif h is not None and h[0] == 'datafail':
                    dep.fail(make_exc(h[1]))
                    if s.run.fault is not None:
                        s.run.fault_fired += 1
                    return
                else:
                    dep.send(payload)
                    dep.close()
            self.reply(ep, 'end', b'226 done\r\n')
            if name == 'RETR' and s.run.target_active:
                s.retr_done = True
        elif name == 'REST':
            self.reply(ep, 'REST', b'350 ok\r\n')
        elif name == 'QUIT':
            ep.send(b'221 bye\r\n')
            ep.close()
        else:
            ep.send(b'502 not implemented\r\n')


class FtpData(fakenet.BaseServer):
    def __init__(self, script, ep):
        script.data_eps.append(ep)


def ftp_argv(db, directory, start=('ftp://f.test/',), extra=()):
    return list(start) + ['-q', '--database', db, '-P', directory, '--waitretry', '0', '--tries', '1', '-r', '--timeout', '30',
            '--html-parser', 'html5lib', '--no-robots', '--no-check-certificate'] + list(extra)


# ------------------------------------------------------------------ the run
FINAL = ('done', 'error', 'skipped')


class Livelock(BaseException):
    pass


class _Patch(object):
    """Set attributes for the duration of a run; restore afterwards (worker processes are reused)."""
    def __init__(self):
        self.saved = []

    def set(self, obj, name, value):
        self.saved.append((obj, name, obj.__dict__.get(name, _Patch), name in obj.__dict__))
        setattr(obj, name, value)

    def restore(self):
        for obj, name, old, had in reversed(self.saved):
            if had:
                setattr(obj, name, old)
            else:
                try:
                    delattr(obj, name)
                except AttributeError:
                    pass
        self.saved = []


_BaseNet = fakenet.FakeNet


class FaultNet(_BaseNet):
    """FakeNet whose connect can be made to fail for one address, with any exception (raised by the awaited
    connection coroutine, i.e. inside Connection.run_network_operation exactly like a failing open_connection)."""
    def __init__(self):
        super().__init__()
        self.connect_fault = {}     # (ip, port) -> callable returning exception or None

    async def _open(self, conn):
        addr = (conn.address[0], conn.address[1])
        if not 0 <= addr[1] <= 65535:
            # what socket.connect does with such a port (checked against the real Connection on a real event loop by
            # drivers/errorflow.py: probe_real_connect); the in-memory network has no sockets
            raise OverflowError('connect(): port must be 0-65535.')
        f = self.connect_fault.get(addr)
        if f is not None:
            e = f()
            if e is not None:
                fut = asyncio.get_event_loop().create_future()
                asyncio.get_event_loop().call_soon(fut.set_result, None)
                await fut
                self.log.append(('connect-fault', addr))
                raise e
        reader, writer = await _BaseNet._open(self, conn)
        # a real transport that is closed by its owner wakes the reader (connection_lost -> feed_eof): without this a
        # read that Connection's CloseTimer gave up on would stay parked for ever
        ep = self.endpoints[-1]
        orig_close = ep._client_close

        def client_close():
            orig_close()
            if not reader._eof:
                reader.feed_eof()
        ep._client_close = client_close
        return reader, writer


class HRun(CrawlRun):
    """CrawlRun + hostile robots + optional FTP server + observation points + fault injection."""
    def __init__(self, site, argv, target_url, fault=None, ftp=None, **kw):
        CrawlRun.__init__(self, site if isinstance(site, Site) else HostileSite(site), argv, **kw)
        self.target_url = target_url
        self.fault = fault
        self.ftp = ftp
        self.obs = []               # {'p': point, 'k': kind, 't': on target?}
        self.target_active = False
        self.current_url = None
        self.fault_fired = 0
        self.patch = _Patch()
        self.ftp_script = None

    # ---- answering: 'fail' on a raw url = the connection breaks after the bytes with an exception
    def answer(self, idx):
        n, ep, u, host, port, path, kind = self.pending[idx]
        d = self.site.lookup(host, port, path) or {}
        CrawlRun.answer(self, idx)
        if id(ep) in getattr(self, 'proxy_eps', ()):
            self.proxy_idle.append(ep)      # closed by the proxy's idle timeout: see env_step
        if d.get('fail') is not None:
            ep.fail(make_exc(d['fail']) if isinstance(d['fail'], str) else d['fail'])
            if self.fault is not None:
                self.fault_fired += 1

    proxy_idle = ()

    def env_step(self):
        if CrawlRun.env_step(self):
            return True
        # nothing to answer and the client is not asking (it sleeps: --wait): the proxy's idle timeout fires
        if self.proxy_idle:
            ep = self.proxy_idle.pop(0)
            ep.server_closed = True
            ep.reader.feed_eof()        # the FIN reaches the idle client (nobody is reading: handed over directly)
            return True
        return False

    def uid(self, url):
        if url == self.target_url:
            return 2
        return CrawlRun.uid(self, url)

    # ---- observation
    _last_ftp_download_exc = None

    def note(self, point, exc):
        if point == 'ftp.download' and exc is not None:
            self._last_ftp_download_exc = exc
        if point == 'ftp.download_listing' and exc is not None and exc is self._last_ftp_download_exc:
            return      # download_listing calls download: the same exception passing through is one observation
        self.obs.append({'p': point, 'k': kind_of(exc) if exc is not None else 'none', 't': bool(self.target_active),
                         'msg': ('%s: %s' % (type(exc).__name__, exc))[:200] if exc is not None else ''})

    def _wrap_coro(self, cls, name, point):
        run = self
        orig = cls.__dict__[name]

        @asyncio.coroutine
        @functools.wraps(orig)
        def w(self_, *a, **k):
            try:
                r = yield from orig(self_, *a, **k)
            except Exception as e:
                run.note(point, e)
                raise
            run.note(point, None)
            return r
        self.patch.set(cls, name, w)

    def _wrap_plain(self, cls, name, point):
        run = self
        orig = cls.__dict__[name]

        @functools.wraps(orig)
        def w(self_, *a, **k):
            try:
                r = orig(self_, *a, **k)
            except Exception as e:
                run.note(point, e)
                raise
            run.note(point, None)
            return r
        self.patch.set(cls, name, w)

    def install_observers(self):
        import wpull.protocol.http.client as hc
        import wpull.protocol.ftp.client as fc
        import wpull.protocol.http.robots as rb
        import wpull.scraper.base as sb
        import wpull.pipeline.pipeline as pp
        self._wrap_coro(hc.Session, 'start', 'http.start')
        self._wrap_coro(hc.Session, 'download', 'http.download')
        self._wrap_coro(fc.Session, 'start', 'ftp.start')
        self._wrap_coro(fc.Session, 'start_listing', 'ftp.start_listing')
        self._wrap_coro(fc.Session, 'download', 'ftp.download')
        self._wrap_coro(fc.Session, 'download_listing', 'ftp.download_listing')
        self._wrap_coro(rb.RobotsTxtChecker, 'can_fetch', 'robots.can_fetch')
        self._wrap_plain(sb.DemuxDocumentScraper, 'scrape_info', 'scrape_info')
        self._wrap_coro(pp.Pipeline, 'process', 'pipeline.process')

    # ---- fault injection
    def fire(self):
        """One-shot: the armed fault fires only while the target URL is being processed."""
        f = self.fault
        if f is None or not self.target_active or self.fault_fired >= f.get('times', 1):
            return None
        self.fault_fired += 1
        return make_exc(f['kind'])

    def _oneshot(self, obj, name, when=None, is_coro=False):
        """Wrap obj.name: raises the armed kind instead of running (once, on the target)."""
        run = self
        orig = obj.__dict__[name]
        raw = orig.__func__ if isinstance(orig, (classmethod, staticmethod)) else orig

        def w(*a, **k):
            if when is None or when(*a, **k):
                e = run.fire()
                if e is not None:
                    raise e
            return raw(*a, **k)
        functools.update_wrapper(w, raw)
        if isinstance(orig, classmethod):
            w = classmethod(w)
        elif isinstance(orig, staticmethod):
            w = staticmethod(w)
        self.patch.set(obj, name, w)

    def install_fault(self):
        f = self.fault
        if f is None:
            return
        site = f['site']
        run = self
        import wpull.protocol.http.request as hreq
        import wpull.namevalue as nv
        import wpull.decompression as dec
        import wpull.protocol.http.redirect as red
        import wpull.cookiewrapper as ck
        import wpull.robotstxt as rt
        import wpull.path as wpath
        import wpull.url as wurl
        import wpull.protocol.ftp.request as freq
        import wpull.protocol.ftp.util as futil
        import wpull.protocol.ftp.ls.listing as fls
        if site in ('h_connect', 'r_connect'):
            self.net.connect_fault[(B_IP, 80)] = self.fire
        elif site == 'f_connect':
            self.net.connect_fault[(F_IP, 21)] = self.fire
        elif site in ('f_data_connect', 'fp_data_connect'):
            self.net.connect_fault[(F_IP, FTP_DATA_PORT)] = self.fire
        elif site in ('h_status_parse', 'r_status_parse'):
            self._oneshot(hreq.Response, 'parse_status_line')
        elif site in ('h_fields_parse', 'r_fields_parse'):
            self._oneshot(nv.NameValueRecord, 'parse', when=lambda s, *a, **k: not s.raw)
        elif site == 'h_trailer_parse':
            self._oneshot(nv.NameValueRecord, 'parse', when=lambda s, *a, **k: bool(s.raw))
        elif site in ('h_decompress', 'r_decompress'):
            self._oneshot(dec.GzipDecompressor, 'decompress')
        elif site in ('h_flush', 'r_flush'):
            self._oneshot(dec.GzipDecompressor, 'flush')
        elif site == 'h_redirect_load':
            self._oneshot(red.RedirectTracker, 'load')
        elif site == 'h_redirect_next':
            self._oneshot(red.RedirectTracker, 'next_location', when=lambda s, raw=False: not raw)
        elif site == 'h_cookie_extract':
            self._oneshot(ck.CookieJarWrapper, 'extract_cookies')
        elif site == 'r_parse':
            self._oneshot(rt.RobotsTxtPool, 'load_robots_txt', when=lambda s, u, text: bool(text))
        elif site == 'h_writer_process_response':
            self._oneshot_writer('process_response')
        elif site == 'h_save_document':
            self._oneshot_writer('save_document')
        elif site == 'h_child_url_parse':
            self._oneshot(wurl.URLInfo, 'parse', when=lambda *a, **k: run.in_scrape_post)
        elif site == 'f_reply_parse':
            self._oneshot(freq.Reply, 'parse', when=lambda s_, data: data.startswith(b'200'))
        elif site in ('f_pasv_parse', 'fp_pasv_parse'):
            self._oneshot(futil, 'parse_address')
        elif site in ('f_listing_parse', 'fp_listing_parse'):
            self._oneshot(fls.ListingParser, 'parse_input')
        elif site in ('h_scrape_double', 'h_hdr_readline', 'h_body_read', 'h_chunk_hdr_readline', 'h_chunk_body_read',
                      'h_chunk_nl_readline', 'h_trailer_readline', 'r_hdr_readline', 'r_body_read',
                      'f_reply_readline', 'f_data_read', 'f_end_readline', 'f_add_links', 'fp_reply_readline',
                      'fp_data_read'):
            pass        # armed elsewhere (network script / scraper double / see build())
        else:
            raise ValueError('unknown fault site %r' % site)

    in_scrape_post = False

    def _oneshot_writer(self, name):
        import wpull.writer as wr
        self._oneshot(wr.BaseFileWriterSession, name)

    # ---- application
    def build(self):
        run = self
        import drivers.crawl_exec as ce
        # our own network class (connect faults); CrawlRun.build instantiates fakenet.FakeNet by name
        self.patch.set(ce.fakenet, 'FakeNet', FaultNet)
        try:
            app = CrawlRun.build(self)
        finally:
            pass
        net = self.net
        if '--http-proxy' in self.argv:
            # an HTTP proxy in front of the site: absolute-form requests; it closes its connection to the client after
            # every answer WITHOUT announcing it (what a proxy does when its idle timeout is shorter than the client's
            # pause between two requests)
            run = self

            class ProxyServer(SiteServer):
                def on_data(self_, ep, data):
                    run.proxy_eps.add(id(ep))
                    if ep in run.proxy_idle:
                        run.proxy_idle.remove(ep)
                    # while this connection is busy the idle timeout of the other ones fires
                    for other in list(run.proxy_idle):
                        run.proxy_idle.remove(other)
                        other.server_closed = True
                        other.reader.feed_eof()
                    data = re.sub(rb'^(\w+) http://[^/ ]+(/\S*) (HTTP/1\.[01])', rb'\1 \2 \3', data)
                    SiteServer.on_data(self_, ep, data)
            self.proxy_eps = set()
            self.proxy_idle = []
            import functools
            import wpull.application.tasks.network as wnet
            from wpull.proxy.client import HTTPProxyConnectionPool

            class FakeProxyPool(HTTPProxyConnectionPool):
                # the application installs the proxy pool by name: give it the connections of the in-memory network
                def __init__(self_, *a, connection_factory=None, ssl_connection_factory=None, **kw):
                    kws = dict(getattr(connection_factory, 'keywords', {}) or {})
                    kws.pop('bind_host', None)
                    kws.pop('bandwidth_limiter', None)
                    cf = functools.partial(net.connection_factory, **kws)
                    HTTPProxyConnectionPool.__init__(self_, *a, connection_factory=cf, ssl_connection_factory=cf, **kw)
            self.patch.set(wnet, 'HTTPProxyConnectionPool', FakeProxyPool)
            net.add_host('proxy.test', PROXY_IP)
            net.listen(PROXY_IP, 3128, lambda ep: ProxyServer(run, ep))
        if self.ftp is not None:
            net.add_host('f.test', F_IP)
            sc = self.ftp_script = FtpScript(self, **self.ftp)
            net.listen(F_IP, 21, lambda ep: FtpControl(sc, ep))
            net.listen(F_IP, FTP_DATA_PORT, lambda ep: FtpData(sc, ep))
        # which URL is being processed (the TracedProcessor of CrawlRun logs vbegin/vend; we need the URL text)
        from wpull.processor.delegate import DelegateProcessor
        orig_process = DelegateProcessor.__dict__['process']

        @asyncio.coroutine
        def process(self_, item_session):
            url = item_session.url_record.url
            run.current_url = url
            run.target_active = (url == run.target_url)
            try:
                return (yield from orig_process(self_, item_session))
            finally:
                run.target_active = False
                run.current_url = None
        self.patch.set(DelegateProcessor, 'process', process)
        self.install_observers()
        self.install_fault()
        if self.fault is not None and self.fault['site'] == 'h_scrape_double':
            from wpull.scraper.base import BaseScraper
            from wpull.application.tasks.download import ParserSetupTask

            class Double(BaseScraper):
                def scrape(self, request, response, link_type=None):
                    e = run.fire()
                    if e is not None:
                        raise e
                    return None
            orig_build = ParserSetupTask.__dict__['_build_document_scrapers'].__func__

            def build_scrapers(cls, session):
                return orig_build(cls, session) + [Double()]
            self.patch.set(ParserSetupTask, '_build_document_scrapers', classmethod(build_scrapers))
        if self.fault is not None and self.fault['site'] == 'h_child_url_parse':
            from wpull.processor.rule import ProcessingRule
            orig_psi = ProcessingRule.__dict__['_process_scrape_info']

            def psi(self_, *a, **k):
                run.in_scrape_post = True
                try:
                    return orig_psi(self_, *a, **k)
                finally:
                    run.in_scrape_post = False
            self.patch.set(ProcessingRule, '_process_scrape_info', psi)
        if self.fault is not None and self.fault['site'] == 'f_add_links':
            from wpull.processor.ftp import FTPProcessorSession
            self._oneshot(FTPProcessorSession, '_add_listing_links')
        return app

    VTIME_LIMIT = 20000.0       # virtual seconds: a crawl of three URLs with --timeout 30 is long over by then
    CPU_LIMIT = 20              # CPU seconds (ITIMER_PROF): a busy loop in the code under test becomes an observation

    def execute(self):
        from harness import vloop
        old = os.getcwd()
        if self.cwd:
            os.chdir(self.cwd)

        def on_alarm(signum, frame):
            raise Livelock('cpu')

        def tick():
            loop = asyncio.get_event_loop()
            if loop.time() > self.VTIME_LIMIT:
                raise Livelock('virtual time')
        old_handler = signal.signal(signal.SIGPROF, on_alarm)
        signal.setitimer(signal.ITIMER_PROF, self.CPU_LIMIT)
        try:
            self.log(e='start', run=self.run_no)
            try:
                app = self.build()
                kind, val = vloop.run(lambda: app.run(), self.env_step, env_before_timer=True, tick_hook=tick)
            except Livelock as e:
                kind, val = 'hang', None
                self.livelock = str(e)
            if kind == 'ok':
                self.log(e='exit', code=int(val))
            elif kind == 'exc' and isinstance(val, Livelock):
                kind = 'hang'
                self.livelock = str(val)
                self.log(e='hang', pending=len(self.pending), livelock=self.livelock)
            elif kind == 'exc':
                self.log(e='exit', code=-1, exc='%s: %s' % (type(val).__name__, val))
            else:
                self.log(e='hang', pending=len(self.pending), livelock=getattr(self, 'livelock', ''))
            self.outcome = kind
            self.exit_code = val if kind == 'ok' else None
        finally:
            signal.setitimer(signal.ITIMER_PROF, 0)
            signal.signal(signal.SIGPROF, old_handler)
            os.chdir(old)
            self.patch.restore()
            if self.trace_fd is not None:
                os.close(self.trace_fd)
                self.trace_fd = None
        return self.ev


def summarize(run, rows, urls_of_interest):
    """Outcome record of one crawl: what the monitor sees."""
    last = run.ev[-1] if run.ev else {}
    exit_code = last.get('code', -2) if last.get('e') == 'exit' else -2
    hang = last.get('e') == 'hang'
    by_url = {r[5]: r[1] for r in rows}
    return dict(exit=exit_code, hang=hang, exc=last.get('exc', ''), status={u: by_url.get(u, 'absent') for u in urls_of_interest},
                rows=[[r[5], r[1]] for r in rows])
