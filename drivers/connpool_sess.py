"""C12 through the real HTTP client: wpull.protocol.http.client.Client / Session (start, download, recycle, abort)
on the real ConnectionPool over harness.fakenet - the mechanism "sessions return or close every connection they
took on exit" (wpull/protocol/abstract/client.py:41-70).

Each client task performs fetches; a fetch is
    with client.session() as session:
        response = yield from session.start(Request(url of host k))
        yield from session.download()
with a flow chosen by the environment:
    'ok'      the server answers a complete keep-alive response
    'cut'     the server closes in the middle of the body          (download raises -> __exit__ aborts)
    'refuse'  the connect is refused                               (start raises -> __exit__ aborts)
    'early'   the caller raises after start(), before download()   (__exit__ aborts)
    'nodl'    the caller leaves the with block without download()  (recycle closes the unfinished connection)
    'direct'  (proxy runs) pool.acquire() / pool.no_wait_release() called directly, no HTTP session
    'poolctx' (proxy runs) with (yield from pool.session(host, port)) as connection
Environment commands: ['start', c, k, flow], ['reply', c] (the server answers the pending request of c),
['kill', x] (the server closes idle connection x), ['cancel', c].
Observation is done in a ConnectionPool subclass (acquire / no_wait_release / release wrapped) and in a subclass of
the fake connection (connect / close), the events and the projection are those of drivers/connpool_exec.py.
"""
import asyncio
import errno

from harness.fakenet import FakeNet, FakeConnection, BaseServer
from wpull.network.pool import ConnectionPool
from wpull.protocol.http.client import Client
from wpull.protocol.http.request import Request
from drivers.connpool_exec import Run, host_of


class Boom(Exception):
    pass


TUNNEL_FLOWS = ('tunnel403', 'tunnelcut', 'refuse')


class SessRun(Run):
    mode = 'session'
    proxy = False
    tls_hosts = ()         # hosts fetched with https (proxy runs only: CONNECT first; their host key has port 443)

    def keyt(self, k):
        return (host_of(k), 443, True) if k in self.tls_hosts else (host_of(k), 80, False)

    def __init__(self, N, H, M, script=(), uses=2, **kw):
        Run.__init__(self, N, H, M, script=script, uses=uses, **kw)
        self.params = None
        self.flow = {}
        self.pending = {}      # client -> endpoint with an unanswered request
        self.task_client = {}
        self.holder = {}       # id(outer connection) -> client

    # ------------------------------------------------------------------ doubles and observers
    def build(self):
        run = self
        net = self.net = FakeNet()

        class Srv(BaseServer):
            def on_data(self, ep, data):
                if b'\r\n\r\n' in bytes(ep.received):
                    ep.received = bytearray()
                    c = run.client_of_reader(ep.reader)
                    if c:
                        run.pending[c] = ep

        for k in range(1, self.H + 1):
            net.add_host(host_of(k), '10.0.0.%d' % k)
            net.listen('10.0.0.%d' % k, 80, Srv())

        class LConn(FakeConnection):
            @asyncio.coroutine
            def connect(self):
                try:
                    yield from FakeConnection.connect(self)
                except asyncio.CancelledError:
                    raise
                except BaseException:
                    run.on_connect(self, False)
                    raise
                run.on_connect(self, True)

            def close(self):
                was_open = not self.closed()
                FakeConnection.close(self)
                if was_open:
                    run.on_close(self)

        def factory(address, hostname=None, **kw):
            kw.pop('ssl_context', None)
            return LConn(net, address, hostname, **kw)

        class SP(ConnectionPool):
            @asyncio.coroutine
            def acquire(self, host, port, use_ssl=False, host_key=None):
                c = run.task_client.get(asyncio.current_task(), 0)
                k = int((host_key[0] if host_key else host)[1:].split('.')[0])
                run.state[c] = 'acq'
                run.log(e='start', c=c, k=k)
                try:
                    conn = yield from ConnectionPool.acquire(self, host, port, use_ssl, host_key)
                except asyncio.CancelledError:
                    run.state[c] = 'cancelled'
                    run.log(e='acqx', c=c, k=k, why='cancel')
                    raise
                except Exception as e:  # noqa
                    run.state[c] = 'error'
                    run.log(e='acqx', c=c, k=k, why='error', detail=type(e).__name__)
                    raise
                run.conn_of[c] = conn
                run.state[c] = 'use'
                run.log(e='got', c=c, k=k, x=run.cid(conn))
                return conn

            def no_wait_release(self, connection):
                owner = next((d for d, o in run.conn_of.items() if o is connection), 0)
                # who gives the connection back: the client whose task is running (a session that hands back a
                # connection another client is still using must show up as that, not as the owner's own release)
                c = run.task_client.get(asyncio.current_task(), 0) or owner
                if c != owner and owner:
                    run.log(e='foreign_rel', c=c, owner=owner, x=run.cid(connection))
                x = run.cid(connection)
                cl = bool(connection.closed())
                run.conn_of.pop(owner, None)
                run.nrel += 1
                r = run.nrel
                before = set(getattr(self, '_release_tasks', ()))
                run.rel_of[id(connection)] = r
                run.rel_x[r] = x
                ConnectionPool.no_wait_release(self, connection)
                run.track_release_task(r, x, connection, before)
                if c:
                    run.state[c] = 'idle'
                run.log(e='rel', c=c, x=x, mode='n', cl=cl, r=r)

            @asyncio.coroutine
            def release(self, connection):
                r = run.rel_of.pop(id(connection), 0)
                try:
                    yield from ConnectionPool.release(self, connection)
                except asyncio.CancelledError:
                    run._rtask_end(r, 'cancelled')
                    raise
                except Exception:
                    run._rtask_end(r, 'error')
                    raise
                run._rtask_end(r, 'done')

        if self.proxy:
            # every connection goes to the HTTP proxy (plain requests in absolute form, https through CONNECT); the
            # per-host bookkeeping is still keyed by the target host
            from wpull.proxy.client import HTTPProxyConnectionPool
            net.add_host('proxy.test', '10.0.9.9')
            net.listen('10.0.9.9', 3128, Srv())

            class PSP(HTTPProxyConnectionPool, SP):
                pass
            self.pool = PSP(('proxy.test', 3128), max_host_count=self.M, resolver=net.resolver(),
                            connection_factory=factory, ssl_connection_factory=factory, max_count=self.maxcount)
        else:
            self.pool = SP(max_host_count=self.M, resolver=net.resolver(), connection_factory=factory,
                           ssl_connection_factory=factory, max_count=self.maxcount)
        self.http = Client(connection_pool=self.pool)

    def outer_of(self, inner):
        for hp in self.pool.host_pools.values():
            for o in tuple(hp.ready) + tuple(hp.busy):
                if getattr(o, '_active_connection', None) is inner:
                    return o
        for o in self.conn_of.values():
            if getattr(o, '_active_connection', None) is inner:
                return o
        return None

    def client_of_reader(self, reader):
        for c, o in self.conn_of.items():
            inner = getattr(o, '_active_connection', None)
            if inner is not None and inner.reader is reader:
                return c
        return 0

    def on_connect(self, inner, ok):
        o = self.outer_of(inner)
        c = next((d for d, oo in self.conn_of.items() if oo is o), 0)
        if o is not None:
            if ok and getattr(self, 'ended_by_peer', None):
                self.ended_by_peer.discard(self.cid(o))       # (the object is connected anew: a live connection again)
            self.log(e='connect', c=c, x=self.cid(o), ok=ok)

    def on_close(self, inner):
        o = self.outer_of(inner)
        if o is not None:
            self.log(e='kill', x=self.cid(o))

    # ------------------------------------------------------------------ clients
    @asyncio.coroutine
    def client(self, c):
        self.task_client[asyncio.current_task()] = c
        while True:
            cmd = yield from self._wait_cmd(c)
            if cmd[0] != 'start':
                return
            k, flow = cmd[2], cmd[3]
            self.flow[c] = flow
            self.nuse[c] += 1
            if flow == 'refuse':
                self.net.connect_errors.append(ConnectionRefusedError(errno.ECONNREFUSED, 'refused'))
            try:
                if flow in ('direct', 'poolctx'):
                    # the pool's own interface (acquire / release, session()) on whatever pool the application
                    # installed - with --http-proxy that is the proxy pool
                    if flow == 'direct':
                        conn = yield from self.pool.acquire(host_of(k), 80)
                        self.pool.no_wait_release(conn)
                    else:
                        with (yield from self.pool.session(host_of(k), 80)) as conn:
                            if conn is None:
                                raise Boom()
                    raise Boom()           # (leaves through the common exit below)
                with self.http.session() as session:
                    scheme = 'https' if k in self.tls_hosts else 'http'
                    yield from session.start(Request('%s://%s/' % (scheme, host_of(k))))
                    if flow == 'early':
                        raise Boom()
                    if flow != 'nodl':
                        yield from session.download()
            except asyncio.CancelledError:
                self.state[c] = 'cancelled'
                self.outcome_of = 'cancelled'
                return
            except BaseException:  # noqa: network errors, Boom
                pass
            if self.state[c] not in ('cancelled', 'error'):
                self.state[c] = 'idle' if self.nuse[c] < self.uses else 'done'
            self.pending.pop(c, None)
            if self.state[c] != 'idle':
                return

    # ------------------------------------------------------------------ environment
    def enabled(self, e):
        k = e[0]
        if k == 'start':
            return self.state.get(e[1]) == 'idle' and self.nuse[e[1]] < self.uses and self._waiting(e[1])
        if k == 'reply':
            return e[1] in self.pending and self.state.get(e[1]) == 'use'
        if k == 'kill':
            o = self.conn_ids.get(e[1])
            return o is not None and not o.closed() and any(o in hp.ready for hp in self.pool.host_pools.values())
        if k == 'cancel':
            c = e[1]
            return self.state.get(c) in ('acq', 'use') and not self.tasks[c].done()
        return False

    def fire(self, e, phase='Q'):
        k = e[0]
        if not self.enabled(e):
            return False
        self.fired.append(list(e))
        self.schedule.append([self.ticks, phase, list(e)])
        if k == 'start':
            self.wake[e[1]].set_result(list(e))
        elif k == 'reply':
            c = e[1]
            ep = self.pending.pop(c)
            flow = self.flow.get(c)
            if flow == 'cut':
                ep.send(b'HTTP/1.1 200 OK\r\nContent-Length: 10\r\n\r\nabc')
                ep.close()
            elif flow == 'tunnel403':        # the proxy refuses the CONNECT
                ep.send(b'HTTP/1.1 403 Forbidden\r\nContent-Length: 0\r\n\r\n')
            elif flow == 'tunnelcut':        # the proxy closes instead of answering the CONNECT
                ep.close()
            elif flow in ('direct', 'poolctx'):   # the proxy accepts the CONNECT (no body)
                ep.send(b'HTTP/1.1 200 Connection established\r\n\r\n')
            else:
                ep.send(b'HTTP/1.1 200 OK\r\nContent-Length: 2\r\n\r\nhi')
        elif k == 'kill':
            self.n_kill += 1
            o = self.conn_ids[e[1]]
            # the three ways an idle connection ends: an orderly close (FIN), a reset (RST), and a close preceded by
            # a goodbye line that nobody reads ("408 Request Timeout" / FTP "421 Timeout.")
            self.ended_by_peer = getattr(self, 'ended_by_peer', set()) | {e[1]}
            rd = o._active_connection.reader
            how = (e[1] + self.n_kill) % 3
            if how == 2 and getattr(rd, '_ep', None) is not None:
                rd._ep.reset_now()
            elif how == 0:
                rd.feed_data(b'HTTP/1.1 408 Request Timeout\r\nConnection: close\r\n\r\n')
                rd.feed_eof()
            else:
                rd.feed_eof()
            self.log(e='kill', x=e[1])
        elif k == 'cancel':
            self.n_cancel += 1
            if self.state[e[1]] == 'acq':
                self.log(e='cancel', c=e[1])
            self.tasks[e[1]].cancel()
        return True

    def enabled_list(self, b):
        out = []
        for c in range(1, self.N + 1):
            st = self.state[c]
            if st == 'idle' and self.nuse[c] < self.uses and self._waiting(c):
                for k in range(1, self.H + 1):
                    for flow in (TUNNEL_FLOWS if k in self.tls_hosts else b.get('flows', ('ok',))):
                        out.append(['start', c, k, flow])
            elif st == 'use' and c in self.pending:
                out.append(['reply', c])
            if st in ('acq', 'use') and b.get('cancel', 0) > self.n_cancel and not self.tasks[c].done():
                out.append(['cancel', c])
        if b.get('kill', 0) > self.n_kill:
            for i in sorted(self.conn_ids):
                if self.enabled(['kill', i]):
                    out.append(['kill', i])
        return out

    def env_step(self):
        # wind-down: answer every pending request
        r = Run.env_step(self)
        if r:
            return True
        for c in sorted(self.pending):
            if self.fire(['reply', c]):
                return True
        return False

    def finish(self):
        stuck = sorted(c for c in self.state if self.state[c] in ('acq', 'rel'))
        held = sorted(self.conn_of)
        pend = sorted(r for r, (t, x) in self.rel_tasks.items() if not t.done())
        # every client task is over or idle: a connection still recorded as handed out was never given back
        self.log(e='end', stuck=stuck, pending=pend, held=held)
        self.dirty = False


FLOWS = ('ok', 'cut', 'refuse', 'early', 'nodl')
PROXY_FLOWS = FLOWS + ('direct', 'poolctx')


class ProxySessRun(SessRun):
    """The same clients through wpull.proxy.client.HTTPProxyConnectionPool (--http-proxy / --https-proxy)."""
    mode = 'proxy-session'
    proxy = True

    def __init__(self, N, H, M, tls_hosts=(), **kw):
        SessRun.__init__(self, N, H, M, **kw)
        self.tls_hosts = tuple(tls_hosts)



def random_run(rng, N, H, M, uses, cls=None, flows=FLOWS, **kw):
    cls = cls or SessRun
    budgets = dict(cancel=rng.choice([0, 0, 1]), kill=rng.choice([0, 1]), flows=flows)
    stop_after = rng.randrange(4, 30)

    def chooser(run, fired):
        if run.steps > stop_after:
            return None
        en = run.enabled_list(budgets)
        if not en:
            return None
        if fired and rng.random() < 0.5:
            return ['go']
        return rng.choice(en)

    r = cls(N, H, M, uses=uses, **kw)
    r.chooser = chooser
    r.execute()
    return r


def scenarios(quick, rng):
    out = []
    # every flow alone, and every ordered pair of flows of two clients on one host with one connection
    for f in FLOWS:
        r = SessRun(1, 1, 1, script=[['start', 1, 1, f], ['go'], ['reply', 1], ['go'], ['start', 1, 1, 'ok'], ['go']], uses=2)
        r.execute()
        out.append(r)
    for f1 in FLOWS:
        for f2 in FLOWS:
            for M in (1, 2):
                r = SessRun(2, 1, M, script=[['start', 1, 1, f1], ['start', 2, 1, f2], ['go'], ['reply', 1], ['go'],
                                             ['reply', 2], ['go'], ['start', 2, 1, 'ok'], ['go']], uses=2)
                r.execute()
                out.append(r)
    cfgs = [(3, 1, 1), (3, 2, 1), (3, 1, 2), (2, 1, 1)]
    for i in range(40 if quick else 600):
        N, H, M = cfgs[i % len(cfgs)]
        out.append(random_run(rng, N, H, M, rng.randrange(1, 4)))
    # through the HTTP proxy pool
    for f in PROXY_FLOWS:
        r = ProxySessRun(1, 1, 1, script=[['start', 1, 1, f], ['go'], ['reply', 1], ['go'], ['start', 1, 1, 'ok'], ['go'],
                                          ['reply', 1], ['go']], uses=2)
        r.execute()
        out.append(r)
        for f2 in (('ok', 'refuse', 'tunnel403') if quick else PROXY_FLOWS):
            r = ProxySessRun(2, 1, 1, script=[['start', 1, 1, f], ['start', 2, 1, f2], ['go'], ['reply', 1], ['go'],
                                              ['reply', 2], ['go'], ['start', 2, 1, 'ok'], ['go']], uses=2)
            r.execute()
            out.append(r)
    # https through the proxy: the CONNECT is refused / cut / the proxy cannot be reached
    for f in TUNNEL_FLOWS:
        for f2 in TUNNEL_FLOWS:
            r = ProxySessRun(2, 1, 1, tls_hosts=(1,), uses=2,
                             script=[['start', 1, 1, f], ['start', 2, 1, f2], ['go'], ['reply', 1], ['go'], ['reply', 2], ['go'],
                                     ['start', 2, 1, f], ['go'], ['reply', 2], ['go']])
            r.execute()
            out.append(r)
    for i in range(20 if quick else 300):
        N, H, M = cfgs[i % len(cfgs)]
        out.append(random_run(rng, N, H, M, rng.randrange(1, 4), cls=ProxySessRun, flows=PROXY_FLOWS,
                              tls_hosts=((H,) if i % 2 else ())))
    return out


def replay(rp):
    if rp.get('mode') == 'proxy-session':
        r = ProxySessRun(rp['N'], rp['H'], rp['M'], tls_hosts=rp.get('tls_hosts', ()), uses=rp['uses'], replay=rp['schedule'])
    else:
        r = SessRun(rp['N'], rp['H'], rp['M'], uses=rp['uses'], replay=rp['schedule'])
    r.execute()
    return r
