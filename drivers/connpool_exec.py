"""Execute the real wpull ConnectionPool / HostPool under the virtual loop with an environment script.

N client tasks use one real ConnectionPool over H host keys (per-host limit M, global limit max_count).  All
nondeterminism comes from the environment; the pool, HostPool, HappyEyeballsConnection, asyncio.Lock and
asyncio.Condition are the real code.  Observation is done from OUTSIDE: the clients call the public coroutines and
log around them, release() is wrapped in a subclass to see when a no_wait_release task is over, the connection
factory / resolver are doubles, and after every event the pool is projected to
    p[k] = {pr: pool present, rd: idle connection ids, bz: checked-out ids, w: _host_pool_waiters, lk: pool lock held}
    dd   = ids of pooled / held connections whose closed() is true,   gl = _host_pools_lock held.

Environment commands (the only nondeterminism):
  ['start', c, k]         client c calls pool.acquire(host k)
  ['connect', c, ok]      client c (holding a closed connection) resets + connects it; ok=0: the connect fails
  ['kill', x]             the remote end closes connection x (idle or checked out)
  ['fin', c, mode, cl]    client c gives its connection back: mode 'a' = yield from pool.release(), 'n' =
                          pool.no_wait_release(); cl=1: it closes the connection first (session abort)
  ['cancel', c]           the task of client c is cancelled (only while c is inside acquire() / release())
separators in scripts:  ['go'] run the loop until it has nothing left to do;  ['tick'] run ONE loop iteration
(commands between two separators are delivered together, in order).

Events logged (each with the projection after it): start, got, acqx, connect, kill, rel, reld, relx, rtask, cancel,
quiet (the loop has nothing left to run), end (final quiescence), crash.
Every run records its exact schedule [(loop iteration, phase, command)]; Run(replay=schedule) repeats it.
"""
import asyncio
import signal
import socket
import time

from harness import vloop
from wpull.errors import NetworkError, ConnectionRefused
from wpull.network.dns import ResolveResult, AddressInfo
from wpull.network.pool import ConnectionPool


class Livelock(BaseException):
    pass


_started = [0.0]


def _alarm(signum, frame):
    # the timer counts the CPU time of the whole process (TLC reader threads included): only the time of the
    # thread that executes the code under test decides
    if time.thread_time() - _started[0] > Run.watchdog_s:
        raise Livelock()
    signal.setitimer(signal.ITIMER_VIRTUAL, Run.watchdog_s / 2)


class SimpleConn(object):
    """The innermost connection double: what ConnectionPool's connection_factory returns."""
    def __init__(self, run, address, hostname=None, **kw):
        self.run = run
        self.address = address
        self.hostname = hostname
        self.open = False
        self.key = None
        self.proxied = False
        self.tunneled = False
        self.ssl = False

    def closed(self):
        return not self.open

    def close(self):
        self.open = False

    def reset(self):
        self.open = False

    @asyncio.coroutine
    def connect(self):
        if self.run.connect_fail:
            self.run.connect_fail = False
            raise ConnectionRefused(111, 'refused')
        self.open = True
        return None
        yield  # pragma: no cover

    def remote_close(self):
        self.open = False


class SimpleResolver(object):
    @asyncio.coroutine
    def resolve(self, host):
        n = int(host[1:].split('.')[0])
        return ResolveResult([AddressInfo('10.0.0.%d' % n, socket.AF_INET, None, None)])
        yield  # pragma: no cover


HPAD = 3


def host_of(k):
    return 'h%d.test' % k


class ClientBoom(Exception):
    """Raised by a client inside `with pool.session(...)`."""


class _NotStarted(object):
    """Stand-in for an entry of the pool's release bookkeeping that is not a task (observation must stay total)."""
    def __init__(self, obj):
        self.obj = obj

    def done(self):
        return False

    def cancelled(self):
        return False

    def add_done_callback(self, cb):
        pass


class Run(object):
    watchdog_s = 15.0      # CPU seconds of the executing thread (a run normally takes milliseconds)
    DEFAULTS = dict(c=0, k=0, x=0, ok=False, mode='', cl=False, r=0, st='', why='')

    def __init__(self, N, H, M, maxcount=100, script=(), uses=2, fallback=True, timed=None, replay=None,
                 max_steps=4000):
        self.N, self.H, self.M, self.maxcount, self.uses = N, H, M, maxcount, uses
        self.script = [list(e) for e in script]
        self.wait = 'go'
        self.fallback = fallback
        self.timed = {int(k): v for k, v in (timed or {}).items()}
        # replay: ordered list of [loop iteration, phase, command]; exact when nothing else is injected, otherwise
        # the remaining commands keep their order and batches (loose replay)
        self.replay = None if replay is None else [[int(t), ph, list(e)] for (t, ph, e) in replay]
        self.ev = []
        self.fired = []
        self.schedule = []
        self.frozen = False
        self.chooser = None        # chooser(run, fired_in_batch) -> command | ['go'] | None   (at quiescent points)
        self.tick_chooser = None   # tick_chooser(run) -> command | None                        (before each iteration)
        self.ticks = 0
        self.steps = 0
        self.max_steps = max_steps
        self.connect_fail = False
        self.ctx = False        # True: connections are taken through ConnectionPool.session() (a context manager)
        self.conn_ids = {}      # id -> connection object
        self.state = {c: 'idle' for c in range(1, N + 1)}   # idle | acq | use | rel | done | cancelled | error
        self.nuse = {c: 0 for c in range(1, N + 1)}
        self.key_of = {}
        self.conn_of = {}
        self.tasks = {}
        self.wake = {}
        self.rel_tasks = {}     # r -> (task, connection)
        self.rel_of = {}
        self.rel_x = {}
        self.rel_ended = set()
        self.nrel = 0
        self.n_cancel = self.n_kill = self.n_fail = 0
        self.dirty = True
        self.outcome = None
        self.timed_fired = []
        self.exhausted = False

    # ------------------------------------------------------------------ projection
    def keyt(self, k):
        return (host_of(k), 80, False)

    def cid(self, conn):
        for i, o in self.conn_ids.items():
            if o is conn:
                return i
        self._gc_ids()
        i = 1
        while i in self.conn_ids:
            i += 1
        self.conn_ids[i] = conn
        return i

    def _gc_ids(self):
        live = set()
        for hp in self.pool.host_pools.values():
            for x in tuple(hp.ready) + tuple(hp.busy):
                live.add(id(x))
        for x in self.conn_of.values():
            live.add(id(x))
        for (t, x) in self.rel_tasks.values():
            if not t.done():
                live.add(id(x))
        for i in [i for i, o in self.conn_ids.items() if id(o) not in live]:
            del self.conn_ids[i]

    def proj(self):
        self._gc_ids()
        pool = self.pool
        ps = []
        dead = set()
        for k in range(1, max(self.H, HPAD) + 1):     # padded: traces with different H share a TLC batch
            hp = pool.host_pools.get(self.keyt(k))
            if hp is None:
                ps.append({'pr': False, 'rd': [], 'bz': [], 'w': 0, 'lk': False, 'wneg': False})
                continue
            bz = sorted(self.cid(x) for x in hp.busy)
            rd = sorted(self.cid(x) for x in hp.ready)
            for x in tuple(hp.ready) + tuple(hp.busy):
                # (dead: what the connection says of itself, or what the environment knows - it ended that connection)
                if x.closed() or self.cid(x) in getattr(self, 'ended_by_peer', ()):
                    dead.add(self.cid(x))
            w = getattr(pool, '_host_pool_waiters', {}).get(self.keyt(k), 0)
            lk = bool(getattr(getattr(hp, '_lock', None), 'locked', lambda: False)())
            ps.append({'pr': True, 'rd': rd, 'bz': bz, 'w': max(w, 0), 'lk': lk, 'wneg': w < 0})
        for x in self.conn_of.values():
            if x.closed() or self.cid(x) in getattr(self, 'ended_by_peer', ()):
                dead.add(self.cid(x))
        gl = bool(getattr(getattr(pool, '_host_pools_lock', None), 'locked', lambda: False)())
        return {'p': ps, 'dd': sorted(dead), 'gl': gl}

    def log(self, **kw):
        if self.frozen:
            return
        for f, v in self.DEFAULTS.items():
            kw.setdefault(f, v)
        kw.update(self.proj())
        self.ev.append(kw)
        self.dirty = True

    # ------------------------------------------------------------------ the system under test + clients
    def make_pool(self, cls):
        run = self
        return cls(max_host_count=self.M, resolver=SimpleResolver(),
                   connection_factory=lambda address, hostname=None, **kw: SimpleConn(run, address, hostname),
                   ssl_connection_factory=lambda address, hostname=None, **kw: SimpleConn(run, address, hostname),
                   max_count=self.maxcount)

    def build(self):
        run = self

        class TP(ConnectionPool):
            """Observation only: tells when a no_wait_release task is over (release() is the task's coroutine)."""
            @asyncio.coroutine
            def release(self, connection):
                r = run.rel_of.pop(id(connection), 0)
                try:
                    yield from ConnectionPool.release(self, connection)
                except asyncio.CancelledError:
                    run._rtask_end(r, 'cancelled')
                    raise
                except Exception:
                    run._rtask_end(r, 'error')
                    raise
                run._rtask_end(r, 'done')

        self.pool = self.make_pool(TP)

    def _wait_cmd(self, c):
        fut = asyncio.get_event_loop().create_future()
        self.wake[c] = fut
        return fut

    def track_release_task(self, r, x, conn, before):
        new = [t for t in getattr(self.pool, '_release_tasks', ()) if t not in before]
        task = new[0] if new else None
        if task is not None and not hasattr(task, 'add_done_callback'):
            task = _NotStarted(task)      # something that is not a task was queued: the release has not even begun
        if task is not None:
            self.rel_tasks[r] = (task, conn)
            task.add_done_callback(lambda t, r=r: self._rtask_done(r, t))

    @asyncio.coroutine
    def client(self, c):
        pool = self.pool
        while True:
            cmd = yield from self._wait_cmd(c)
            if cmd[0] != 'start':
                return
            k = cmd[2]
            self.state[c] = 'acq'
            self.key_of[c] = k
            self.log(e='start', c=c, k=k)
            sess = None
            try:
                if self.ctx:
                    sess = yield from pool.session(host_of(k), 80)
                    conn = sess.__enter__()
                else:
                    conn = yield from pool.acquire(host_of(k), 80)
            except asyncio.CancelledError:
                self.state[c] = 'cancelled'
                self.log(e='acqx', c=c, k=k, why='cancel')
                return
            except Exception as e:  # noqa
                self.state[c] = 'error'
                self.log(e='acqx', c=c, k=k, why='error', detail=type(e).__name__)
                return
            self.conn_of[c] = conn
            self.state[c] = 'use'
            self.log(e='got', c=c, k=k, x=self.cid(conn))
            while True:
                cmd = yield from self._wait_cmd(c)
                if cmd[0] == 'connect':
                    ok = bool(cmd[2])
                    self.connect_fail = not ok
                    try:
                        if conn.closed():
                            conn.reset()
                            yield from conn.connect()
                    except NetworkError:
                        pass
                    self.connect_fail = False
                    self.log(e='connect', c=c, x=self.cid(conn), ok=ok)
                elif cmd[0] == 'fin':
                    break
                else:
                    return
            mode, cl = cmd[2], bool(cmd[3])
            x = self.cid(conn)
            if cl:
                conn.close()
            cl = bool(conn.closed())      # logged: is the connection closed when it is given back
            del self.conn_of[c]
            self.nuse[c] += 1
            if mode in ('n', 'x') or sess is not None:
                self.nrel += 1
                r = self.nrel
                before = set(getattr(pool, '_release_tasks', ()))
                self.rel_of[id(conn)] = r
                self.rel_x[r] = x
                if sess is not None:
                    # leaving the with block: normally, or (mode 'x') because its body raised
                    try:
                        if mode == 'x':
                            sess.__exit__(ClientBoom, ClientBoom('body failed'), None)
                        else:
                            sess.__exit__(None, None, None)
                    except ClientBoom:
                        pass
                else:
                    pool.no_wait_release(conn)
                self.track_release_task(r, x, conn, before)
                self.state[c] = 'idle' if self.nuse[c] < self.uses else 'done'
                self.log(e='rel', c=c, x=x, mode='n', cl=cl, r=r)
            else:
                self.state[c] = 'rel'
                self.log(e='rel', c=c, x=x, mode='a', cl=cl, r=0)
                try:
                    yield from pool.release(conn)
                except asyncio.CancelledError:
                    self.state[c] = 'cancelled'
                    self.log(e='relx', c=c, x=x, why='cancel')
                    return
                except Exception as e:  # noqa
                    self.state[c] = 'error'
                    self.log(e='relx', c=c, x=x, why='error', detail=type(e).__name__)
                    return
                self.state[c] = 'idle' if self.nuse[c] < self.uses else 'done'
                self.log(e='reld', c=c, x=x)
            if self.state[c] == 'done':
                return

    def _rtask_end(self, r, st):
        if r and r not in self.rel_ended:
            self.rel_ended.add(r)
            self.log(e='rtask', r=r, x=self.rel_x[r], st=st)

    def _rtask_done(self, r, t):
        # fallback for a task that never ran (cancelled before its first step)
        if t.cancelled():
            st = 'cancelled'
        elif t.exception() is not None:
            st = 'error'
        else:
            st = 'done'
        self._rtask_end(r, st)

    # ------------------------------------------------------------------ environment
    def enabled(self, e):
        k = e[0]
        if k == 'start':
            return self.state.get(e[1]) == 'idle' and self.nuse[e[1]] < self.uses and 1 <= e[2] <= self.H \
                and self._waiting(e[1])
        if k == 'connect':
            c = e[1]
            return self.state.get(c) == 'use' and self._waiting(c) and self.conn_of[c].closed()
        if k == 'fin':
            return self.state.get(e[1]) == 'use' and self._waiting(e[1])
        if k == 'kill':
            x = self.conn_ids.get(e[1])
            return x is not None and not x.closed()
        if k == 'cancel':
            c = e[1]
            return self.state.get(c) in ('acq', 'rel') and not self.tasks[c].done()
        return False

    def _waiting(self, c):
        f = self.wake.get(c)
        return f is not None and not f.done()

    def fire(self, e, phase='Q'):
        k = e[0]
        if not self.enabled(e):
            return False
        self.fired.append(list(e))
        self.schedule.append([self.ticks, phase, list(e)])
        if k in ('start', 'connect', 'fin'):
            if k == 'connect' and not e[2]:
                self.n_fail += 1
            self.wake[e[1]].set_result(list(e))
        elif k == 'kill':
            self.n_kill += 1
            conn = self.conn_ids[e[1]]
            # the remote end closes: the innermost connection reports closed() from now on
            inner = getattr(conn, '_active_connection', None)
            if inner is not None:
                inner.remote_close()
            self.log(e='kill', x=e[1])
        elif k == 'cancel':
            self.n_cancel += 1
            self.log(e='cancel', c=e[1])
            self.tasks[e[1]].cancel()
        return True

    def enabled_list(self, b):
        """All environment commands enabled now.  b: budgets dict(cancel, kill, fail, close, modes, keys)."""
        out = []
        for c in range(1, self.N + 1):
            st = self.state[c]
            if st == 'idle' and self.nuse[c] < self.uses and self._waiting(c):
                for k in range(1, self.H + 1):
                    if b.get('keys') is None or k in b['keys'].get(c, range(1, self.H + 1)):
                        out.append(['start', c, k])
            elif st == 'use' and self._waiting(c):
                if self.conn_of[c].closed():
                    if b.get('connect', 1):
                        out.append(['connect', c, 1])
                    if b.get('fail', 0) > self.n_fail:
                        out.append(['connect', c, 0])
                for mode in b.get('modes', 'n'):
                    out.append(['fin', c, mode, 0])
                    if b.get('close', 0) and not self.conn_of[c].closed():
                        out.append(['fin', c, mode, 1])
            elif st in ('acq', 'rel') and b.get('cancel', 0) > self.n_cancel and not self.tasks[c].done():
                out.append(['cancel', c])
        if b.get('kill', 0) > self.n_kill:
            for i, x in sorted(self.conn_ids.items()):
                if not x.closed():
                    out.append(['kill', i])
        return out

    def _next_batch(self):
        cmds = []
        sep = 'go'
        while self.script:
            e = self.script.pop(0)
            if e[0] in ('go', 'tick'):
                sep = e[0]
                if cmds:
                    break
                continue
            cmds.append(e)
        return cmds, sep

    def tick(self):
        self.ticks += 1
        if self.replay is not None:
            while self.replay and self.replay[0][1] == 'T' and self.replay[0][0] == self.ticks:
                self.fire(self.replay.pop(0)[2], 'T')
        for e in self.timed.pop(self.ticks, []):
            if self.fire(list(e), 'T'):
                self.timed_fired.append((self.ticks, list(e)))
        if self.replay is not None:
            return
        if self.tick_chooser is not None and self.ticks > 1:
            e = self.tick_chooser(self)
            if e is not None:
                self.fire(e, 'T')
        elif self.wait == 'tick' and self.script:
            cmds, self.wait = self._next_batch()
            for e in cmds:
                self.fire(e, 'T')

    def env_step(self):
        self.steps += 1
        if self.steps > self.max_steps:
            return False
        if self.dirty:
            self.log(e='quiet')
            self.dirty = False
        fired = False
        if self.replay is not None:
            while self.replay and not fired:
                head = self.replay[0][:2]
                while self.replay and self.replay[0][:2] == head:
                    if self.fire(self.replay.pop(0)[2], 'Q'):
                        fired = True
            if fired:
                return True
        if self.replay is not None:
            pass
        elif self.chooser is not None and not self.exhausted:
            while True:
                e = self.chooser(self, fired)
                if e is None:
                    if not fired:
                        self.exhausted = True
                    break
                if e[0] == 'go':
                    break
                if self.fire(e):
                    fired = True
            if fired:
                return True
        else:
            while self.script and not fired:
                cmds, self.wait = self._next_batch()
                for e in cmds:
                    if self.fire(e):
                        fired = True
            if fired:
                return True
        # script / chooser exhausted: wind the run down (everybody gives back what he holds)
        if self.fallback:
            for c in sorted(self.state):
                if self.state[c] == 'use' and self._waiting(c):
                    self.fire(['fin', c, 'n', 0])
                    return True
        return False

    def finish(self):
        stuck = sorted(c for c in self.state if self.state[c] in ('acq', 'rel'))
        pend = sorted(r for r, (t, x) in self.rel_tasks.items() if not t.done())
        self.log(e='end', stuck=stuck, pending=pend)
        self.dirty = False

    @asyncio.coroutine
    def main(self):
        loop = asyncio.get_event_loop()
        for c in range(1, self.N + 1):
            self.tasks[c] = loop.create_task(self.client(c))
        self.forever = loop.create_future()
        yield from self.forever

    def execute(self):
        self.build()
        old = signal.signal(signal.SIGVTALRM, _alarm)
        _started[0] = time.thread_time()
        signal.setitimer(signal.ITIMER_VIRTUAL, self.watchdog_s)
        try:
            try:
                kind, val = vloop.run(self.main, self.env_step, tick_hook=self.tick, before_cleanup=self._end)
            except Livelock:
                kind, val = 'livelock', None
        finally:
            signal.setitimer(signal.ITIMER_VIRTUAL, 0)
            signal.signal(signal.SIGVTALRM, old)
        self.outcome = kind
        # what is not needed after the run goes away (thousands of runs are kept until validation)
        self.pool = self.http = self.net = None
        self.tasks = {}
        self.wake = {}
        self.rel_tasks = {}
        self.conn_ids = {}
        self.conn_of = {}
        self.pending = {}
        if kind != 'hang':
            # main() never returns by itself: anything else than quiescence is a failure of the code under test
            last = self.ev[-1] if self.ev else {'p': [], 'dd': [], 'gl': False}
            e = dict(self.DEFAULTS)
            e.update(e='crash', kind=kind, detail=repr(val)[:200], p=last['p'], dd=last['dd'], gl=last['gl'])
            self.ev.append(e)
        return self.ev

    def _end(self):
        if not self.frozen:
            try:
                self.finish()
            finally:
                self.frozen = True

    def max_conn(self):
        m = 0
        for e in self.ev:
            m = max([m, e['x']] + e['dd'] + [x for q in e['p'] for x in q['rd'] + q['bz']])
        return m

    def max_rel(self):
        return max([0] + [e['r'] for e in self.ev])


def run_script(N, H, M, script, **kw):
    r = Run(N, H, M, script=script, **kw)
    r.execute()
    return r
