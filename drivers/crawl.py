"""C01 / C03 / C18 / C20: end-to-end crawls of scripted sites by the real wpull application, judged by TLC.

  1. design check: Crawl.tla (table + producer + workers + visit loop + robots + crash/restart) for small sites
  2. scenarios: catalogue per property (drivers/crawl_scen.py) + TLC-enumerated site graphs; for concurrency >= 2
     every order in which the server can answer concurrent requests (stateless DFS on the real code, bounded);
     for C03 every crash point of the run (os._exit in a forked child after each recorded event) followed by a
     second run of the same command on the same database
  3. every recorded trace is validated by TLC with CrawlMon.tla (property clauses on observed events)
"""
import json
import urllib.parse
import os
import shutil
import sys
import tempfile
import traceback
from concurrent.futures import ProcessPoolExecutor
import multiprocessing

from harness import tlc
from drivers import crawl_scen as cs

# clause number (CrawlMon.tla) -> (property, name)
CLAUSES = {
    10: ('C01', 'ExitCodeZero'), 11: ('C01', 'EveryReachableRequested'), 12: ('C01', 'RequestedOnce'),
    13: ('C01', 'AllRowsFinal'), 14: ('C01', 'Terminates'), 15: ('C01', 'RedirectTargetRequestedAgain'),
    20: ('C02', 'RequestOffSite'), 21: ('C02', 'RequestOutOfScope'), 22: ('C02', 'RobotsOfUnvisitedOrigin'),
    23: ('C02', 'RobotsRedirectTargetOutOfScope'),
    30: ('C20', 'RobotsFetchedWhenOff'), 31: ('C20', 'RobotsFetchedAgain'), 32: ('C20', 'PageBeforeRobots'),
    33: ('C20', 'DisallowedRequested'), 34: ('C20', 'NofollowLinkFollowed'),
    40: ('C18', 'VisitRequestBound'), 41: ('C18', 'RetriedAfterTriesExhausted'), 42: ('C18', 'EndedWithPendingWork'),
    43: ('C18', 'ErrorRowLeftBelowTries'), 44: ('C18', 'TryCountBeyondLimit'),
    50: ('C03', 'DoneRefetched'), 51: ('C03', 'StuckInProgress'), 52: ('C03', 'RowLost'), 53: ('C03', 'NeverRequested'),
    54: ('C03', 'RowsNotFinalAfterResume'), 55: ('C03', 'RefetchedInResumedRun'),
}
# a hang is a termination failure of whichever property the scenario belongs to
HANG_PROP = {'C01': 'C01', 'C03': 'C03', 'C18': 'C18', 'C20': 'C20'}


def conv_events(ev):
    out = []
    for e in ev:
        e = dict(e)
        k = e['e']
        if k == 'req':
            e = {x: e.get(x, False) for x in ('e', 'n', 'u', 'kind', 'h', 'item', 'rj')}
        elif k == 'resp':
            e = {x: e[x] for x in ('e', 'n', 'u', 'cls', 'h')}
        elif k == 'exit':
            c = e.get('code', 0)
            e = {'e': 'exit', 'code': c if isinstance(c, int) and c >= 0 else 99}
        elif k in ('rows', 'ddl', 'fatal'):
            continue        # ('ddl': schema statements - crash points only; 'fatal': where the fatal error was raised)
        out.append(e)
    return out


def _new_run(scn, db, d, **kw):
    """The executor of a scenario: an HTTP site, or (scn['ftp']) the scripted FTP server."""
    from drivers.crawl_exec import CrawlRun
    if scn.get('ftp'):
        from drivers import errorflow_exec as X
        f = scn['ftp']
        ftp = dict(files={k: v.encode() for k, v in f['files'].items()}, dirs=tuple(f['dirs']),
                   listings={k: v.encode('latin-1') for k, v in f['listings'].items()})
        if f.get('mlsd'):          # directories for which the server answers MLSD (RFC 3659), which the client tries first
            ftp['mlsd'] = {k: v.encode('latin-1') for k, v in f['mlsd'].items()}
        kw.pop('chooser', None)
        r = X.HRun(dict(hosts={'a.test': X.A_IP}, urls=[], robots={}), X.ftp_argv(db, d, ['ftp://f.test/']), None, ftp=ftp,
                   concurrency=scn['N'], db_path=db, cwd=d, **kw)
        r._uidmap = {'ftp://f.test' + u['path']: u['id'] for u in scn['urls']}
        # (the table holds the URL, in which a name is percent-encoded; the server sees the name)
        r._uidmap.update({'ftp://f.test' + urllib.parse.quote(u['path'], safe='/'): u['id'] for u in scn['urls']})
        r.count_ftp = True          # LIST / RETR are logged as the requests of the URLs they fetch
        return r
    return CrawlRun(cs.site_desc(scn), cs.argv(scn, db, d), concurrency=scn['N'], db_path=db, cwd=d, **kw)


# ------------------------------------------------------------------ jobs (run in forked worker processes)
def _exec_plain(scn, order_prefix):
    """One complete crawl; order_prefix = choice indices for which pending request is answered next."""
    from drivers.crawl_exec import CrawlRun, read_rows
    d = tempfile.mkdtemp(prefix='crawl_')
    try:
        db = os.path.join(d, 't.db')
        choices = []

        def chooser(run):
            n = len(run.pending)
            i = len(choices)
            idx = order_prefix[i] if i < len(order_prefix) else 0
            if idx >= n:
                idx = 0
            choices.append((idx, n))
            return idx

        r = _new_run(scn, db, d, chooser=chooser)
        r.stmt_points = bool(scn.get('stmt_points'))
        r.split_answers = bool(scn.get('split'))
        r.max_requests = max(400, 3 * len(scn['urls']))
        ev = r.execute()
        rows = read_rows(db, r)
        return dict(ev=ev, rows=rows, choices=choices, outcome=r.outcome)
    finally:
        shutil.rmtree(d, ignore_errors=True)


def _exec_crash(scn, crash_at, kind='kill'):
    """Run 1 in a forked child that dies at event number crash_at - killed, or (kind 'fatal') of a fatal local error
    reported by the table operation logged there; run 2 (same command, same database)."""
    from drivers.crawl_exec import CrawlRun, read_rows
    d = tempfile.mkdtemp(prefix='crash_')
    try:
        db = os.path.join(d, 't.db')
        tf = os.path.join(d, 'trace.ndjson')
        pid = os.fork()
        if pid == 0:
            try:
                r = _new_run(scn, db, d, trace_file=tf, crash_at=crash_at, run_no=1)
                r.crash_kind = kind
                r.max_requests = max(400, 3 * len(scn['urls']))
                r.stmt_points = bool(scn.get('stmt_points'))
                r.execute()
            except BaseException:
                traceback.print_exc()
            finally:
                os._exit(0)
        os.waitpid(pid, 0)
        ev1 = [json.loads(x) for x in open(tf)] if os.path.exists(tf) else []
        crashed = bool(ev1) and ev1[-1].get('e') == 'crash'
        if not crashed:
            return dict(ev=ev1, rows=[], crashed=False, outcome='nocrash')
        r2 = _new_run(scn, db, d, run_no=2)
        r2.max_requests = max(400, 3 * len(scn['urls']))
        r2.stmt_points = bool(scn.get('stmt_points'))
        # what the database holds after the kill (the last commit may not have had its event logged)
        n = len(scn['urls'])
        sync = {'e': 'dbsync', 'st': ['none'] * n, 'tr': [0] * n, 'lv': [0] * n}
        try:
            for row in read_rows(db, r2):
                if 1 <= row[0] <= n:
                    sync['st'][row[0] - 1], sync['tr'][row[0] - 1], sync['lv'][row[0] - 1] = row[1], row[2], row[3]
        except Exception:
            pass    # no table yet
        ev1.append(sync)
        ev2 = r2.execute()
        try:
            rows = read_rows(db, r2)
        except Exception:
            rows = []       # a database the resumed run could not even use (the run's own outcome says so)
        return dict(ev=ev1 + ev2, rows=rows, crashed=True, outcome=r2.outcome)
    finally:
        shutil.rmtree(d, ignore_errors=True)


def job(j):
    from harness import wpull_compat  # noqa
    try:
        devnull = os.open(os.devnull, os.O_WRONLY)
        os.dup2(devnull, 2)     # wpull logs fetch errors to stderr even with -q
        if j['mode'] == 'plain':
            return _exec_plain(j['scn'], j.get('order', []))
        return _exec_crash(j['scn'], j['crash_at'], j.get('kind', 'kill'))
    except BaseException as e:
        return dict(error='%s: %s\n%s' % (type(e).__name__, e, traceback.format_exc()))


_WARM = []


def run_jobs(jobs, procs=8):
    if not jobs:
        return []
    if not _WARM:
        # import the application once in the parent so that forked workers start warm
        import wpull.application.builder  # noqa
        import wpull.application.options  # noqa
        import drivers.crawl_exec  # noqa
        _WARM.append(1)
    ctx = multiprocessing.get_context('fork')
    with ProcessPoolExecutor(max_workers=procs, mp_context=ctx) as ex:
        return list(ex.map(job, jobs, chunksize=1))


# ------------------------------------------------------------------ exploration of answer orders
def explore_many(scns, limit):
    """For each scenario: all orders in which the server can answer concurrent requests (stateless DFS over choice
    prefixes on the real application, bounded by `limit` runs per scenario).  The frontiers of all scenarios are
    executed together, wave by wave.  Returns {name: ([(prefix, outcome)], exhaustive)}."""
    state = {s['name']: dict(scn=s, frontier=[[]], seen=set(), results=[]) for s in scns}
    while True:
        wave = []
        for st in state.values():
            room = limit - len(st['results'])
            take = st['frontier'][:max(0, room)]
            st['frontier'] = st['frontier'][len(take):]
            wave += [(st, p) for p in take]
        if not wave:
            break
        outs = run_jobs([dict(mode='plain', scn=st['scn'], order=p) for st, p in wave])
        for (st, p), o in zip(wave, outs):
            if 'error' in o:
                raise RuntimeError(o['error'])
            st['results'].append((p, o))
            ch = o['choices']
            for dpt in range(len(p), len(ch)):
                for alt in range(1, ch[dpt][1]):
                    q = [c[0] for c in ch[:dpt]] + [alt]
                    if tuple(q) not in st['seen']:
                        st['seen'].add(tuple(q))
                        st['frontier'].append(q)
    return {n: (st['results'], not st['frontier']) for n, st in state.items()}


def explore_orders(scn, limit):
    r = explore_many([scn], limit)[scn['name']]
    return r


def run_catalogue(chk, cat, limit):
    """N = 1 scenarios run once; N >= 2 scenarios with every answer order (bounded)."""
    traces = []
    single = [s for s in cat if s['N'] == 1]
    multi = [s for s in cat if s['N'] > 1]
    for s, o in zip(single, run_jobs([dict(mode='plain', scn=s) for s in single])):
        traces.append((s, 'catalogue', o))
    res = explore_many(multi, limit)
    for s in multi:
        rs, complete = res[s['name']]
        for p, o in rs:
            traces.append((s, 'orders', o))
        chk.extra.setdefault('order_exploration', {})[s['name']] = dict(runs=len(rs), exhaustive=complete)
    return traces


# ------------------------------------------------------------------ check
def design(chk, quick):
    pass   # filled in by drivers/crawl_design.py when present (Crawl.tla); kept separate to keep this file readable


def run(chk):
    quick = chk.tier == 'quick'
    pid = chk.pid
    try:
        from drivers import crawl_design
        crawl_design.design(chk, quick)
    except ImportError:
        chk.note('Crawl.tla design check not available in this build')
    traces = []   # (scn, origin, result)
    if pid in ('C01',):
        traces += run_catalogue(chk, cs.c01_catalogue(quick), 40 if quick else 400)
    elif pid == 'C03':
        for scn in cs.c03_catalogue(quick):
            base = run_jobs([dict(mode='plain', scn=scn)])[0]
            if 'error' in base:
                raise RuntimeError(base['error'])
            npoints = len(base['ev'])
            if scn.get('crash_window') == 'startup':
                # only the start-up phase is of interest: every event up to (and just after) the first request
                first = next((i for i, e in enumerate(base['ev']) if e['e'] == 'req'), npoints - 1)
                npoints = min(npoints, first + 3)
            jobs = [dict(mode='crash', scn=scn, crash_at=k) for k in range(1, npoints + 1)]
            if scn.get('fatal') and not scn.get('ftp'):
                # the same points once more, the process dying of a fatal local error there (table operations only)
                jobs += [dict(mode='crash', scn=scn, crash_at=k, kind='fatal') for k in range(1, npoints + 1)
                         if base['ev'][k - 1]['e'] == 'tx']
            outs = run_jobs(jobs)
            n = 0
            for o in outs:
                if 'error' in o:
                    raise RuntimeError(o['error'])
                if o.get('crashed'):
                    traces.append((scn, 'crash', o))
                    n += 1
            chk.extra.setdefault('crash_points', {})[scn['name']] = dict(points=npoints, crashed_runs=n)
    elif pid == 'C18':
        cat = cs.c18_catalogue(quick)
        outs = run_jobs([dict(mode='plain', scn=s) for s in cat])
        traces += [(s, 'catalogue', o) for s, o in zip(cat, outs)]
    elif pid == 'C20':
        traces += run_catalogue(chk, cs.c20_catalogue(quick), 30 if quick else 300)
    judge(chk, traces)


def judge(chk, traces):
    pid = chk.pid
    batch = []
    keep = []
    seen = set()
    for scn, origin, o in traces:
        if 'error' in o:
            raise RuntimeError(o['error'])
        chk.case()
        hdr = cs.header(scn)
        hdr['ev'] = conv_events(o['ev'])
        hdr['focus'] = sorted(c for c, (p_, _n) in CLAUSES.items() if p_ == pid or c == 14)
        key = json.dumps(hdr, sort_keys=True)
        if key in seen:
            continue
        seen.add(key)
        batch.append(hdr)
        keep.append((scn, origin, o))
    cfg = 'SPECIFICATION MSpec\nCONSTRAINT Record\nPOSTCONDITION Post\nCHECK_DEADLOCK FALSE\n'
    # chunks bounded by the number of events (one JSON file per TLC run)
    verdicts = []
    part, nev = [], 0
    parts = []
    for h in batch:
        if part and (nev + len(h['ev']) > 150000 or len(part) >= 400):
            parts.append(part)
            part, nev = [], 0
        part.append(h)
        nev += len(h['ev'])
    if part:
        parts.append(part)
    from concurrent.futures import ThreadPoolExecutor
    with ThreadPoolExecutor(max_workers=4) as ex:
        outs = list(ex.map(lambda p: tlc.validate_batch('CrawlMon', cfg, p, timeout=2400, heap='4g'), parts))
    for v, stats in outs:
        verdicts += v
        chk.trace_stats(stats)
    for (scn, origin, o), hdr, v in zip(keep, batch, verdicts):
        chk.validated(1)
        chk.distinct.add(json.dumps(hdr['ev'], sort_keys=True))
        if len(chk.samples) < 3 and len(hdr['ev']) > 10:
            chk.samples.append({'scenario': scn['name'], 'origin': origin, 'opts': hdr['opts'], 'events': hdr['ev'][:60]})
        if v['matched'] < v['len'] and v['bad'] == 0:
            raise tlc.TLCError('CrawlMon did not consume trace of %s: %r' % (scn['name'], v))
        if not v['bad']:
            continue
        if v['bad'] not in CLAUSES:
            raise tlc.TLCError('CrawlMon reported an unknown clause %r' % (v,))
        prop, name = CLAUSES[v['bad']]
        if v['bad'] == 14:
            prop = pid
        if prop != pid:
            continue    # belongs to another property's check
        sig = signature(scn, name, hdr, v, o)
        chk.violation(sig, '%s violated at event %d of scenario %s (N=%d, opts=%s)'
                      % (name, v['badline'] - 1, scn['name'], scn['N'], json.dumps(scn['opts'], sort_keys=True)),
                      {'scenario': scn, 'origin': origin, 'events': hdr['ev'], 'rows': o.get('rows'),
                       'order': [c[0] for c in o.get('choices', [])]})
    strict_validate(chk, keep, batch)
    chk.rule = ('complete crawls of scripted sites by the real application (Builder -> Application.run) over the '
                'in-memory network; distinct = distinct recorded event traces')


MODEL_KINDS = {'page': 'page', 'redirect': 'redirect', 'notfound': 'notfound', 'error500': 'error', 'drop': 'error',
               'interim_forever': 'error'}


def strict_eligible(scn):
    o = scn['opts']
    if scn['start'] != [1] or o['spanhosts'] or not o['strong'] or not o['recursive'] or o['pagereq'] or o['auth'] \
            or o.get('sitemaps') or o.get('noparent') or o.get('tags'):
        return False
    if scn.get('honour_range'):
        return False        # (Crawl.tla has no partial answers: 206 / 416 are monitored only)
    hs = cs.hosts_of(scn)
    if len(hs) > 2 or hs[0] != 'a.test' or cs.origins_of(scn) != hs or len(scn['urls']) > 8:
        return False
    for u in scn['urls']:
        if u['kind'] not in MODEL_KINDS or u['rejected'] or u['nofollow']:
            return False
        if u['kind'] == 'redirect' and (not u.get('rto') or u.get('location') or u.get('code', 301) in (307, 308)):
            return False
        if any(l.get('inline') or l.get('frame') or l.get('css') for l in u['links']):
            return False
    for h, r in scn['robots'].items():
        if r['kind'] not in ('rules', 'missing', 'error500') or r.get('extra') or r.get('agent', '*') != '*':
            return False
    return True


def strict_validate(chk, keep, batch):
    """Is each recorded crawl a behaviour of Crawl.tla on its site?  Rejection = MODEL-DRIFT, never an alarm."""
    from concurrent.futures import ThreadPoolExecutor
    groups = {}
    for (scn, origin, o), hdr in zip(keep, batch):
        if not strict_eligible(scn):
            continue
        evs = hdr['ev']
        ci = [i for i, e in enumerate(evs) if e['e'] == 'crash']
        if ci and ci[0] > 0 and evs[ci[0] - 1]['e'] == 'commit':
            continue    # killed between a commit and its event: the model's table lags by that transaction
        h = dict(hdr)
        by = {u['id']: u for u in scn['urls']}
        h['mkind'] = [MODEL_KINDS[by[i]['kind']] for i in range(1, h['U'] + 1)]
        hs = cs.origins_of(scn)
        h['mrobots'] = [{'rules': 'rules', 'missing': 'missing', 'error500': 'error'}[
            scn['robots'].get(x, {'kind': 'missing'})['kind']] for x in hs]
        op = scn['opts']
        key = (h['U'], scn['N'], op['level'], op['tries'], op['maxredir'], op['robots'])
        groups.setdefault(key, []).append((scn, h))

    def one(key):
        U, N, lv, tr, mr, rb = key
        cfg = ('SPECIFICATION TSpec\nCONSTANTS NU = %d N = %d Level = %d Tries = %d MaxRedir = %d RobotsOn = %s '
               'MaxLinks = 0 Kinds = {"page"} Foreign = TRUE AllowCrash = TRUE ChildrenFirst = TRUE\n'
               'CONSTRAINT Record\nPOSTCONDITION Post\nCHECK_DEADLOCK FALSE\n'
               % (U, N, lv, tr, mr, 'TRUE' if rb else 'FALSE'))
        return tlc.validate_batch('CrawlTrace', cfg, [h for (_, h) in groups[key]], chunk=300, timeout=1800)

    keys = sorted(groups)
    with ThreadPoolExecutor(max_workers=6) as ex:
        results = list(ex.map(one, keys))
    nstrict = nacc = 0
    for key, (verdicts, stats) in zip(keys, results):
        chk.trace_stats(stats)
        for (scn, h), v in zip(groups[key], verdicts):
            nstrict += 1
            if v['accepted']:
                nacc += 1
            else:
                nxt = h['ev'][v['matched']] if v['matched'] < len(h['ev']) else None
                chk.drifted('Crawl.tla rejects event %d %s of scenario %s (model clause %d)'
                            % (v['matched'], json.dumps(nxt)[:160], scn['name'], v['bad']))
    chk.extra['strict_traces'] = nstrict
    chk.extra['strict_accepted'] = nacc


def signature(scn, clause, hdr, v, o):
    """Identify the failing input class: clause + the structural cause read off the trace."""
    sig = {'clause': clause}
    ev = hdr['ev']
    if clause in ('EveryReachableRequested', 'NeverRequested'):
        # cause: a row recorded deeper than its shortest depth (level race), or children lost by a crash
        lv = {}
        for e in ev:
            if e['e'] == 'tx' and e['op'] == 'add_many':
                for u, l in zip(e['urls'], e['levels']):
                    if u in e['new']:
                        lv[u] = l
        crashed = any(e['e'] == 'crash' for e in ev)
        if crashed:
            # was the crash between check_in(done) of a page and the add_many of its children?
            idx = max(i for i, e in enumerate(ev) if e['e'] == 'crash')
            prev = [e for e in ev[:idx] if e['e'] == 'tx']
            if prev and prev[-1]['op'] == 'check_in' and prev[-1]['st'] == 'done':
                sig['cause'] = 'crash-between-checkin-done-and-add-children'
            else:
                sig['cause'] = 'crash-other'
        elif scn['opts']['level'] and scn['N'] > 1:
            # the recorded level race: the URL that is missed was never recorded, because the page linking to it was
            # recorded deeper than its shortest depth.  A URL that WAS recorded and then skipped without a request is
            # something else.
            requested = set(e['u'] for e in ev if e['e'] == 'req')
            rows = o.get('rows') or []
            skipped_unrequested = [r for r in rows if r[1] == 'skipped' and r[0] not in requested and 1 <= r[0] <= len(scn['urls'])
                                   and not scn['urls'][r[0] - 1].get('rejected') and not scn['urls'][r[0] - 1].get('disallowed')]
            sig['cause'] = 'recorded-then-skipped-unrequested' if skipped_unrequested else 'level-race'
        else:
            sig['cause'] = 'other'
    elif clause in ('DisallowedRequested', 'PageBeforeRobots'):
        e = ev[v['badline'] - 2] if v['badline'] >= 2 else {}
        sig['via'] = 'redirect-hop' if e.get('item') and e.get('item') != e.get('u') else 'direct'
        if 'large' in scn['name']:
            sig['via'] = 'rule-beyond-4096-bytes'
    elif clause == 'RequestOutOfScope':
        e = ev[v['badline'] - 2] if v['badline'] >= 2 else {}
        sig['via'] = 'redirect-hop' if e.get('item') and e.get('item') != e.get('u') else 'direct'
    return sig


def replay(chk, path):
    rp = json.load(open(path))['replay']
    from harness import wpull_compat  # noqa
    o = _exec_plain(rp['scenario'], rp.get('order') or [])
    for e in o['ev']:
        print(json.dumps(e))
    print('rows', o['rows'])
    return 0
