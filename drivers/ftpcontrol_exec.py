"""Execute the real wpull FTP client (wpull.protocol.ftp.client.Client / Session, Commander, ControlStream,
Command, Reply) against a scripted FTP server on harness.fakenet, under harness.vloop.

Scenario (JSON-able dict; produced by FtpControlGen.tla through TLC or by the enumerators of drivers/ftpcontrol.py):
  sessions : [ {mode: 'file'|'listing', restart: bool, user: [byte..], pass: [byte..], path: [byte..]} ]
             user / pass / path are the *decoded* bytes; the URL carries every byte percent-encoded
  replies  : [ {b: [byte..], xfer: bool, drop: bool} ]   what the server sends, in order, each time a command
             (or the greeting) is pending; xfer: this reply starts a transfer; drop: close the control
             connection after these bytes
  xfers    : [ {eager_final: bool, moves: [['final', [byte..]] | ['data', n] | ['close']]} ]  one per started transfer;
             moves are played one per quiescence of the client (it is blocked on the network), in order;
             eager_final: the 'final' move is played right behind the reply that starts the transfer
  cuts     : [n1, n2, ..]   lengths of the pieces the control stream is delivered in (then: whatever is queued)

Recorded events (DESIGN appendix B style):
  session, conn, cmd{b}, sent{b,xfer,drop}, piece{n}, reply{code,text}, dconn, drefused, dsent{n}, dclose, dpiece{n}, deof,
  complete{body}, end{v: ok|error|crash|hang, cls}
"""
import asyncio
import collections
import io
import signal

from harness import vloop, fakenet
from wpull.network.pool import ConnectionPool
import wpull.protocol.ftp.client as ftp_client
from wpull.protocol.ftp.client import Client, Session
from wpull.protocol.ftp.request import Request
from wpull.protocol.ftp.stream import ControlStream
from wpull.errors import ServerError, ProtocolError, NetworkError, SSLVerificationError

HOST_IP = '10.0.0.1'
DATA_PORT = 1025          # "(10,0,0,1,4,1)"; nobody listens on 1026 = "(10,0,0,1,4,2)"
REMOTE_ERRORS = (ServerError, ProtocolError, NetworkError, SSLVerificationError)


class Livelock(BaseException):
    pass


def _alarm(signum, frame):
    raise Livelock()


def encode_component(bs):
    """Percent-encode every byte that is not a plain letter/digit."""
    out = []
    for b in bs:
        if (48 <= b <= 57) or (65 <= b <= 90) or (97 <= b <= 122):
            out.append(chr(b))
        else:
            out.append('%%%02X' % b)
    return ''.join(out)


def make_url(sess):
    auth = ''
    if sess['user'] or sess['pass']:
        auth = encode_component(sess['user'])
        if sess['pass']:
            auth += ':' + encode_component(sess['pass'])
        auth += '@'
    return 'ftp://%sh/%s' % (auth, encode_component(sess['path']))


def listing_bytes(n):
    """n bytes that both listing parsers accept (blank lines)."""
    return b'\n' * n


class Run(object):
    watchdog_s = 2.0

    def __init__(self, sc):
        self.sc = sc
        self.ev = []
        self.replies = collections.deque(sc.get('replies', []))
        self.xfers = collections.deque(sc.get('xfers', []))
        self.cuts = collections.deque(int(c) for c in sc.get('cuts', []) if int(c) > 0)
        self.moves = collections.deque()
        self.cmdbuf = b''
        self.partial = None          # the last queued control piece, if a cut reaches beyond it
        self.ctl = None
        self.dep = None
        self.pending = 0
        self.seen_ctl = 0
        self.seen_d = 0
        self.seen_deof = False
        self.data_sent = 0
        self.cur_mode = 'file'
        self.bodyfile = None
        self.frozen = False

    # ------------------------------------------------------------------ log
    def poll(self):
        """Turn what the network delivered since the last look into events (before any client-side event)."""
        if self.dep is not None:
            d = self.dep.delivered
            while self.seen_d < len(d):
                self.ev.append({'e': 'dpiece', 'n': len(d[self.seen_d])})
                self.seen_d += 1
            # the end of the data connection as the SERVER made it (a connection the client closed itself - e.g. its
            # own read timer - is not the server's end of file)
            if not self.seen_deof and self.dep.reader._eof and self.dep.server_closed:
                self.seen_deof = True
                self.ev.append({'e': 'deof'})
        if self.ctl is not None:
            d = self.ctl.delivered
            while self.seen_ctl < len(d):
                self.ev.append({'e': 'piece', 'n': len(d[self.seen_ctl])})
                self.seen_ctl += 1

    def log(self, **kw):
        if self.frozen:
            return
        self.poll()
        self.ev.append(kw)

    # ------------------------------------------------------------------ server
    def ctl_send(self, bs):
        ep = self.ctl
        bs = bytes(bs)
        pos = 0
        first = True
        while pos < len(bs):
            if self.cuts:
                c = self.cuts[0]
                take = min(c, len(bs) - pos)
                if take == c:
                    self.cuts.popleft()
                    spans = False
                else:
                    self.cuts[0] = c - take
                    spans = True
            else:
                take = len(bs) - pos
                spans = False
            piece = bs[pos:pos + take]
            pos += take
            if first and self.partial is not None and ep.out and ep.out[-1] is self.partial:
                piece = self.partial + piece
                ep.out[-1] = piece
                ep._pump_soon()
            else:
                ep.send_pieces([piece])
                piece = ep.out[-1] if ep.out else piece
            first = False
            self.partial = piece if spans else None

    def answer(self):
        """A command (or the greeting) is pending: play the next scripted reply."""
        while self.pending > 0 and self.replies and not self.ctl.server_closed:
            r = self.replies.popleft()
            self.pending -= 1
            self.log(e='sent', b=list(r['b']), xfer=bool(r.get('xfer')), drop=bool(r.get('drop')))
            self.ctl_send(bytes(r['b']))
            if r.get('drop'):
                self.pending = 0
                self.ctl.close()
                return
            if r.get('xfer'):
                x = self.xfers.popleft() if self.xfers else {'moves': []}
                self.moves = collections.deque(x.get('moves', []))
                if x.get('eager_final'):
                    for m in list(self.moves):
                        if m[0] == 'final':
                            self.moves.remove(m)
                            self.play(m)
                            break

    def play(self, m):
        if m[0] == 'final':
            drop = len(m) > 2 and bool(m[2])
            self.log(e='sentfinal', b=list(m[1]), drop=drop)
            if not self.ctl.server_closed:
                self.ctl_send(bytes(m[1]))
                if drop:
                    self.ctl.close()
        elif m[0] == 'data':
            n = int(m[1])
            self.log(e='dsent', n=n)
            self.data_sent += n
            payload = listing_bytes(n) if self.cur_mode == 'listing' else b'd' * n
            self.dep.send(payload)
        elif m[0] == 'close':
            self.log(e='dclose')
            self.dep.close()

    def env_step(self):
        # the client is blocked on the network and nothing is in flight: the server makes its next move
        while self.moves:
            m = self.moves.popleft()
            if m[0] in ('data', 'close') and (self.dep is None or self.dep.server_closed):
                continue
            self.play(m)
            return True
        return False

    # ------------------------------------------------------------------ the run
    def execute(self):
        run = self
        net = fakenet.FakeNet()
        # asyncio's line limit (64 KiB by default) scaled down for the over-long-line scenarios
        net.reader_limit = self.sc.get('reader_limit', 2 ** 16) if hasattr(self, 'sc') else 2 ** 16
        net.add_host('h', HOST_IP)

        class Ctl(fakenet.BaseServer):
            def on_connect(self, ep):
                run.poll()
                run.ctl = ep
                ep.eager_eof = bool(run.sc.get('eager_eof'))
                run.seen_ctl = 0
                run.partial = None
                run.cmdbuf = b''
                run.log(e='conn')
                run.pending = 1
                run.answer()

            def on_data(self, ep, data):
                # one command = what the client wrote up to a write that ends a line
                run.cmdbuf += data
                if run.cmdbuf.endswith(b'\n'):
                    buf, run.cmdbuf = run.cmdbuf, b''
                    run.log(e='cmd', b=list(buf))
                    run.pending += 1
                    run.answer()

        class Data(fakenet.BaseServer):
            def on_connect(self, ep):
                run.poll()
                run.dep = ep
                run.seen_d = 0
                run.seen_deof = False
                run.data_sent = 0
                run.log(e='dconn')

        net.listen(HOST_IP, 21, lambda ep: Ctl())
        net.listen(HOST_IP, DATA_PORT, lambda ep: Data())
        cf = net.connection_factory
        if self.sc.get('read_timeout'):
            import functools
            cf = functools.partial(net.connection_factory, timeout=self.sc['read_timeout'])
        pool = ConnectionPool(resolver=net.resolver(), connection_factory=cf, ssl_connection_factory=cf)

        class RecControlStream(ControlStream):
            @asyncio.coroutine
            def read_reply(self):
                reply = yield from ControlStream.read_reply(self)
                text = reply.text if reply.text is not None else ''
                run.log(e='reply', code=reply.code if reply.code is not None else 0,
                        text=list(text.encode('utf-8', 'surrogateescape')))
                return reply

        client = Client(connection_pool=pool)

        def on_end_transfer(response):
            run.log(e='complete', body=len(run.bodyfile.getvalue()) if run.bodyfile is not None else -1,
                    sent=run.data_sent)

        @asyncio.coroutine
        def go():
            for sess in run.sc['sessions']:
                run.cur_mode = sess['mode']
                run.log(e='session', mode=sess['mode'], restart=bool(sess.get('restart')), user=list(sess['user']),
                        **{'pass': list(sess['pass']), 'path': list(sess['path'])})
                try:
                    req = Request(make_url(sess))
                    if sess.get('restart'):
                        req.set_continue(5)
                    f = io.BytesIO()
                    run.bodyfile = f
                    with client.session() as session:
                        session.event_dispatcher.add_listener(Session.Event.end_transfer, on_end_transfer)
                        if sess['mode'] == 'file':
                            yield from session.start(req)
                            yield from session.download(f)
                        else:
                            yield from session.start_listing(req)
                            yield from session.download_listing(f)
                    run.log(e='end', v='ok', cls='')
                except REMOTE_ERRORS as e:
                    run.log(e='end', v='error', cls=type(e).__name__)
                    return
                except Exception as e:   # noqa
                    run.log(e='end', v='crash', cls=type(e).__name__)
                    return

        saved = ftp_client.ControlStream
        ftp_client.ControlStream = RecControlStream
        old = signal.signal(signal.SIGVTALRM, _alarm)
        signal.setitimer(signal.ITIMER_VIRTUAL, self.watchdog_s)
        try:
            try:
                # with timers in play (a read time-out) the server's scripted moves come first, then time passes
                kind, val = vloop.run(go, self.env_step, before_cleanup=self._freeze,
                                      env_before_timer=bool(self.sc.get('read_timeout')))
            except Livelock:
                kind, val = 'livelock', None
        finally:
            signal.setitimer(signal.ITIMER_VIRTUAL, 0)
            signal.signal(signal.SIGVTALRM, old)
            ftp_client.ControlStream = saved
        self.frozen = False
        if kind == 'exc' and isinstance(val, Livelock):
            kind = 'livelock'
        if kind == 'hang':
            self.log(e='end', v='hang', cls='')
        elif kind == 'livelock':
            self.log(e='end', v='hang', cls='livelock')
        elif kind == 'exc':
            self.log(e='end', v='crash', cls=type(val).__name__)
        self.frozen = True
        self.net = net
        return self.ev

    def _freeze(self):
        self.poll()
        self.frozen = True


def run_scenario(sc):
    r = Run(sc)
    return r.execute()


# ---------------------------------------------------------------------- Command.to_bytes directly
def command_bytes(name, arg_bytes):
    """The bytes Command(name, argument).to_bytes() produces, or None if the code refuses the command."""
    from wpull.protocol.ftp.request import Command
    try:
        return list(Command(name, bytes(arg_bytes).decode('utf-8', 'surrogateescape')).to_bytes())
    except REMOTE_ERRORS:
        return None


def rejects_control_chars():
    """Does the code under test refuse CR / LF / NUL in a command argument (the repaired behaviour)?"""
    return all(command_bytes('RETR', a) is None for a in (b'a\rb', b'a\nb', b'a\0b'))
