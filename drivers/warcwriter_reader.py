"""Independent strict WARC / CDX / journal reader (the projection for C05, C06, C07).

Nothing here uses wpull.  The reader turns the bytes found in a directory into *facts* (numbers and interned
tokens); it never decides a property: the TLA+ clauses of specs/WarcWriterMon.tla do, on these facts.

  split_members(data, compressed)   member boundaries of an archive file
      compressed: one entry per gzip member (zlib.decompressobj(31) ... .unused_data), an undecodable or
                  unfinished rest is one entry with st = 'torn' (rest of a member at the end of the file) or
                  'junk' (anything else, e.g. zero bytes)
      plain:      strict framing  WARC/1.0 CRLF  fields CRLF  CRLF  <Content-Length bytes>  CRLF CRLF
  parse_record(raw)                 facts about one record
  read_cdx(data)                    CDX lines
  read_journal(data)                ('absent'|'empty'|'bad'|'offset', n)
"""
import base64
import hashlib
import re
import zlib

VERSION_LINE = b'WARC/1.0\r\n'
TOKEN = re.compile(rb"^[!#$%&'*+\-.^_`|~0-9A-Za-z]+$")


def b32sha1(data):
    return 'sha1:' + base64.b32encode(hashlib.sha1(data).digest()).decode()


# ------------------------------------------------------------------------------------------- members
def _plain_members(data):
    """Strict sequential framing of an uncompressed archive."""
    out = []
    pos = 0
    n = len(data)
    while pos < n:
        rest = data[pos:]
        rec_len, state = _frame_plain(rest)
        if state == 'complete':
            out.append({'st': 'complete', 'off': pos, 'len': rec_len, 'raw': rest[:rec_len], 'gz': False})
            pos += rec_len
            continue
        # not a complete record here: a proper prefix of a record at the end of the file is 'torn',
        # anything else is junk.  Resynchronise on the next record start so that later records are still seen.
        nxt = rest.find(b'\r\n\r\n' + VERSION_LINE, 1)
        if state == 'prefix' and nxt < 0:
            out.append({'st': 'torn', 'off': pos, 'len': n - pos, 'raw': rest, 'gz': False})
            pos = n
        elif nxt >= 0:
            out.append({'st': 'junk', 'off': pos, 'len': nxt + 4, 'raw': rest[:nxt + 4], 'gz': False})
            pos += nxt + 4
        else:
            out.append({'st': 'junk', 'off': pos, 'len': n - pos, 'raw': rest, 'gz': False})
            pos = n
    return out


def _frame_plain(rest):
    """-> (length, 'complete') | (0, 'prefix') | (0, 'bad')"""
    if not rest.startswith(VERSION_LINE):
        if VERSION_LINE.startswith(rest):
            return 0, 'prefix'
        return 0, 'bad'
    he = rest.find(b'\r\n\r\n')
    if he < 0:
        # could still be a prefix of a header (only if it looks like header text)
        return 0, ('prefix' if b'\x00' not in rest else 'bad')
    head = rest[len(VERSION_LINE):he + 2]
    clen = None
    for line in head.split(b'\r\n'):
        m = re.match(rb'(?i)content-length:[ \t]*([0-9]+)[ \t]*$', line)
        if m:
            clen = int(m.group(1))
    if clen is None:
        return 0, 'bad'
    end = he + 4 + clen + 4
    if len(rest) < end:
        return 0, ('prefix' if b'\x00' * 16 not in rest[:64] else 'bad')
    if rest[end - 4:end] != b'\r\n\r\n':
        return 0, 'bad'
    if len(rest) > end and not rest[end:].startswith(VERSION_LINE[:len(rest) - end]):
        return 0, 'bad'
    return end, 'complete'


def _gzip_members(data):
    out = []
    pos = 0
    n = len(data)
    while pos < n:
        d = zlib.decompressobj(31)
        try:
            raw = d.decompress(data[pos:])
        except zlib.error:
            # not (the beginning of) a gzip member (zero filling, foreign bytes, bad CRC): junk up to the next
            # position at which a gzip member can be decoded, or up to the end
            q = data.find(b'\x1f\x8b\x08', pos + 1)
            while q >= 0:
                t = zlib.decompressobj(31)
                try:
                    t.decompress(data[q:q + 64])
                    break
                except zlib.error:
                    q = data.find(b'\x1f\x8b\x08', q + 1)
            end = q if q >= 0 else n
            out.append({'st': 'junk', 'off': pos, 'len': end - pos, 'raw': b'', 'gz': True})
            pos = end
            continue
        if d.eof:
            used = n - pos - len(d.unused_data)
            out.append({'st': 'complete', 'off': pos, 'len': used, 'raw': raw, 'gz': True})
            pos += used
        else:
            out.append({'st': 'torn', 'off': pos, 'len': n - pos, 'raw': raw, 'gz': True})
            break
    return out


def split_members(data, compressed, lenient=False):
    """Member list.  For compressed files: one entry per gzip member; a finished gzip member whose content is not a
    sequence of complete records (strict framing by Content-Length) gets st 'junk' - except with lenient=True, where
    a member that begins with the version line, has a header end and ends with CRLF CRLF counts as ONE record
    delimited by the member itself (so that a wrong Content-Length is reported as such by the caller)."""
    if not compressed:
        ms = _plain_members(data)
        for m in ms:
            m['nrec'] = 1 if m['st'] == 'complete' else 0
        return ms
    ms = _gzip_members(data)
    for m in ms:
        m['gzst'] = m['st']
        if m['st'] != 'complete':
            m['nrec'] = 0
            continue
        inner = _plain_members(m['raw'])
        m['nrec'] = sum(1 for i in inner if i['st'] == 'complete')
        if not inner or any(i['st'] != 'complete' for i in inner):
            raw = m['raw']
            if lenient and raw.startswith(VERSION_LINE) and b'\r\n\r\n' in raw[:-4] and raw.endswith(b'\r\n\r\n'):
                m['nrec'] = 1
            else:
                m['st'] = 'junk'
    return ms


# ------------------------------------------------------------------------------------------- records
def http_header_len(block):
    """Length of the HTTP header block by the wire bytes: start line, field lines, up to and including the
    first empty line (CRLF or bare LF).  -1 when there is no empty line."""
    pos = 0
    first = True
    while True:
        nl = block.find(b'\n', pos)
        if nl < 0:
            return -1
        line = block[pos:nl + 1]
        pos = nl + 1
        if not first and line in (b'\r\n', b'\n'):
            return pos
        first = False


def http_facts(block):
    """Independent reading of status code and media type of an archived HTTP response."""
    hl = http_header_len(block)
    status = -1
    mime = '-'
    m = re.match(rb'HTTP/\d+\.\d+[ \t]+(\d{1,3})(?:[ \t]|\r?\n)', block)
    if m:
        status = int(m.group(1))
    if hl > 0:
        head = block[:hl].decode('latin-1')
        # unfold continuation lines
        head = re.sub(r'\r?\n[ \t]+', ' ', head)
        for line in re.split(r'\r?\n', head)[1:]:          # lines end at LF (not at VT, FF, NEL ...)
            if ':' in line:
                name, value = line.split(':', 1)
                if name.strip().lower() == 'content-type':
                    mm = re.match(r'\s*([A-Za-z0-9!#$&^_.+-]+/[A-Za-z0-9!#$&^_.+-]+)', value)
                    if mm:
                        mime = mm.group(1)
                    break
    return hl, status, mime


def parse_record(raw):
    """Facts about one complete record (bytes of the record, uncompressed)."""
    f = {'ver': raw.startswith(VERSION_LINE), 'tail': raw.endswith(b'\r\n\r\n')}
    he = raw.find(b'\r\n\r\n')
    f['hdrend'] = he >= 0
    head = raw[len(VERSION_LINE):he + 2] if he >= 0 else b''
    lines = head.split(b'\r\n')[:-1] if head else []
    fields = []
    nbad = 0
    for line in lines:
        # one named field per line: token ':' value, no continuation line, no stray CR / LF
        if b':' not in line or line[:1] in (b' ', b'\t') or b'\r' in line or b'\n' in line:
            nbad += 1
            continue
        name, value = line.split(b':', 1)
        if not TOKEN.match(name):
            nbad += 1
            continue
        fields.append((name.decode('latin-1'), value.strip().decode('utf-8', 'replace')))
    f['nbad'] = nbad
    f['fields'] = fields
    low = {}
    dup = 0
    for name, value in fields:
        if name.lower() in low:
            dup += 1
        low.setdefault(name.lower(), value)
    f['ndup'] = dup
    f['type'] = low.get('warc-type', '')
    f['rid'] = low.get('warc-record-id', '')
    f['wid'] = low.get('warc-warcinfo-id', '')
    f['cto'] = low.get('warc-concurrent-to', '')
    f['url'] = low.get('warc-target-uri', '')
    f['ctype'] = low.get('content-type', '')
    f['date'] = low.get('warc-date', '')
    f['refers'] = low.get('warc-refers-to', '')
    try:
        f['clen'] = int(low['content-length']) if re.match(r'^[0-9]+$', low.get('content-length', '')) else -1
    except ValueError:
        f['clen'] = -1
    block = raw[he + 4:len(raw) - 4] if he >= 0 and len(raw) >= he + 8 else b''
    f['blen'] = len(block)
    f['block'] = block
    bd = low.get('warc-block-digest')
    f['bd'] = 'none' if bd is None else ('block' if bd == b32sha1(block) else 'other')
    pdv = low.get('warc-payload-digest')
    f['pdv'] = pdv or ''
    is_http = f['ctype'].replace(' ', '').lower().startswith('application/http')
    f['http'] = is_http
    if is_http:
        f['hl'], f['status'], f['mime'] = http_facts(block)
    else:
        f['hl'], f['status'], f['mime'] = -1, -1, '-'
    # which byte range does the recorded payload digest cover?  pd = start offset k with
    # sha1(block[k:]) = recorded value; -2 no such field; -1 no candidate matches
    if pdv is None:
        f['pd'] = -2
    else:
        f['pd'] = -1
        cands = []
        if f['hl'] >= 0:
            cands.append(f['hl'])
        hi = min(len(block), (f['hl'] if f['hl'] >= 0 else 0) + 96)
        cands += list(range(0, hi + 1)) + [len(block)]
        seen = set()
        for k in cands:
            if k in seen or k > len(block):
                continue
            seen.add(k)
            if b32sha1(block[k:]) == pdv:
                f['pd'] = k
                break
    return f


# ------------------------------------------------------------------------------------------- cdx, journal
def read_cdx(data):
    """-> (header_ok, [dict(url, mime, status, digest, len, off, file, rid, wellformed)]).
    The columns are taken from the legend line (' CDX a b m s k S V g u': delimiter, 'CDX', field letters)."""
    text = data.decode('utf-8', 'surrogateescape')       # (file names are bytes: not necessarily UTF-8)
    lines = text.split('\n')
    if lines and lines[-1] == '':
        lines.pop()
    if not lines:
        return False, []
    legend = lines[0]
    delim = legend[:1]
    letters = legend[1:].split(delim) if delim else []
    header_ok = bool(delim) and not delim.isalnum() and letters[:1] == ['CDX'] and \
        all(x in letters for x in ('a', 'm', 's', 'k', 'S', 'V', 'g', 'u'))
    cols = letters[1:]
    out = []
    for ln in lines[1:]:
        parts = ln.split(delim) if delim else [ln]
        if not header_ok or len(parts) != len(cols):
            out.append({'wellformed': False, 'raw': ln})
            continue
        d = dict(zip(cols, parts))
        try:
            rec = {'wellformed': True, 'url': d['a'], 'mime': d['m'],
                   'status': int(d['s']) if d['s'].isdigit() else -1,
                   'digest': d['k'], 'len': int(d['S']), 'off': int(d['V']), 'file': d['g'], 'rid': d['u']}
        except ValueError:
            rec = {'wellformed': False, 'raw': ln}
        out.append(rec)
    return header_ok, out


def read_journal(data):
    """-> ('absent' | 'empty' | 'bad' | 'offset', n): the journal names the length of the archive before the append
    in a line  offset:<n>  (any other complete lines are accepted)."""
    if data is None:
        return 'absent', 0
    if data == b'':
        return 'empty', 0
    if not data.endswith(b'\n'):
        return 'bad', 0
    m = re.findall(rb'(?m)^offset:[ \t]*([0-9]+)[ \t]*$', data)
    if len(m) == 1:
        return 'offset', int(m[0])
    return 'bad', 0
