"""X01 (not one of the listed properties: growth of the specification): wpull/cache.py against specs/Cache.tla.

Design: TLC checks Cache.tla (both kinds, sizes 0..2, time-to-live 0 / 1 / none) exhaustively against the invariants.
Binding: every sequence of calls up to a depth (plus random longer ones) is run on the REAL FIFOCache / LRUCache with
the clock replaced by an integer; what the code let us see (lookup answers, key set, len()) is replayed through the
model by TLC (CacheTrace.tla) with every invariant evaluated at every step.  A rejected trace or a false invariant is
reported (the model is the documented meaning of the two classes).
"""
import itertools
import json
import os
import random
from concurrent.futures import ThreadPoolExecutor

from harness import tlc

KEYS = ['a', 'b', 'c']
INF = 1000
CONFIGS = [(lru, mi, ttl) for lru in (False, True) for mi in (0, 1, 2) for ttl in (0, 1, INF)]


class Clock(object):
    def __init__(self):
        self.now = 0

    def time(self):
        return 1000.0 + self.now


def execute(lru, max_items, ttl, ops):
    import wpull.cache as C
    clock = Clock()
    real = C.time
    C.time = clock
    try:
        cls = C.LRUCache if lru else C.FIFOCache
        cache = cls(max_items=max_items or None, time_to_live=None if ttl >= INF else ttl)
        ev = []
        for i, op in enumerate(ops):
            if op[0] == 'tick':
                clock.now += 1
                continue
            e = {'op': op[0], 'k': op[1] if len(op) > 1 else 'none', 'v': 'v%d' % i, 'now': clock.now, 'res': 'none'}
            try:
                if op[0] == 'set':
                    cache[op[1]] = e['v']
                elif op[0] == 'get':
                    try:
                        e['res'] = cache[op[1]]
                    except KeyError:
                        e['res'] = 'miss'
                else:
                    cache.clear()
            except Exception as x:          # noqa  (nothing but KeyError on a lookup is part of the interface)
                e['res'] = 'raised:' + type(x).__name__
            e['keys'] = sorted(cache)
            e['n'] = len(cache)
            ev.append(e)
        return ev
    finally:
        C.time = real


def cfg_of(lru, mi, ttl, design):
    c = ('CONSTANTS Keys = {"a", "b", "c"}\nVals = {"x", "y"}\nMaxItems = %d\nTTL = %d\nMaxTime = %d\nLru = %s\n'
         % (mi, ttl, 3 if design else INF - 1, 'TRUE' if lru else 'FALSE'))
    if design:
        return ('SPECIFICATION Spec\n' + c + 'CONSTRAINT Bound\n' +
                ''.join('INVARIANT %s\n' % i for i in ('Unique', 'SizeBound', 'Sorted', 'NoStaleHit', 'HitLatest', 'Stored', 'NoLoss')))
    return 'SPECIFICATION TSpec\n' + c + 'CONSTRAINT Record\nPOSTCONDITION Post\n'


CLAUSES = {1: 'Unique', 2: 'SizeBound', 3: 'Sorted', 4: 'NoStaleHit', 5: 'HitLatest', 6: 'Stored', 7: 'NoLoss'}
ALPHA = [('set', k) for k in KEYS] + [('get', k) for k in KEYS] + [('tick',), ('clear',)]


def sequences(chk, depth, nrandom, rlen):
    out = [list(s) for d in range(1, depth + 1) for s in itertools.product(ALPHA, repeat=d)]
    rnd = random.Random(chk.seed * 7919 + 1)
    weights = [3, 3, 3, 3, 3, 3, 4, 1]
    for _ in range(nrandom):
        out.append(rnd.choices(ALPHA, weights=weights, k=rlen))
    return out


def run(chk):
    quick = chk.tier == 'quick'
    # design
    def design(c):
        lru, mi, ttl = c
        return c, tlc.run_tlc('CacheDesign', cfg_of(lru, mi, ttl, True), workers=2, coverage=True, timeout=600)
    with ThreadPoolExecutor(6) as ex:
        for c, res in ex.map(design, CONFIGS):
            chk.design('Cache[lru=%s,max=%d,ttl=%d]' % c, res, constants={'Keys': 3, 'Vals': 2, 'MaxTime': 3},
                       expect_actions=['Tick', 'Set', 'Get', 'Clear'])
    # binding
    seqs = sequences(chk, 4 if quick else 5, 300 if quick else 3000, 14)

    # the real code runs here, one execution at a time (the clock of wpull.cache is replaced per execution)
    recorded = {c: [t for t in ({'ev': execute(c[0], c[1], c[2], s), 'ops': s} for s in seqs) if t['ev']] for c in CONFIGS}

    def bind(c):
        lru, mi, ttl = c
        traces = recorded[c]
        v, st = tlc.validate_batch('CacheTrace', cfg_of(lru, mi, ttl, False), [{'ev': t['ev']} for t in traces], chunk=20000)
        return c, traces, v, st
    with ThreadPoolExecutor(6) as ex:
        for c, traces, verdicts, st in ex.map(bind, CONFIGS):
            chk.trace_stats(st)
            for t, v in zip(traces, verdicts):
                chk.validated(1)
                chk.case(key=(c, tuple(map(tuple, t['ops']))))
                if not v['accepted']:
                    clause = CLAUSES.get(v['bad'], 'RefinesCacheSpec')
                    line = (v['badline'] if v['bad'] else v['matched'] + 1)
                    e = t['ev'][min(line, len(t['ev'])) - 1]
                    chk.violation({'clause': clause, 'kind': 'lru' if c[0] else 'fifo', 'op': e['op'],
                                   'limited': bool(c[1]), 'ttl': 'none' if c[2] >= INF else 'finite'},
                                  '%s: %s cache(max_items=%s, ttl=%s): after %s the code shows %s' %
                                  (clause, 'LRU' if c[0] else 'FIFO', c[1] or None, c[2], t['ops'], e),
                                  {'config': list(c), 'ops': t['ops']})
    chk.rule = ('every call sequence up to depth %d over {set,get}x3 keys, tick, clear + %d random ones of length 14, '
                'x 18 configurations (FIFO/LRU, max_items none/1/2, time-to-live 0/1/none), each replayed through Cache.tla by TLC'
                % (4 if quick else 5, 300 if quick else 3000))
    chk.exhaustive = False
    chk.constants = {'configs': len(CONFIGS), 'sequences': len(seqs)}


def replay(chk, path):
    r = json.load(open(path))
    r = r.get('replay', r)
    c = tuple(r['config'])
    ev = execute(c[0], c[1], c[2], [tuple(o) for o in r['ops']])
    v, _ = tlc.validate_batch('CacheTrace', cfg_of(c[0], c[1], c[2], False), [{'ev': ev}])
    print(json.dumps(ev, indent=1))
    print(v)
    if not v[0]['accepted']:
        chk.violation({'clause': CLAUSES.get(v[0]['bad'], 'RefinesCacheSpec')}, 'replayed', r)
    return chk.finish()
