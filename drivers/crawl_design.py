"""Design checks of Crawl.tla: a portfolio of configurations per property; each run covers EVERY site
(link set, server behaviour, hosts, robots rules) within its bounds, every interleaving of the workers,
and (where enabled) every crash point."""
from concurrent.futures import ThreadPoolExecutor

from harness import tlc

INV = ['TypeOK', 'C01_Once', 'C01_Complete', 'C01_Final', 'C03_NoRefetch', 'C03_NoStuck', 'C03_NoLoss', 'C18_Visit',
       'C18_Tries', 'C20_Robots', 'C02_Scope', 'NoHang']


def cfg(c, liveness=False):
    s = ('SPECIFICATION Spec\nCONSTANTS NU = %(NU)d N = %(N)d Level = %(Level)d Tries = %(Tries)d MaxRedir = %(MaxRedir)d '
         'RobotsOn = %(RobotsOn)s MaxLinks = %(MaxLinks)d Kinds = %(Kinds)s Foreign = %(Foreign)s '
         'AllowCrash = %(AllowCrash)s ChildrenFirst = TRUE\n' % c)
    s += ''.join('INVARIANT %s\n' % i for i in INV)
    if liveness:
        s += 'PROPERTY Terminates\n'
    s += 'CHECK_DEADLOCK FALSE\n'
    return s


def C(NU=3, N=1, Level=0, Tries=2, MaxRedir=1, RobotsOn='FALSE', MaxLinks=3, Kinds='{"page"}', Foreign='FALSE',
      AllowCrash='FALSE'):
    return dict(NU=NU, N=N, Level=Level, Tries=Tries, MaxRedir=MaxRedir, RobotsOn=RobotsOn, MaxLinks=MaxLinks,
                Kinds=Kinds, Foreign=Foreign, AllowCrash=AllowCrash)


ADV = '{"page", "redirect", "error", "notfound"}'
PORTFOLIO = {
    'C01': {
        'quick': [('sites3-N2', C(NU=3, N=2, MaxLinks=4), False),
                  ('sites4-level2-N2', C(NU=4, N=2, Level=2, MaxLinks=3), False),
                  ('redirects-N2', C(NU=3, N=2, MaxLinks=2, Kinds='{"page", "redirect"}', Foreign='TRUE'), False)],
        'thorough': [('sites4-N2', C(NU=4, N=2, MaxLinks=4), False),
                     ('sites4-level2-N2', C(NU=4, N=2, Level=2, MaxLinks=4), False),
                     ('sites3-N3', C(NU=3, N=3, MaxLinks=4), False),
                     ('redirects-N2', C(NU=3, N=2, MaxLinks=3, Kinds='{"page", "redirect"}', Foreign='TRUE'), False),
                     ('sites3-N2-live', C(NU=3, N=2, MaxLinks=3), True)],
    },
    'C03': {
        'quick': [('crash-N1', C(NU=3, N=1, MaxLinks=3, AllowCrash='TRUE'), False),
                  ('crash-N2', C(NU=3, N=2, MaxLinks=3, AllowCrash='TRUE'), False)],
        'thorough': [('crash-N2-links4', C(NU=3, N=2, MaxLinks=4, AllowCrash='TRUE'), False),
                     ('crash-N1-sites4', C(NU=4, N=1, MaxLinks=3, AllowCrash='TRUE'), False),
                     ('crash-redirect-N2', C(NU=3, N=2, MaxLinks=2, Kinds='{"page", "redirect"}', AllowCrash='TRUE'), False),
                     ('crash-N2-live', C(NU=3, N=2, MaxLinks=2, AllowCrash='TRUE'), True)],
    },
    'C18': {
        'quick': [('adversarial-T2-R2', C(NU=3, N=1, MaxLinks=2, Tries=2, MaxRedir=2, Kinds=ADV, Foreign='TRUE'), False),
                  ('adversarial-live', C(NU=2, N=2, MaxLinks=2, Tries=2, MaxRedir=1, Kinds=ADV), True)],
        'thorough': [('adversarial-T3-R2-N2', C(NU=3, N=2, MaxLinks=2, Tries=3, MaxRedir=2, Kinds=ADV), False),
                     ('adversarial-T2-R0', C(NU=3, N=1, MaxLinks=3, Tries=2, MaxRedir=0, Kinds=ADV, Foreign='TRUE'), False),
                     ('adversarial-T1-R3', C(NU=3, N=1, MaxLinks=2, Tries=1, MaxRedir=3, Kinds=ADV, Foreign='TRUE'), False),
                     ('adversarial-live', C(NU=3, N=2, MaxLinks=2, Tries=2, MaxRedir=1, Kinds=ADV), True)],
    },
    'C20': {
        'quick': [('robots-N2', C(NU=3, N=2, MaxLinks=2, Tries=1, RobotsOn='TRUE', Kinds='{"page", "redirect"}'), False),
                  ('robots-foreign-N1', C(NU=3, N=1, MaxLinks=2, Tries=1, RobotsOn='TRUE', Kinds='{"page", "redirect"}',
                                          Foreign='TRUE'), False)],
        'thorough': [('robots-foreign-N2', C(NU=3, N=2, MaxLinks=2, Tries=1, RobotsOn='TRUE',
                                             Kinds='{"page", "redirect"}', Foreign='TRUE'), False),
                     ('robots-N2-links3', C(NU=3, N=2, MaxLinks=3, Tries=2, RobotsOn='TRUE', Kinds='{"page", "redirect"}'), False),
                     ('robots-crash', C(NU=3, N=1, MaxLinks=2, Tries=1, RobotsOn='TRUE', Kinds='{"page"}',
                                        AllowCrash='TRUE'), False)],
    },
}
ACTIONS = ['Boot', 'CheckOut', 'Take', 'Filter', 'Send', 'Respond', 'TxChildren', 'TxStatus', 'Exit']


def design(chk, quick):
    items = PORTFOLIO[chk.pid]['quick' if quick else 'thorough']

    def one(it):
        name, c, live = it
        return tlc.run_tlc('Crawl', cfg(c, live), workers=6 if quick else 8, timeout=3000, coverage=not live,
                           heap='5g')
    with ThreadPoolExecutor(max_workers=2) as ex:
        results = list(ex.map(one, items))
    for (name, c, live), res in zip(items, results):
        exp = None if live else ACTIONS + (['Crash'] if c['AllowCrash'] == 'TRUE' else [])
        chk.design('Crawl[%s%s]' % (name, ',liveness' if live else ''), res, constants=c, expect_actions=exp)
    chk.constants = {'design_portfolio': [dict(name=n, liveness=l, **c) for n, c, l in items]}
