"""Executor of the FTP part of C02: one COMPLETE real wpull crawl (Builder(args).build(); app.run()) of an ftp:// site
on the virtual-time loop against a scripted in-memory FTP server that serves a TREE.

A scenario is the JSON object that the TLA+ specs (FtpScope.tla / FtpScopeMon.tla) see as header:

    {'tree':   [{'p': ['pub'], 'k': 'd'}, {'p': ['pub', 'a.txt'], 'k': 'f'}, ...]   every entry below the (implicit) root
     'dots':   bool      LIST payloads contain the entries '.' and '..' (ls -la)
     'starts': [{'p': ['pub'], 'slash': True}, ...]      start URLs ftp://h.test/<p joined by '/'>[/]
     'opt':    {'r': bool, 'lvl': N (0 = inf; 5 = the default, then -l is not passed), 'np': bool, 'glob': bool,
                'acc': [suffix..], 'rej': [suffix..], 'inc': [[seg..]..], 'exc': [[seg..]..], 'rxa': literal, 'rxr': literal}
     'conc':   1|2      workers
     'mlsd':   bool     the server implements MLSD (otherwise 500 and the client falls back to LIST)}

The server logs every command with a path argument (LIST MLSD NLST CWD STAT MLST RETR SIZE MDTM) together with the item
(URL) the issuing worker task is processing; a relative argument is resolved against the directory selected by CWD, so
that a client which changes directory and then lists "here" is judged by what it listed.  The start of every visit
(begin) and the URL table calls (add_many / check_in) are recorded for the strict trace spec.  A crawl that does not
end (CPU-time watchdog, command cap) becomes outcome 'hang'.
"""
import asyncio
import functools
import os
import shutil
import signal
import tempfile

from harness import fakenet, vloop

HOST = 'h.test'
IP = '10.0.0.3'
BASE = 'ftp://' + HOST


# ------------------------------------------------------------------ scenario helpers
def norm_opt(opt=None, **kw):
    o = dict(r=False, lvl=5, np=False, glob=True, acc=[], rej=[], inc=[], exc=[], rxa='', rxr='')
    o.update(opt or {})
    o.update(kw)
    return o


def url_of(start):
    p = '/'.join(start['p'])
    return BASE + '/' + p + ('/' if start['slash'] and p else '')


def argv_of(scen, db, directory):
    o = scen['opt']
    a = [url_of(s) for s in scen['starts']]
    a += ['--very-quiet', '--database', db, '-P', directory, '--waitretry', '0', '--tries', '1', '--timeout', '30',
          '--html-parser', 'html5lib', '--no-robots', '--no-check-certificate']
    if o['r']:
        a.append('-r')
    if o['lvl'] != 5:
        a += ['-l', 'inf' if o['lvl'] == 0 else str(o['lvl'])]
    if o['np']:
        a.append('--no-parent')
    if not o['glob']:
        a.append('--no-glob')
    if o['acc']:
        a += ['-A', ','.join(o['acc'])]
    if o['rej']:
        a += ['-R', ','.join(o['rej'])]
    if o['inc']:
        a += ['-I', ','.join('/' + '/'.join(d) for d in o['inc'])]
    if o['exc']:
        a += ['-X', ','.join('/' + '/'.join(d) for d in o['exc'])]
    if o['rxa']:
        a += ['--accept-regex', o['rxa']]
    if o['rxr']:
        a += ['--reject-regex', o['rxr']]
    return a


class Tree(object):
    def __init__(self, entries, dots=False):
        self.kind = {(): 'd'}
        for e in entries:
            self.kind[tuple(e['p'])] = e['k']
        self.dots = dots

    def children(self, segs):
        n = len(segs)
        # listing order = the order of the scenario's tree (the model records children in that order)
        return [(p[-1], k) for p, k in self.kind.items() if len(p) == n + 1 and p[:n] == tuple(segs)]

    def content(self, segs):
        return ('content of /' + '/'.join(segs) + '\n').encode()

    def list_payload(self, segs):
        lines = []
        if self.dots:
            lines.append('drwxr-xr-x 2 ftp ftp 4096 Jan 01  2020 .')
            lines.append('drwxr-xr-x 2 ftp ftp 4096 Jan 01  2020 ..')
        for name, k in self.children(segs):
            if k == 'd':
                lines.append('drwxr-xr-x 2 ftp ftp 4096 Jan 01  2020 %s' % name)
            else:
                lines.append('-rw-r--r-- 1 ftp ftp %d Jan 01  2020 %s' % (len(self.content(tuple(segs) + (name,))), name))
        return ('\r\n'.join(lines) + '\r\n').encode() if lines else b''

    def mlsd_payload(self, segs):
        lines = []
        if self.dots:
            lines.append('type=cdir;modify=20200101000000; .')
            lines.append('type=pdir;modify=20200101000000; ..')
        for name, k in self.children(segs):
            if k == 'd':
                lines.append('type=dir;modify=20200101000000; %s' % name)
            else:
                lines.append('type=file;size=%d;modify=20200101000000; %s'
                             % (len(self.content(tuple(segs) + (name,))), name))
        return ('\r\n'.join(lines) + '\r\n').encode() if lines else b''


def segs_of(arg):
    """Path argument of a command -> list of segments (the server's view; '.' and '..' are NOT resolved: wpull
    normalises URLs before it builds commands, a surviving '..' is simply a path outside the tree)."""
    return [s for s in arg.split('/') if s != '']


# ------------------------------------------------------------------ the scripted server
class Control(fakenet.BaseServer):
    def __init__(self, run, ep):
        self.run = run
        self.buf = b''
        self.data_ep = None
        self.cwd = []

    def on_connect(self, ep):
        ep.send(b'220 ready\r\n')

    def on_data(self, ep, data):
        self.buf += data
        while b'\r\n' in self.buf:
            line, self.buf = self.buf.split(b'\r\n', 1)
            self.command(ep, line)

    def command(self, ep, line):
        run = self.run
        tree = run.tree
        name, _, arg = line.partition(b' ')
        name = name.upper().decode('latin-1')
        arg = arg.decode('utf-8', 'replace')
        if name in ('LIST', 'NLST') and arg.startswith('-'):
            arg = ' '.join(t for t in arg.split(' ') if not t.startswith('-'))       # ls options
        if name in ('LIST', 'MLSD', 'NLST', 'RETR', 'SIZE', 'CWD', 'MDTM', 'MLST', 'STAT'):
            # a relative argument (or none) is resolved against the directory a previous CWD selected: a client
            # that changes directory first and then lists "here" is judged by the directory it listed
            if not arg.startswith('/'):
                arg = '/' + '/'.join(self.cwd + ([arg] if arg else [])) + ('/' if not arg and self.cwd else '')
            run.on_command(name, arg)
        else:
            run.other_cmds[name] = run.other_cmds.get(name, 0) + 1
        if name == 'USER':
            ep.send(b'331 need password\r\n')
        elif name == 'PASS':
            ep.send(b'230 logged in\r\n')
        elif name == 'TYPE':
            ep.send(b'200 ok\r\n')
        elif name == 'SIZE':
            p = tuple(segs_of(arg))
            if tree.kind.get(p) == 'f' and not arg.endswith('/'):
                ep.send(('213 %d\r\n' % len(tree.content(p))).encode())
            else:
                ep.send(b'550 not a plain file\r\n')
        elif name == 'PASV':
            run.pasv += 1
            port = 1024 + run.pasv
            ctl = self

            def accept(dep, ctl=ctl):
                ctl.data_ep = dep
                return fakenet.BaseServer()
            run.net.listen(IP, port, accept)
            ep.send(('227 Entering Passive Mode (10,0,0,3,%d,%d)\r\n' % (port // 256, port % 256)).encode())
        elif name == 'MLSD' and not run.mlsd:
            ep.send(b'500 unknown command\r\n')
        elif name in ('LIST', 'MLSD', 'RETR'):
            p = tuple(segs_of(arg))
            k = tree.kind.get(p)
            if name == 'RETR':
                ok = k == 'f' and not arg.endswith('/')
                payload = tree.content(p) if ok else b''
            else:
                ok = k == 'd'
                payload = (tree.mlsd_payload(p) if name == 'MLSD' else tree.list_payload(p)) if ok else b''
            if not ok:
                ep.send(b'550 no such file or directory\r\n')
                return
            ep.send(b'150 here it comes\r\n')
            dep = self.data_ep
            self.data_ep = None
            if dep is not None:
                dep.send(payload)
                dep.close()
            ep.send(b'226 done\r\n')
        elif name == 'CWD':
            self.cwd = segs_of(arg)
            ep.send(b'250 ok\r\n')
        elif name == 'CDUP':
            self.cwd = self.cwd[:-1]
            ep.send(b'250 ok\r\n')
        elif name == 'PWD':
            ep.send(('257 "/%s"\r\n' % '/'.join(self.cwd)).encode())
        elif name == 'REST':
            ep.send(b'350 ok\r\n')
        elif name == 'QUIT':
            ep.send(b'221 bye\r\n')
            ep.close()
        else:
            ep.send(b'502 not implemented\r\n')


class Runaway(BaseException):
    """The crawl keeps issuing commands / burning CPU without end: turned into a `hang` observation."""


def _alarm(signum, frame):
    raise Runaway('cpu')


def key_of_url(url):
    """URL text -> {'p': [...], 'slash': bool} (None if not a URL of the scripted host)."""
    if not url.startswith(BASE + '/'):
        return None
    path = url[len(BASE):]
    path = path.split('?', 1)[0].split('#', 1)[0]
    import urllib.parse
    segs = [urllib.parse.unquote(s) for s in path.split('/') if s != '']
    return {'p': segs, 'slash': path.endswith('/')}


class FtpCrawl(object):
    MAX_CMDS = 600
    CPU_LIMIT = 30.0

    def __init__(self, scen, workdir=None):
        self.scen = scen
        self.tree = Tree(scen['tree'], scen.get('dots', False))
        self.mlsd = bool(scen.get('mlsd', False))
        self.conc = int(scen.get('conc', 1))
        self.ev = []
        self.task_item = {}
        self.other_cmds = {}
        self.pasv = 0
        self.ncmd = 0
        self.workdir = workdir
        self.outcome = None
        self.exit_code = None
        self.exc = ''

    # ---- server side
    def on_command(self, name, arg):
        t = None
        try:
            t = asyncio.current_task()
        except RuntimeError:
            pass
        item = self.task_item.get(t)
        self.ncmd += 1
        self.ev.append({'e': 'cmd', 'c': name, 'p': segs_of(arg), 'slash': arg.endswith('/'), 'raw': arg,
                        'item': item if item is not None else {'p': ['?'], 'slash': False}})
        if self.ncmd > self.MAX_CMDS:
            raise Runaway('commands')

    # ---- application
    def build(self, db, directory):
        from wpull.application.builder import Builder
        from wpull.application.options import AppArgumentParser
        from wpull.network.pool import ConnectionPool
        from wpull.database.sqltable import SQLiteURLTable
        from wpull.processor.delegate import DelegateProcessor
        run = self
        net = self.net = fakenet.FakeNet()
        net.add_host(HOST, IP)
        net.listen(IP, 21, lambda ep: Control(run, ep))

        class FakePool(ConnectionPool):
            def __init__(self, *a, connection_factory=None, ssl_connection_factory=None, **kw):
                kws = dict(getattr(connection_factory, 'keywords', {}) or {})
                kws.pop('bind_host', None)
                kws.pop('bandwidth_limiter', None)
                cf = functools.partial(net.connection_factory, **kws)
                ConnectionPool.__init__(self, *a, connection_factory=cf, ssl_connection_factory=cf, **kw)

        class FakeRes(fakenet.FakeResolver):
            def __init__(self, *a, **kw):
                fakenet.FakeResolver.__init__(self, net, *a, **kw)

        def ukey(url):
            k = key_of_url(url)
            return k if k is not None else {'p': ['?'], 'slash': False}

        class TracingTable(SQLiteURLTable):
            def add_many(self, new_urls):
                new_urls = tuple(new_urls)
                res = SQLiteURLTable.add_many(self, new_urls)
                if not new_urls:
                    return res
                added = set(res)
                kids = []
                parent = None
                for x in new_urls:
                    props = x[1]
                    lvl = props.level if props is not None and props.level is not None else 0
                    lt = getattr(props, 'link_type', None) if props is not None else None
                    if props is not None and props.parent_url:
                        parent = props.parent_url
                    kids.append({'u': ukey(x[0]), 'lvl': int(lvl), 'lt': (lt.value if lt is not None else 'none'),
                                 'new': x[0] in added})
                run.ev.append({'e': 'add', 'seed': parent is None,
                               'item': ukey(parent) if parent is not None else {'p': ['?'], 'slash': False},
                               'kids': kids})
                return res

            def check_out(self, filter_status, level=None):
                rec = SQLiteURLTable.check_out(self, filter_status, level)
                run.ev.append({'e': 'out', 'u': ukey(rec.url), 'lvl': int(rec.level or 0),
                               'lt': (rec.link_type.value if rec.link_type is not None else 'none')})
                return rec

            def check_in(self, url, new_status, increment_try_count=True, url_result=None):
                SQLiteURLTable.check_in(self, url, new_status, increment_try_count, url_result)
                run.ev.append({'e': 'in', 'u': ukey(url), 'st': new_status.value})

        class TracedProcessor(DelegateProcessor):
            @asyncio.coroutine
            def process(self, item_session):
                t = asyncio.current_task()
                rec = item_session.url_record
                run.task_item[t] = ukey(rec.url)
                run.ev.append({'e': 'begin', 'u': ukey(rec.url), 'lvl': int(rec.level or 0),
                               'lt': (rec.link_type.value if rec.link_type is not None else 'none')})
                try:
                    return (yield from DelegateProcessor.process(self, item_session))
                finally:
                    run.task_item.pop(t, None)

        self.argv = argv_of(self.scen, db, directory)
        args = AppArgumentParser().parse_args(self.argv)
        b = Builder(args)
        b.factory.class_map['Processor'] = TracedProcessor
        b.factory.class_map['ConnectionPool'] = FakePool
        b.factory.class_map['Resolver'] = FakeRes
        b.factory.class_map['URLTableImplementation'] = TracingTable
        self.builder = b
        app = b.build()
        b.factory['PipelineSeries'].concurrency = self.conc
        return app

    def execute(self):
        own = self.workdir is None
        wd = self.workdir or tempfile.mkdtemp(prefix='c02ftp_', dir='/dev/shm' if os.path.isdir('/dev/shm') else None)
        old = os.getcwd()
        os.chdir(wd)
        oldsig = signal.signal(signal.SIGVTALRM, _alarm)
        signal.setitimer(signal.ITIMER_VIRTUAL, self.CPU_LIMIT)
        try:
            try:
                os.makedirs(os.path.join(wd, 'out'), exist_ok=True)
                app = self.build(os.path.join(wd, 'db.sqlite'), os.path.join(wd, 'out'))
                kind, val = vloop.run(lambda: app.run(), lambda: False, env_before_timer=True)
            except Runaway as e:
                kind, val = 'exc', e
            if kind == 'exc' and isinstance(val, Runaway):
                kind = 'hang'
                self.exc = 'runaway: %s' % val
            elif kind == 'exc':
                self.exc = '%s: %s' % (type(val).__name__, val)
            self.outcome = kind
            self.exit_code = int(val) if kind == 'ok' else -1
        finally:
            signal.setitimer(signal.ITIMER_VIRTUAL, 0)
            signal.signal(signal.SIGVTALRM, oldsig)
            os.chdir(old)
            if own:
                shutil.rmtree(wd, ignore_errors=True)
        self.ev.append({'e': 'end', 'outcome': self.outcome, 'code': self.exit_code})
        return self.ev


def run_scenario(scen):
    c = FtpCrawl(scen)
    c.execute()
    return c
