"""Execute HTTP exchanges of a scenario against the REAL wpull.protocol.http.client.Client/Session/Stream
(and, for C04, the real wpull.warc.recorder.WARCRecorder) over harness.fakenet under harness.vloop.

A scenario is a list of exchanges {'cm': concrete message (drivers/httpwire_msg.py), 'pieces': [piece lengths]}.
The fake server answers request x with exactly the octets Sent(cm_x), cut into exactly those pieces (one piece
per blocked read), then closes if the message says so (the FIN travels with the last piece).  When the client
blocks although the server has nothing more to send, the server's idle timeout closes the connection (event
`stall`).

Recorded events (concrete octets):
  conn(x)            a new connection was opened for exchange x
  ans(x)             the server answers request x (queues Sent(cm_x)); feed(x, n): a piece of n octets arrives
  breq/ereq/bresp/eresp(x)   Session begin_request / end_request / begin_response / end_response
  req(x, data)       Session request_data (what the WARC recorder is fed for the request record)
  rd(x, data)        Session response_data (what the WARC recorder is fed for the response record)
  dl(x, data)        file.write of the download file
  stall(x)
  done(x, out, closed, left, unseen, srv)   outcome class; connection closed by the client; octets received and
                     not consumed; octets sent and not received; octets the server received for request x
  rec(t, uri, id, conc, block)   one per request/response/revisit record of the WARC file, read back by an
                     independent reader;  warc_end
"""
import asyncio
import io
import os
import shutil
import tempfile

from harness import vloop, fakenet
from drivers import httpwire_msg as M

from wpull.network.pool import ConnectionPool
from wpull.protocol.http.client import Client
from wpull.protocol.http.request import Request
from wpull.errors import ProtocolError, NetworkError

HOST = 'h.test'
IP = '10.0.0.1'


def url_of(x):
    return 'http://%s/p%d' % (HOST, x)


class RecFile(io.BytesIO):
    def __init__(self, run, x):
        super().__init__()
        self._run = run
        self._x = x

    def write(self, data):
        data = bytes(data)
        if data:
            self._run.log(e='dl', x=self._x, data=data)
        return super().write(data)


class Server(fakenet.BaseServer):
    def __init__(self, run, ep):
        self.run = run
        self.buf = b''

    def on_connect(self, ep):
        run = self.run
        run.log(e='conn', x=run.x)
        orig = ep._pump

        def pump():
            n0 = len(ep.delivered)
            orig()
            if len(ep.delivered) > n0:
                run.log(e='feed', x=run.x, n=len(ep.delivered[-1]))
            # the FIN arrives right behind the last data
            if ep.out and ep.out[0] is fakenet._EOF and ep.delivered and not ep.client_closed:
                ep.out.popleft()
                ep.reader.feed_eof()
        ep._pump = pump

    def on_data(self, ep, data):
        run = self.run
        run.cur_ep = ep
        run.srv_recv += data
        self.buf += data
        while b'\r\n\r\n' in self.buf:
            _, self.buf = self.buf.split(b'\r\n\r\n', 1)
            if ep.server_closed or run.answered.get(run.x):
                continue
            run.answered[run.x] = True
            run.log(e='ans', x=run.x)
            ex = run.exchanges[run.x - 1]
            # the pieces cut (octets still in flight on this connection + this message)
            pending = b''.join(q for q in ep.out if isinstance(q, (bytes, bytearray)))
            ep.out.clear()
            ep.send(pending + M.sent(ex['cm']), list(ex['pieces']))
            if ex['cm']['sclose'] or ex['cm']['trunc'] != M.NOTRUNC:
                ep.close()


class Run(object):
    def __init__(self, exchanges, warc=False, dedup=(), ignore_length=False):
        self.exchanges = exchanges
        self.warc = warc
        self.ignore_length = bool(ignore_length)     # --ignore-length: Content-Length is not a delimiter
        self.dedup = sorted(set(dedup))      # exchanges the URL table declares "seen before with this payload"
        self.ev = []
        self.x = 0
        self.cur_ep = None
        self.srv_recv = b''
        self.answered = {}
        self.warc_info = {}
        self.error_detail = {}

    def log(self, **kw):
        self.ev.append(kw)

    # ---- environment: nothing is runnable
    def env_step(self):
        ep = self.cur_ep
        if ep is None or ep.server_closed or ep.client_closed:
            return False
        self.log(e='stall', x=self.x)
        ep.close()
        return True

    async def _one(self, client, x):
        ex = self.exchanges[x - 1]
        cm = ex['cm']
        self.x = x
        self.srv_recv = b''
        self.cur_ep = None
        f = RecFile(self, x)
        req = Request(url_of(x), method=cm['method'])
        post = ex.get('post')
        if post is not None and cm['method'] == 'GET':
            # a request WITH a body (--post-data), built the way the web processor builds it; for the framing of the
            # response it is a GET
            from wpull.body import Body
            req.method = 'POST'
            req.fields['Content-Type'] = 'application/x-www-form-urlencoded'
            req.fields['Content-Length'] = str(len(post))
            req.body = Body(io.BytesIO())
            req.body.write(post)
            req.body.seek(0)
        out = 'ok'
        try:
            with client.session() as s:
                E = s.Event
                d = s.event_dispatcher
                d.add_listener(E.begin_request, lambda r: self.log(e='breq', x=x))
                d.add_listener(E.request_data, lambda data: self.log(e='req', x=x, data=bytes(data)))
                d.add_listener(E.end_request, lambda r: self.log(e='ereq', x=x))
                d.add_listener(E.begin_response, lambda r: self.log(e='bresp', x=x))
                d.add_listener(E.response_data, lambda data: data and self.log(e='rd', x=x, data=bytes(data)))
                d.add_listener(E.end_response, lambda r: self.log(e='eresp', x=x))
                await s.start(req)
                await s.download(f)
        except ProtocolError as e:
            out = 'protocol_error'
            self.error_detail[x] = repr(e)
        except NetworkError as e:
            out = 'network_error'
            self.error_detail[x] = repr(e)
        except Exception as e:  # noqa
            out = 'other_error'
            self.error_detail[x] = repr(e)
        ep = self.cur_ep
        if ep is None:
            self.log(e='done', x=x, out=out, closed=True, left=0, unseen=0, srv=self.srv_recv)
        else:
            left = len(ep.reader._buffer)
            unseen = sum(len(p) for p in ep.out if isinstance(p, (bytes, bytearray)))
            self.log(e='done', x=x, out=out, closed=bool(ep.client_closed), left=left, unseen=unseen,
                     srv=self.srv_recv)

    async def _go(self, tmp):
        net = self.net
        pool = ConnectionPool(resolver=net.resolver(), connection_factory=net.connection_factory,
                              ssl_connection_factory=net.connection_factory)
        if self.ignore_length:
            import functools
            from wpull.protocol.http.stream import Stream
            client = Client(connection_pool=pool, stream_factory=functools.partial(Stream, ignore_length=True, keep_alive=True))
        else:
            client = Client(connection_pool=pool)
        recorder = None
        if self.warc:
            from wpull.warc.recorder import WARCRecorder, WARCRecorderParams
            run = self

            class Table(object):
                """What --warc-dedup loads from an older CDX: (url, payload digest) -> record id."""
                def get_revisit_id(self, url, digest):
                    for x in run.dedup:
                        if url == url_of(x) and digest:
                            return '<urn:uuid:00000000-0000-4000-8000-%012d>' % x
                    return None
            recorder = WARCRecorder(os.path.join(tmp, 'out'),
                                    params=WARCRecorderParams(compress=False, temp_dir=tmp, log=False, digests=True,
                                                              url_table=Table() if self.dedup else None))
            recorder.listen_to_http_client(client)
        try:
            for x in range(1, len(self.exchanges) + 1):
                await self._one(client, x)
        finally:
            if recorder is not None:
                recorder.close()

    def execute(self):
        self.net = net = fakenet.FakeNet()
        net.add_host(HOST, IP)
        net.listen(IP, 80, lambda ep: Server(self, ep))
        tmp = tempfile.mkdtemp(prefix='hw_') if self.warc else None
        try:
            kind, val = vloop.run(lambda: self._go(tmp), self.env_step)
            if kind == 'hang':
                self.log(e='done', x=self.x, out='hang', closed=False, left=0, unseen=0, srv=self.srv_recv)
            elif kind == 'exc':
                raise val
            if self.warc:
                try:
                    self._read_warc(os.path.join(tmp, 'out.warc'))
                except (ValueError, KeyError, IndexError) as e:
                    # an archive that cannot be read back is an observation (clause WarcParses), not a harness crash
                    self.log(e='warc_bad', why=str(e)[:120])
                    self.log(e='warc_end')
        finally:
            if tmp:
                shutil.rmtree(tmp, ignore_errors=True)
        return self.ev

    # ---- independent minimal WARC reader (ISO 28500: version line, named fields, blank line, block, CRLF CRLF)
    def _read_warc(self, path):
        with open(path, 'rb') as fh:
            data = fh.read()
        pos = 0
        n = 0
        while pos < len(data):
            if not data.startswith(b'WARC/1.0\r\n', pos):
                raise ValueError('WARC reader: no version line at offset %d' % pos)
            hend = data.index(b'\r\n\r\n', pos)
            fields = {}
            for line in data[pos + 10:hend].split(b'\r\n'):
                k, _, v = line.partition(b':')
                fields[k.strip().lower()] = v.strip()
            length = int(fields[b'content-length'])
            block = data[hend + 4:hend + 4 + length]
            if data[hend + 4 + length:hend + 8 + length] != b'\r\n\r\n':
                raise ValueError('WARC reader: record at %d is not followed by CRLF CRLF' % pos)
            pos = hend + 8 + length
            n += 1
            t = fields.get(b'warc-type', b'').decode('latin-1')
            if t in ('request', 'response', 'revisit'):
                self.log(e='rec', t=t, uri=fields.get(b'warc-target-uri', b'').decode('latin-1'),
                         id=fields.get(b'warc-record-id', b'').decode('latin-1'),
                         conc=fields.get(b'warc-concurrent-to', b'').decode('latin-1'),
                         ctype=fields.get(b'content-type', b'').decode('latin-1'), block=block)
        self.warc_info['records'] = n
        self.log(e='warc_end')


# ------------------------------------------------------------------------------------------ traces for TLC
def mon_trace(run, prop):
    """The monitor's input: concrete messages + concrete events (octets as int lists).  Consecutive data events of
    one exchange are concatenated here (the monitor concatenates them anyway; the comparison with the reference
    is done by TLC)."""
    ev = []
    acc = {}
    new_conn = False
    for e in run.ev:
        k = e['e']
        if k == 'conn':
            new_conn = True         # the next request goes out on a connection opened for it
        if k in ('ans', 'feed', 'conn'):
            continue
        if k in ('req', 'rd', 'dl'):
            key = (k, e['x'])
            if key in acc:
                acc[key]['data'] += list(e['data'])
            else:
                acc[key] = {'e': k, 'x': e['x'], 'data': list(e['data'])}
                if k == 'req':
                    acc[key]['new'] = new_conn
                    new_conn = False
                ev.append(acc[key])
            continue
        e = dict(e)
        for f in ('srv', 'block'):
            if f in e:
                e[f] = list(e[f])
        ev.append(e)
    msgs = [M.to_json_msg(ex['cm']) for ex in run.exchanges]
    if getattr(run, 'ignore_length', False):
        # the reference for --ignore-length: the same message read as if it carried no Content-Length at all
        msgs = [dict(m, hascl=False, clok=False) for m in msgs]
    return {'prop': prop, 'dedup': list(getattr(run, 'dedup', [])), 'msgs': msgs,
            'urls': [url_of(x + 1) for x in range(len(run.exchanges))], 'ev': ev}


STRICT_MAX_EVENTS = 250
STRICT_MAX_OCTETS = 1200


def units_of(cm):
    """Sent(cm) as a list of (abstract item, concrete octets): header-line token <-> line content, everything
    else octet by octet.  None when the truncation cuts a header-line token."""
    units = []
    for part, content, eol, t in cm['lines']:
        if t is not None:
            units.append((t, content))
        else:
            units += [(b, bytes([b])) for b in content]
        units += [(b, bytes([b])) for b in eol]
    units += [(b, bytes([b])) for b in M.wbody(cm)]
    if cm['trunc'] != M.NOTRUNC:
        out = []
        n = 0
        for u in units:
            if n >= cm['trunc']:
                break
            if n + len(u[1]) > cm['trunc']:
                return None
            out.append(u)
            n += len(u[1])
        units = out
    return units


def strict_trace(run):
    """The strict trace spec's input: abstract messages + abstracted events - or None when the execution has no
    abstract counterpart (a message cut inside a header-line token, a content-coded body, a read that slices a
    header line)."""
    amsgs = []
    if len(run.ev) > STRICT_MAX_EVENTS or sum(len(M.full(ex['cm'])) for ex in run.exchanges) > STRICT_MAX_OCTETS:
        return None       # every state of the trace spec carries the messages: large ones are left to the monitor
    for ex in run.exchanges:
        if ex['cm']['coded']:
            return None
        if ex['cm'].get('interim_code', 100) != 100 or ex['cm'].get('nonabstract'):
            return None
        am = M.abstract_of(ex['cm'])
        if am is None:
            return None
        amsgs.append(am)
    cur = None
    out = []
    last_rd = None
    new_conn = False
    for e in run.ev:
        k = e['e']
        x = e.get('x')
        if k == 'conn':
            cur = {'units': [], 'ends': [0], 'fedc': 0, 'fedu': 0, 'cons': 0}
            new_conn = True
        elif k == 'breq':
            out.append({'e': 'req', 'x': x, 'new': new_conn})
            new_conn = False
        elif k == 'ans':
            us = units_of(run.exchanges[x - 1]['cm'])
            if us is None or cur is None:
                return None
            for u in us:
                cur['units'].append(u)
                cur['ends'].append(cur['ends'][-1] + len(u[1]))
        elif k == 'feed':
            cur['fedc'] += e['n']
            u = cur['fedu']
            while u < len(cur['units']) and cur['ends'][u + 1] <= cur['fedc']:
                u += 1
            if u > cur['fedu']:
                out.append({'e': 'feed', 'x': x, 'n': u - cur['fedu']})
                cur['fedu'] = u
        elif k == 'rd':
            data = e['data']
            a = []
            n = 0
            u = cur['cons']
            while n < len(data) and u < len(cur['units']):
                a.append(cur['units'][u][0])
                n += len(cur['units'][u][1])
                u += 1
            if n != len(data) or b''.join(c for (_, c) in cur['units'][cur['cons']:u]) != data:
                return None
            cur['cons'] = u
            last_rd = (data, a)
            out.append({'e': 'rd', 'x': x, 'data': a})
        elif k == 'dl':
            if last_rd is None or last_rd[0] != e['data']:
                return None
            out.append({'e': 'dl', 'x': x, 'data': last_rd[1]})
        elif k == 'stall':
            out.append({'e': 'stall', 'x': x})
        elif k == 'done':
            if cur is None or e['out'] == 'hang':
                return None
            consc = cur['fedc'] - e['left']
            if consc not in cur['ends'][:len(cur['units']) + 1]:
                return None
            consu = cur['ends'].index(consc)
            if cur['fedu'] < consu:
                return None
            out.append({'e': 'done', 'x': x, 'out': e['out'], 'closed': e['closed'],
                        'left': cur['fedu'] - consu, 'unseen': len(cur['units']) - cur['fedu']})
            last_rd = None
    return {'msgs': amsgs, 'ev': out}
