"""C09 - nothing a server sends can end the crawl: bad input becomes a per-URL error.   (claimed PARTIALLY, DESIGN 8)

  1. design check (TLC, ErrorFlow.tla): every (site, kind) is pushed through the try/except frames transcribed from
     the source; the set of predicted escapes among the remotely provokable pairs must equal the documented suspect
     list; the recursive prediction used by the monitor agrees with the step semantics.
  2. cases enumerated by TLC from ErrorFlowGen.tla (spec -> code):
       (a) fault enumeration   Injectable sites x Kinds: the real object at the site is made to raise the kind while
                               the real application crawls a 3-URL site
       (b) wire malformations  classes x segmentations (HTTP page, robots.txt, FTP control/data/listing, FTP parent
                               listing) + a premature close at every byte offset of reference responses
       (c) document mutations  token sequences x charset labels through the REAL scrapers (html5lib HTMLScraper,
                               CSSScraper, JavaScriptScraper, SitemapScraper) and ProcessingRule.scrape_document,
                               in process; the ones that raise + a sample also through a complete crawl
  3. every run is turned into a trace and judged by TLC with ErrorFlowMon.tla (property clauses on what was observed;
     MODEL-DRIFT when the observation differs from ErrorFlow.tla's prediction).
"""
import json
import os
import random
import re
import shutil
import sys
import tempfile
import traceback
import multiprocessing
from concurrent.futures import ProcessPoolExecutor

from harness import tlc
from drivers import errorflow_gen as G

CLAUSES = {1: 'NoHang', 2: 'NoEscape', 3: 'ObsClean', 4: 'OthersFetched', 5: 'AllRowsFinal', 6: 'TargetFinal',
           7: 'UnitEscape'}
DRIFTS = {1: 'outcome differs from the model', 2: 'exception kinds at the observation points differ from the model',
          3: 'an exception left an observation point in a case the model expects to be tolerated'}

PMAP = {'http.start': 'ObsHttpStart', 'http.download': 'ObsHttpDownload', 'ftp.start': 'ObsFtpStart',
        'ftp.start_listing': 'ObsFtpStart', 'ftp.download': 'ObsFtpDownload', 'ftp.download_listing': 'ObsFtpListing',
        'robots.can_fetch': 'ObsRobots', 'scrape_info': 'ObsScrapeInfo'}

EXPECT_ACTIONS = ['Primitive', 'Stream', 'Session', 'Web', 'Scraper', 'Processor', 'Task', 'WorkerL', 'Pipeline', 'App']


# ------------------------------------------------------------------ TLC: design + generation
ALL_FIXES = ['chunk_readline', 'trailer_lenient', 'ftp_reply_readline', 'ftp_two_finals', 'msdos_short', 'ftp_parent',
             'charset_codec', 'last_modified', 'win_names', 'sitemap_gzip', 'pasv_range', 'deflate_fallback',
             'perm_listing', 'symlink_create', 'continue_refused', 'writer_names']


def detect_fixes():
    """Which of the proposed repairs does the tree under test contain?  (ErrorFlow.tla models the tree AS IT IS:
    constant Fixes.)  Behaviour probes where a pure function can be called, source inspection otherwise.  A wrong
    answer can only cause MODEL-DRIFT or a failing design check, never hide a violation: what is judged does not depend
    on the model's prediction."""
    import inspect
    import tempfile as tf
    from wpull.protocol.http.chunked import ChunkedTransferReader
    from wpull.protocol.http.stream import Stream
    from wpull.protocol.ftp.stream import ControlStream
    from wpull.protocol.ftp.request import Reply
    from wpull.protocol.ftp.ls.listing import LineParser, ListingError
    from wpull.processor.ftp import FTPProcessorSession
    from wpull.scraper.sitemap import SitemapScraper
    from wpull.writer import BaseFileWriterSession
    import wpull.string
    import wpull.path
    fx = set()

    def src(f):
        return inspect.getsource(f)
    if 'except ValueError' in src(ChunkedTransferReader.read_chunk_body) and \
            'except ValueError' in src(ChunkedTransferReader.read_trailer):
        fx.add('chunk_readline')
    if re.search(r'parse\(\s*trailer_data\s*,\s*strict\s*=\s*False', src(Stream._read_body_by_chunk)):
        fx.add('trailer_lenient')
    if 'except ValueError' in src(ControlStream.read_reply):
        fx.add('ftp_reply_readline')
    try:
        r = Reply()
        r.parse(b'150 a\r150 b\r\n')
        fx.add('ftp_two_finals')
    except AssertionError:
        pass
    except Exception:
        fx.add('ftp_two_finals')
    try:
        list(LineParser().parse_msdos(['2012']))
    except IndexError:
        pass
    except ListingError:
        fx.add('msdos_short')
    if 'except REMOTE_ERRORS' in src(FTPProcessorSession.process):
        fx.add('ftp_parent')
    try:
        wpull.string.try_decoding(b'abc', 'hex')
        fx.add('charset_codec')
    except LookupError:
        pass
    try:
        class R(object):
            fields = {'Last-Modified': 'yesterday'}
        with tf.NamedTemporaryFile() as f:
            BaseFileWriterSession.set_timestamp(f.name, R())
        fx.add('last_modified')
    except TypeError:
        pass
    try:
        wpull.path.safe_filename('x.', os_type='windows')
        fx.add('win_names')
    except ValueError:
        pass
    if 'EOFError' in src(SitemapScraper.scrape):
        fx.add('sitemap_gzip')
    import wpull.protocol.ftp.util as futil
    try:
        futil.parse_address('(10,0,0,3,999,999)')
    except ValueError:
        fx.add('pasv_range')
    # raw deflate fed one byte at a time decodes (the fallback replays everything seen so far)
    import zlib
    from wpull.decompression import DeflateDecompressor
    co = zlib.compressobj(6, zlib.DEFLATED, -15)
    raw = co.compress(b'hello hello hello') + co.flush()
    try:
        d = DeflateDecompressor()
        out = b''.join(d.decompress(raw[i:i + 1]) for i in range(len(raw))) + d.flush()
        if out == b'hello hello hello':
            fx.add('deflate_fallback')
    except Exception:
        pass
    m = re.search(r'preserve_permissions(.*)', src(FTPProcessorSession._fetch), re.S)
    if m and 'except REMOTE_ERRORS' in m.group(1):
        fx.add('perm_listing')
    if re.search(r'except\s*\(?\s*(OSError|ValueError)', src(FTPProcessorSession._make_symlink)):
        fx.add('symlink_create')
    try:
        w = BaseFileWriterSession.__new__(BaseFileWriterSession)
        w._filename = 'x'
        w._raise_cannot_continue_error()
    except Exception as e:
        from wpull.errors import ProtocolError
        if isinstance(e, ProtocolError):
            fx.add('continue_refused')
    try:
        from wpull.writer import BaseFileWriterSession
        from wpull.errors import ProtocolError
        try:
            BaseFileWriterSession.open_file('verif\x00probe', type('R', (), {})())
        except ProtocolError:
            fx.add('writer_names')
        except Exception:
            pass
    except Exception:
        pass
    return sorted(fx)


def probe_real_connect():
    """The in-memory network has no sockets: check on a REAL event loop what the real Connection does with a port
    number above 65535 (which a PASV reply can name); FaultNet._open reproduces exactly that."""
    import asyncio
    from wpull.network.connection import Connection

    async def main():
        try:
            await Connection(('127.0.0.1', 256743), connect_timeout=2).connect()
        except BaseException as e:      # noqa
            return type(e).__name__
        return 'connected'
    loop = asyncio.new_event_loop()
    try:
        return loop.run_until_complete(main())
    finally:
        loop.close()


def tla_set(names):
    return '{' + ', '.join('"%s"' % n for n in names) + '}'


def design_cfg(sslv, fixes):
    return ('SPECIFICATION Spec\nCONSTANT SSLVerify = %s\nCONSTANT Fixes = %s\nINVARIANT TypeOK\nINVARIANT NoFallOff\n'
            'INVARIANT PredictAgrees\nINVARIANT RemoteHandledAtProcessor\nINVARIANT C09Model\nPROPERTY Finishes\n'
            'CHECK_DEADLOCK FALSE\n' % ('TRUE' if sslv else 'FALSE', tla_set(fixes)))


def gen_cases(which, fixes, doclen=1):
    mc = ('---- MODULE EFGenMC ----\nEXTENDS ErrorFlowGen\nMCLayouts == %s\n====\n' % G.layouts_tla())
    cfg = ('SPECIFICATION GSpec\nCONSTANT SSLVerify = FALSE\nCONSTANT Fixes = %s\nCONSTANT Layouts <- MCLayouts\n'
           'CONSTANT DocLen = %d\nCONSTANT Which = "%s"\nCONSTRAINT Emit\nCHECK_DEADLOCK FALSE\n'
           % (tla_set(fixes), doclen, which))
    res = tlc.run_tlc('EFGenMC', cfg, workers=1, timeout=1200, extra_files={'EFGenMC.tla': mc}, heap='3g')
    tlc.require_ok(res, 'ErrorFlowGen ' + which)
    out = []
    seen = set()
    for m in re.finditer(r'<<"CASE", "(.*?)">>', res['out']):
        txt = m.group(1)
        if txt in seen:         # TLC evaluates the constraint on the initial state and on its (identical) successor
            continue
        seen.add(txt)
        out.append(json.loads(txt.replace('\\"', '"').replace('\\\\', '\\')))
    if not out:
        raise tlc.TLCError('ErrorFlowGen produced no %s cases' % which)
    return out, res


# ------------------------------------------------------------------ fault scenarios: how a site is reached and armed
def fault_scenario(site, kind):
    """-> job description for (site, kind)."""
    R = G.resp
    ch_head = G.chunked(b'')
    j = dict(fault=dict(site=site, kind=kind))
    if site.startswith('h_'):
        j['ctx'] = 'page'
        d = dict(data=R(), close=True, fail=None)
        if site == 'h_hdr_readline':
            d = dict(data=b'HTTP/1.1 200 OK\r\n', close=False, fail=kind)
        elif site == 'h_body_read':
            d = dict(data=R(cl=b'100'), close=False, fail=kind)
        elif site == 'h_chunk_hdr_readline':
            d = dict(data=ch_head, close=False, fail=kind)
        elif site == 'h_chunk_body_read':
            d = dict(data=ch_head + b'5\r\nhe', close=False, fail=kind)
        elif site == 'h_chunk_nl_readline':
            d = dict(data=ch_head + b'5\r\nhello', close=False, fail=kind)
        elif site == 'h_trailer_readline':
            d = dict(data=ch_head + b'5\r\nhello\r\n0\r\n', close=False, fail=kind)
        elif site == 'h_trailer_parse':
            d['data'] = ch_head + b'5\r\nhello\r\n0\r\nX-T: v\r\n\r\n'
        elif site in ('h_decompress', 'h_flush'):
            d['data'] = R(G.GZ, headers=(b'Content-Encoding: gzip',))
        elif site == 'h_redirect_next':
            d['data'] = R(b'', status=b'HTTP/1.1 302 Found', headers=(b'Location: http://a.test/p3',))
        elif site == 'h_child_url_parse':
            d['data'] = R(b'<html><body><a href="http://a.test/p3">x</a></body></html>')
        j.update(d)
    elif site.startswith('r_'):
        j['ctx'] = 'robots'
        d = dict(data=R(G.ROBOTS_OK, ct=b'text/plain'), close=True, fail=None)
        if site == 'r_hdr_readline':
            d = dict(data=b'HTTP/1.1 200 OK\r\n', close=False, fail=kind)
        elif site == 'r_body_read':
            d = dict(data=R(G.ROBOTS_OK, ct=b'text/plain', cl=b'500'), close=False, fail=kind)
        elif site in ('r_decompress', 'r_flush'):
            d['data'] = R(G.gzip.compress(G.ROBOTS_OK), ct=b'text/plain', headers=(b'Content-Encoding: gzip',))
        j.update(d)
    elif site.startswith('fp_'):
        j['ctx'] = 'ftpparent'
        if site == 'fp_reply_readline':
            j['hostile'] = dict(at='LIST', do=('fail', kind))
        elif site == 'fp_data_read':
            j['hostile'] = dict(at='data', do=('datafail', kind))
    elif site.startswith('f_'):
        j['ctx'] = {'f_listing_parse': 'ftplist', 'f_add_links': 'ftplist', 'f_connect': 'ftproot'}.get(site, 'ftp')
        if site == 'f_reply_readline':
            j['hostile'] = dict(at='RETR', do=('fail', kind))
        elif site == 'f_end_readline':
            j['hostile'] = dict(at='end', do=('fail', kind))
        elif site == 'f_data_read':
            j['hostile'] = dict(at='data', do=('datafail', kind))
    else:
        raise ValueError(site)
    return j


def wire_job(c):
    """TLC case (mode wire / cut) -> job description."""
    ctx = c['ctx']
    j = dict(ctx=ctx)
    seg = c.get('seg', 'whole')
    if c['mode'] == 'cut':
        data = G.ref_bytes(c['cls'])[:c['pos']]
        j.update(data=data, close=True, fail=None)
        return j
    cls = c['cls']
    if ctx == 'page':
        d = G.page_classes()[cls]
        j.update(data=d['data'], close=d['close'], fail=d['fail'], path=d['path'], argv=d['argv'],
                 cuts=G.cuts_for(d['data'], seg))
        if d.get('prefiles'):
            j['prefiles'] = d['prefiles']
    elif ctx == 'robots':
        d = G.robots_classes()[cls]
        j.update(data=d['data'], close=d['close'], fail=d['fail'], cuts=G.cuts_for(d['data'], seg), path=d['path'])
    elif ctx == 'ftp':
        h = dict(G.ftp_classes()[cls]['hostile'])
        do = h['do']
        if seg == 'bytes1' and do[0] in ('reply', 'data'):
            do = (do[0], do[1], G.cuts_for(do[1], 'bytes1')) + tuple(do[3:])
        h['do'] = do
        j['hostile'] = h
    elif ctx == 'ftplist':
        data = G.ftp_listing_classes()[cls]
        if cls.startswith('ml_'):
            j['mlsd'] = {'/sub/': data}          # answered to MLSD (machine listing), which the client tries first
        else:
            j['listings'] = {'/sub/': data}
        if seg == 'bytes1':
            j['hostile'] = dict(at='data', do=('data', data, G.cuts_for(data, 'bytes1')))
    elif ctx == 'ftpparent':
        d = G.ftp_parent_classes()[cls]
        if 'listing' in d:
            j['hostile'] = dict(at='data', do=('data', d['listing']))
        elif 'hostile' in d:
            j['hostile'] = d['hostile']
    elif ctx == 'ftpperm':
        d = G.ftp_perm_classes()[cls]
        if 'hostile' in d:
            j['hostile'] = d['hostile']
        j['argv'] = ['--preserve-permissions']
    elif ctx == 'ftpsym':
        j['listings'] = {'/sub/': G.ftp_symlink_classes()[cls]}
        j['argv'] = ['--retr-symlinks=off']
    elif ctx == 'ftpcont':
        d = G.ftp_continue_classes()[cls]
        if 'hostile' in d:
            j['hostile'] = d['hostile']
        j['argv'] = ['--continue']
        j['prefiles'] = {'f.test/h.txt': 'hh'}
    elif ctx == 'ftpwarc':
        d = G.ftp_warc_classes()[cls]
        for k_ in ('hostile', 'fault', 'run_as'):
            if k_ in d:
                j[k_] = d[k_]
        j['argv'] = ['--warc-file', 'w']
    elif ctx == 'ftpopt':
        d = G.ftp_option_classes()[cls]
        for k_ in ('hostile', 'mlsd', 'argv', 'prefiles', 'run_as', 'norec', 'only_file'):
            if k_ in d:
                j[k_] = d[k_]
    elif ctx == 'httpwarc':
        d = G.http_warc_classes()[cls]
        j.update(data=d['data'], close=d['close'], fail=d['fail'], path=d['path'], argv=['--warc-file', 'w'], cuts=None)
        if 'fault' in d:
            j['fault'] = d['fault']
    elif ctx == 'httpcont':
        d = G.http_continue_classes()[cls]
        j.update(data=d['data'], close=d['close'], fail=d['fail'], path=d['path'], argv=['--continue'], cuts=None,
                 prefiles={'b.test/h': G.BODY[:6].decode()})
    return j


# ------------------------------------------------------------------ jobs (forked workers)
def _facts(run, rows, target, expected_others, dir_target=False):
    leaves = []
    for o in run.obs:
        if o['p'] == 'pipeline.process' or not o['t'] or o['k'] == 'none':
            continue
        leaves.append([PMAP[o['p']], o['k'], o['msg']])
    pipe = 'none'
    pmsg = ''
    for o in run.obs:
        if o['p'] == 'pipeline.process' and o['k'] != 'none':
            pipe, pmsg = o['k'], o['msg']
            break
    last = run.ev[-1] if run.ev else {}
    hang = 1 if last.get('e') == 'hang' else 0
    if last.get('e') == 'exit' and last.get('code') == -1:
        # an exception left Application.run itself (never seen so far): count it as a crash of that kind
        pipe, pmsg = 'BaseException', last.get('exc', '')
    by = {r[5]: r[1] for r in rows}
    tstat = by.get(target, 'absent')
    others = 1
    for u in expected_others:       # the URLs of the site the hostile server has no say about
        okset = ('done', 'skipped') if (u.startswith('ftp://') and u.endswith('/')) else ('done',)
        if by.get(u, 'absent') not in okset:
            others = 0
    if dir_target and tstat == 'skipped' and pipe == 'none' and not leaves:
        tstat = 'done'      # a directory listing that was fetched and parsed ends "skipped" (the .listing file is removed)
    final = 1 if all(st in ('done', 'error', 'skipped') for st in by.values()) else 0
    return dict(leaves=leaves, pipe=pipe, pmsg=pmsg, hang=hang, target=tstat, others=others, final=final,
                exit=last.get('code', -2) if last.get('e') == 'exit' else -2, rows=sorted(by.items()),
                livelock=getattr(run, 'livelock', ''), fired=run.fault_fired)


def _latin(b):
    return b.decode('latin-1') if isinstance(b, (bytes, bytearray)) else b


def _prefiles(d, j):
    """Local files that exist before the crawl starts (--continue): {path below the -P directory: latin-1 text}."""
    for rel, text in (j.get('prefiles') or {}).items():
        full = os.path.join(d, rel)
        os.makedirs(os.path.dirname(full), exist_ok=True)
        with open(full, 'wb') as f:
            f.write(text.encode('latin-1'))


def run_http(j):
    from drivers import errorflow_exec as X
    from drivers.crawl_exec import read_rows
    d = tempfile.mkdtemp(prefix='c09_')
    try:
        path = j.get('path', '/h')
        fail = j.get('fail')
        _prefiles(d, j)
        if j['ctx'] in ('page', 'httpcont', 'httpwarc'):
            site = X.http_site(path, _latin(j['data']), j.get('close', True), j.get('cuts'), None, fail)
        else:
            site = X.http_site(path, _latin(G.resp()), True, None,
                               dict(data=_latin(j['data']), close=j.get('close', True), cuts=j.get('cuts'), fail=fail))
        if '--http-proxy' in (j.get('argv') or ()):
            # two consecutive requests for the same host (/ then /p3), the hostile URL last
            site['urls'][0]['links'] = [dict(to=3)]
            site['urls'][2]['links'] = [dict(to=2)]
        db = os.path.join(d, 't.db')
        from wpull.url import URLInfo
        target = URLInfo.parse('http://b.test' + path).url
        argv = X.http_argv(db, d, robots=(j['ctx'] == 'robots'), extra=j.get('argv', ()))
        if j.get('sslv'):
            argv.remove('--no-check-certificate')
        r = X.HRun(site, argv, target,
                   fault=j.get('fault'), db_path=db, cwd=d)
        r.execute()
        rows = read_rows(db, r) if os.path.exists(db) else []
        return _facts(r, rows, target, ['http://a.test/', 'http://a.test/p3'])
    finally:
        shutil.rmtree(d, ignore_errors=True)


def run_ftp(j):
    from drivers import errorflow_exec as X
    from drivers.crawl_exec import read_rows
    d = tempfile.mkdtemp(prefix='c09f_')
    try:
        ctx = j.get('run_as') or j['ctx']
        files = {'a.txt': b'aaa', 'h.txt': b'hhh', 'c.txt': b'ccc'}
        dirs = ()
        start = ['ftp://f.test/']
        target = 'ftp://f.test/h.txt'
        listings = j.get('listings')
        if ctx == 'ftplist':
            dirs = ('sub',)
            target = 'ftp://f.test/sub/'
            if not listings:
                listings = {'/sub/': b'-rw-r--r-- 1 ftp ftp 3 Jan 01  2020 a.txt\r\n'}
        elif ctx == 'ftpparent':
            start = ['ftp://f.test/', 'ftp://f.test/h.txt']
        elif ctx == 'ftpsym':
            dirs = ('sub',)
            target = 'ftp://f.test/sub/'
        elif ctx == 'ftpperm':
            target = 'ftp://f.test/a.txt'      # the first file fetched: its parent listing is not in the cache yet
        elif ctx == 'ftproot':
            target = 'ftp://f.test/'
        site = dict(hosts={'a.test': X.A_IP}, urls=[], robots={})
        db = os.path.join(d, 't.db')
        ftp = dict(files=files, dirs=dirs, listings=listings, hostile=j.get('hostile'), mlsd=j.get('mlsd'))
        if j.get('only_file'):
            start = ['ftp://f.test/h.txt']
        argv = X.ftp_argv(db, d, start, extra=j.get('argv', ()))
        if j.get('norec'):
            argv.remove('-r')
        _prefiles(d, j)
        if j.get('sslv'):
            argv.remove('--no-check-certificate')
        r = X.HRun(site, argv, target, fault=j.get('fault'), ftp=ftp, db_path=db, cwd=d)
        r.execute()
        rows = read_rows(db, r) if os.path.exists(db) else []
        others = [u for u in ('ftp://f.test/', 'ftp://f.test/a.txt', 'ftp://f.test/c.txt', 'ftp://f.test/h.txt') if u != target]
        if j.get('norec'):
            others = [u for u in start if u != target]          # without -r only the start URLs are fetched
        if ctx == 'ftproot':
            others = []         # the hostile URL is the start listing: nothing else is ever discovered
        return _facts(r, rows, target, others, dir_target=target.endswith('/'))
    finally:
        shutil.rmtree(d, ignore_errors=True)


_SCRAPE = {}


def _scrape_env():
    """The real scrapers, built by the real Builder, plus a real ProcessingRule / FetchRule around them."""
    if _SCRAPE:
        return _SCRAPE
    from wpull.application.builder import Builder
    from wpull.application.options import AppArgumentParser
    from wpull.application.tasks.download import ParserSetupTask
    from wpull.processor.rule import ProcessingRule, FetchRule
    args = AppArgumentParser().parse_args(['http://a.test/', '--html-parser', 'html5lib', '-r', '--sitemaps',
                                           '--no-robots', '-q', '--span-hosts'])
    b = Builder(args)
    b.build()

    class S(object):
        pass
    s = S()
    s.args = args
    s.factory = b.factory
    ParserSetupTask._build_html_parser(s)
    ParserSetupTask._build_demux_document_scraper(s)
    demux = b.factory['DemuxDocumentScraper']
    _SCRAPE['rule'] = ProcessingRule(FetchRule(), document_scraper=demux, sitemaps=True)
    _SCRAPE['demux'] = demux
    return _SCRAPE


def run_docs(j):
    """A chunk of documents through DemuxDocumentScraper.scrape_info + ProcessingRule (in process)."""
    import io
    from drivers import errorflow_exec as X
    from wpull.protocol.http.request import Request, Response
    from wpull.body import Body
    from wpull.pipeline.session import ItemSession
    from wpull.pipeline.item import URLRecord, Status
    from wpull.scraper.util import identify_link_type
    import wpull.scraper.base as sb
    env = _scrape_env()
    rule = env['rule']
    out = []

    class Table(object):
        def add_many(self, x):
            return []

        def remove_many(self, x):
            pass

    class App(object):
        factory = {'URLTable': Table()}
    for c in j['docs']:
        path, ct, body = G.doc(c['fmt'], c['toks'], c['cs'])
        url = 'http://b.test' + path
        req = Request(url)
        resp = Response(200, 'OK')
        resp.fields['Content-Type'] = ct.decode('latin-1')
        resp.body = Body(io.BytesIO(body))
        resp.request = req
        rec = URLRecord()
        rec.url = url
        rec.status = Status.in_progress
        rec.level = 1
        rec.inline_level = None
        rec.link_type = identify_link_type(url)
        rec.root_url = 'http://a.test/'
        rec.parent_url = 'http://a.test/'
        sess = ItemSession(App(), rec)
        sess.request = req
        sess.response = resp
        leaves = []
        orig = sb.DemuxDocumentScraper.__dict__['scrape_info']

        def wrapped(self_, *a, **k):
            try:
                return orig(self_, *a, **k)
            except Exception as e:
                leaves.append(['ObsScrapeInfo', X.kind_of(e), ('%s: %s' % (type(e).__name__, e))[:200]])
                raise
        sb.DemuxDocumentScraper.scrape_info = wrapped
        pipe, pmsg = 'none', ''
        try:
            try:
                rule.scrape_document(sess)
            except Exception as e:
                pipe, pmsg = X.kind_of(e), ('%s: %s' % (type(e).__name__, e))[:200]
        finally:
            sb.DemuxDocumentScraper.scrape_info = orig
        out.append(dict(leaves=leaves, pipe=pipe, pmsg=pmsg, hang=0, target='done', others=1, final=1, exit=0, rows=[],
                        livelock='', fired=0))
    return out


def job(j):
    from harness import wpull_compat  # noqa
    try:
        devnull = os.open(os.devnull, os.O_WRONLY)
        os.dup2(devnull, 2)
        os.close(devnull)
        import logging
        logging.disable(logging.CRITICAL)
        if j['kind'] == 'http':
            return run_http(j)
        if j['kind'] == 'ftp':
            return run_ftp(j)
        if j['kind'] == 'docs':
            return run_docs(j)
        raise ValueError(j['kind'])
    except BaseException as e:
        return dict(error='%s: %s\n%s' % (type(e).__name__, e, traceback.format_exc()))


def run_jobs(jobs, procs=8):
    if not jobs:
        return []
    ctx = multiprocessing.get_context('fork')
    with ProcessPoolExecutor(max_workers=procs, mp_context=ctx) as ex:
        return list(ex.map(job, jobs, chunksize=1))


def job_of(c):
    """TLC case -> executable job."""
    if c['mode'] == 'fault':
        j = fault_scenario(c['site'], c['kind'])
    else:
        j = wire_job(c)
    j['kind'] = 'ftp' if j['ctx'].startswith('ftp') else 'http'
    if c.get('sslv'):
        j['sslv'] = True
    return j


def doc_crawl_job(c):
    path, ct, body = G.doc(c['fmt'], c['toks'], c['cs'])
    argv = ['--sitemaps'] if c['fmt'] == 'sitemap' else []
    return dict(kind='http', ctx='page', data=G.resp(body, ct=ct), close=True, fail=None, path=path, argv=argv)


# ------------------------------------------------------------------ traces
def trace_of(c, f, e2e=1):
    ev = [{'e': 'leave', 'p': l[0], 'k': l[1]} for l in f['leaves']]
    ev.append({'e': 'end', 'hang': f['hang'], 'pipe': f['pipe'], 'target': f['target'], 'others': f['others'],
               'final': f['final']})
    return {'mode': c['mode'], 'site': c['site'], 'kind': c['kind'], 'natural': 0 if c['mode'] == 'fault' else 1,
            # classes whose right outcome is "the URL filters refuse the redirect target" (no error, row skipped)
            'skipok': 1 if c.get('cls') in SKIP_OK else 0,
            'e2e': e2e, 'ev': ev}


def case_label(c):
    if c['mode'] == 'fault':
        return 'fault %s/%s' % (c['site'], c['kind'])
    if c['mode'] == 'cut':
        return 'cut %s@%d(%s)' % (c['cls'], c['pos'], c['part'])
    if c['mode'] == 'wire':
        return 'wire %s/%s/%s' % (c['ctx'], c['cls'], c['seg'])
    return 'doc %s/%s/%s' % (c['fmt'], '+'.join(c['toks']), c['cs'])


SKIP_OK = ('rd_mailto', 'rd_data_url', 'au_401_post')
FP_SITES = ('fp_connect', 'fp_reply_readline', 'fp_reply_parse', 'fp_reply_code', 'fp_login_code', 'fp_pasv_parse',
            'fp_data_connect', 'fp_data_read', 'fp_end_code', 'fp_listing_parse')
PP_SITES = tuple('pp_' + x[3:] for x in FP_SITES if x != 'fp_login_code')
REMOTE_KINDS = ('ServerError', 'AuthenticationError', 'FTPServerError', 'ProtocolError', 'SSLVerificationError',
                'NetworkError', 'ConnectionRefused', 'DNSNotFound', 'NetworkTimedOut', 'DurationTimeout')
# defect = (call sites, exception classes that get out): the same defect reached through a fault, a malformed
# response or a cut has ONE signature
DEFECTS = [
    ('chunked-readline-overrun', ('h_chunk_nl_readline', 'h_trailer_readline', 'r_chunk_nl_readline'), ('ValueError',)),
    ('chunked-trailer-strict-parse', ('h_trailer_parse', 'r_trailer_parse'), ('ValueError',)),
    ('ftp-reply-readline-overrun', ('f_reply_readline', 'f_end_readline', 'fp_reply_readline'), ('ValueError',)),
    ('ftp-reply-two-final-lines', ('f_reply_parse', 'fp_reply_parse'), ('AssertionError',)),
    ('ftp-listing-msdos-short-line', ('f_listing_parse', 'fp_listing_parse'), ('IndexError',)),
    ('ftp-parent-listing-unhandled', FP_SITES, REMOTE_KINDS),
    ('charset-non-text-codec', ('h_scrape_encoding',), ('LookupError',)),
    ('last-modified-unparseable', ('h_save_document',), ('TypeError',)),
    ('windows-filename-trailing-dot', ('h_request_filename', 'h_writer_process_response'), ('ValueError',)),
    ('sitemap-corrupt-gzip', ('h_scrape_sitemap',), ('EOFError', 'BadGzipFile', 'ZlibError', 'OSError')),
    ('ftp-pasv-port-overflow', ('f_data_connect', 'fp_data_connect'), ('OverflowError',)),
    ('writer-makedirs-recursion', ('h_writer_process_response',), ('RecursionError',)),
    ('writer-oserror-ends-crawl', ('h_writer_process_response',), ('OSError',)),
    ('ftp-permission-listing-unhandled', PP_SITES, REMOTE_KINDS),
    ('ftp-symlink-creation-unhandled', ('f_symlink',), ('OSError', 'ValueError', 'FileExistsError', 'FileNotFoundError')),
    ('continue-refused-ends-crawl', ('h_writer_continue', 'f_writer_continue'), ('OSError',)),
]


DEFECT_INFO = {
    'chunked-readline-overrun': ('a line longer than the stream limit (64 KiB) after a chunk\'s data or in the chunked trailer: '
                                 'StreamReader.readline raises ValueError, chunked.py:93,117 do not convert it (read_chunk_header does)',
                                 'C09-chunked-readline-overrun.diff'),
    'chunked-trailer-strict-parse': ('a chunked trailer line without a colon: stream.py:364 fields.parse(trailer) is strict '
                                     '-> ValueError("Field missing colon.")', 'C09-chunked-trailer-not-strict.diff'),
    'ftp-reply-readline-overrun': ('an FTP reply line longer than the stream limit: ftp/stream.py:135 readline ValueError is not converted',
                                   'C09-ftp-reply-readline-overrun.diff'),
    'ftp-reply-two-final-lines': ('an FTP reply whose one line (bare CR inside) holds two "ddd " final lines: ftp/request.py:84 assert',
                                  'C09-ftp-reply-two-final-lines.diff'),
    'ftp-listing-msdos-short-line': ('a LIST line guessed as MS-DOS with fewer than 4 fields (e.g. "2012"): ls/listing.py:88 IndexError, '
                                     'not in "except (ListingError, ValueError)"', 'C09-ftp-listing-msdos-short-line.diff'),
    'ftp-parent-listing-unhandled': ('DESIGN finding 21: any protocol/network/server error while listing the parent directory of an FTP '
                                     'file URL (processor/ftp.py:147) is outside "except REMOTE_ERRORS" and ends the crawl',
                                     'C09-ftp-parent-listing-errors.diff'),
    'ftp-pasv-port-overflow': ('a PASV reply naming numbers above 255 gives a port above 65535: socket connect raises OverflowError, '
                               'which run_network_operation does not convert', 'C09-ftp-pasv-number-range.diff'),
    'charset-non-text-codec': ('a charset label naming a non-text Python codec (hex, rot13, base64, zlib...; Content-Type or <meta>): '
                               'string.py:104 bytes.decode raises LookupError inside detect_response_encoding, outside the scrapers\' try',
                               'C09-charset-non-text-codec.diff'),
    'last-modified-unparseable': ('Last-Modified that email.utils.parsedate cannot parse: writer.py:141 time.mktime(None) TypeError '
                                  '(save_document is outside the try of _fetch_one)', 'C09-last-modified-unparseable.diff'),
    'windows-filename-trailing-dot': ('DESIGN finding 22: --restrict-file-names windows and a URL or Content-Disposition name ending in '
                                      '"." or " ": path.py:263 format(str, "02X") ValueError', 'C09-windows-filename-trailing-dot.diff'),
    'sitemap-corrupt-gzip': ('--sitemaps and a sitemap that starts with the gzip magic but is corrupt/truncated: document/sitemap.py:66 '
                             'GzipFile raises BadGzipFile(OSError) / EOFError, not caught by scraper/sitemap.py', 'C09-sitemap-corrupt-gzip.diff'),
    'ftp-permission-listing-unhandled': ('--preserve-permissions: any protocol/network/server error while listing the parent directory '
                                         'AFTER a file was saved (ftp.py _fetch else-branch -> _apply_unix_permissions) is outside '
                                         '"except REMOTE_ERRORS" and ends the crawl', 'C09-ftp-permission-listing-errors.diff'),
    'ftp-symlink-creation-unhandled': ('--retr-symlinks=off: os.symlink with a name or target from the listing (no target, name twice, '
                                       'missing directory, NUL) raises OSError / ValueError in _make_symlink, outside any handler',
                                       'C09-ftp-symlink-creation-errors.diff'),
    'continue-refused-ends-crawl': ('--continue and a server that does not resume (200 to a Range request, 416, REST refused): '
                                    'writer.py raises a bare IOError, which is not a per-URL error kind',
                                    'C09-continue-refused-ends-crawl.diff'),
    'writer-makedirs-recursion': ('a URL path with about 1000 directory levels: os.makedirs recurses once per missing level -> RecursionError '
                                  'from writer.py:121 (inside the try, but not a REMOTE error)', None),
    'writer-oserror-ends-crawl': ('a URL path longer than PATH_MAX (or any other OSError of open/makedirs on a server-chosen name): OSError is '
                                  'not in REMOTE_ERRORS; Application.run calls it expected and ends the crawl with exit status 3', None),
}


def escaped_kind(f):
    if f['pipe'] != 'none':
        return f['pipe']
    for l in f['leaves']:
        if l[1] not in REMOTE_KINDS:
            return l[1]
    return f['leaves'][0][1] if f['leaves'] else 'none'


def signature(c, f, clause):
    """Small and stable: the defect (call site + exception class that got out), else the clause + input class."""
    esc = escaped_kind(f)
    if clause in ('NoEscape', 'ObsClean', 'UnitEscape', 'AllRowsFinal', 'OthersFetched', 'TargetFinal') and esc != 'none':
        for name, sites, kinds in DEFECTS:
            if c['site'] in sites and esc in kinds:
                return {'defect': name}
    site = c['site']
    if site != 'none' and c['mode'] != 'doc':
        # the model's call site (the same code reached for a page, for robots.txt, or for the FTP parent listing is one
        # call site) + the class that got out, whatever the input class that reached it
        for pre in ('fp_', 'h_', 'r_', 'f_'):
            if site.startswith(pre):
                site = site[len(pre):]
                break
        return {'clause': 'NoHang' if clause == 'NoHang' else 'Escape', 'site': site, 'escaped': esc}
    if c['mode'] == 'cut':
        return {'clause': clause, 'mode': 'cut', 'ref': c['cls'], 'part': c['part'], 'escaped': esc}
    if c['mode'] == 'wire':
        return {'clause': clause, 'mode': 'wire', 'ctx': c['ctx'], 'class': c['cls'], 'escaped': esc}
    return {'clause': clause, 'mode': 'doc', 'fmt': c['fmt'], 'escaped': esc, 'trigger': doc_trigger(c)}


DOC_ESCAPES = {}      # (fmt, toks, cs) -> escaped kind, for the documents of this run that raised


def doc_trigger(c):
    """The part of a document case that identifies the defect (not the whole input): a single token or the charset
    label alone if that alone already makes the same class escape, else the set of tokens."""
    me = DOC_ESCAPES.get((c['fmt'], tuple(c['toks']), c['cs']))
    if me is not None:
        for t in c['toks']:
            if DOC_ESCAPES.get((c['fmt'], (t,), 'none')) == me:
                return t
        if c['cs'] != 'none' and DOC_ESCAPES.get((c['fmt'], (), c['cs'])) == me:
            return 'charset=' + c['cs']
    if c['cs'] != 'none' and not c['toks']:
        return 'charset=' + c['cs']
    return '+'.join(sorted(set(c['toks']))) + ('' if c['cs'] == 'none' else ';charset=' + c['cs'])


# ------------------------------------------------------------------ the check
def select(cases, quick, rng, keep, n):
    """Deterministic sample: everything `keep` says is essential, plus n others."""
    must = [c for c in cases if keep(c)]
    rest = [c for c in cases if not keep(c)]
    rng.shuffle(rest)
    return must + (rest[:n] if quick else rest)


def run(chk):
    import time
    quick = chk.tier == 'quick'
    rng = random.Random(chk.seed)
    t0 = time.time()
    timing = chk.extra.setdefault('timing_s', {})
    # ---------------- 1. design + 2. cases from TLC (independent TLC jobs, run side by side)
    from concurrent.futures import ThreadPoolExecutor
    fixes = detect_fixes()
    chk.extra['repairs_detected_in_tree'] = fixes
    real = probe_real_connect()
    chk.extra['real_socket_connect_to_port_256743_raises'] = real
    if real != 'OverflowError':
        chk.note('the real Connection raised %s (not OverflowError) for port 256743: the in-memory network still '
                 'emulates OverflowError; ft_pasv_port_overflow may show MODEL-DRIFT' % real)
    designs = [(False, fixes), (True, fixes)]
    if not quick and sorted(fixes) != sorted(ALL_FIXES):
        designs += [(False, ALL_FIXES), (True, ALL_FIXES)]
    doclen = 2 if quick else 3
    with ThreadPoolExecutor(max_workers=6) as ex:
        dfut = [ex.submit(tlc.run_tlc, 'ErrorFlow', design_cfg(sv, fx), workers=2, timeout=1200, coverage=True)
                for (sv, fx) in designs]
        gfut = {w: ex.submit(gen_cases, w, fixes, doclen) for w in ('fault', 'wire', 'cut', 'doc')}
        dres = [f.result() for f in dfut]
        gres = {w: f.result() for w, f in gfut.items()}
    for (sv, fx), res in zip(designs, dres):
        chk.design('ErrorFlow[SSLVerify=%s,Fixes=%s]' % (sv, 'as-found' if fx is fixes else 'all-proposed'), res,
                   constants=dict(SSLVerify=sv, Fixes=list(fx), sites=64, kinds=31), expect_actions=EXPECT_ACTIONS)
    timing['design+generate'] = round(time.time() - t0, 1)
    faults, wires, cuts, docs = (gres[w][0] for w in ('fault', 'wire', 'cut', 'doc'))
    for w in gres:
        chk.trace_stats(gres[w][1])
    G.check_names(set(c['cls'] for c in wires))
    chk.extra['generated'] = dict(fault=len(faults), wire=len(wires), cut=len(cuts), doc=len(docs))
    suspects = sorted(set((c['site'], c['kind']) for c in faults if c['provokable'] and
                          c['predicted'] not in ('absorbed', 'per_url_error')))
    chk.extra['model_predicted_escapes_among_injectable'] = ['%s/%s' % s for s in suspects]

    # (a) quick: every provokable pair + every pair the model predicts to escape for a kind of the processor's own
    #     vocabulary + a sample; thorough: all
    faults_sel = select(faults, quick, rng, lambda c: c['provokable'] == 1, 60)
    # (b) quick: every class unsegmented + a sample of segmentations; cuts: every part boundary + sample
    wires_sel = select(wires, quick, rng, lambda c: c['seg'] == 'whole', 30)
    cuts_sorted = sorted(cuts, key=lambda c: (c['cls'], c['pos']))
    first_of_part = set()
    seen_parts = set()
    for c in cuts_sorted:
        if (c['cls'], c['part']) not in seen_parts:
            seen_parts.add((c['cls'], c['part']))
            first_of_part.add((c['cls'], c['pos']))
    cuts_sel = select(cuts_sorted, quick, rng, lambda c: (c['cls'], c['pos']) in first_of_part, 25)
    # (c) documents: all of them in process
    docs_sel = docs if not quick else select(docs, True, rng, lambda c: len(c['toks']) <= 1, 1500)
    chk.extra['selected'] = dict(fault=len(faults_sel), wire=len(wires_sel), cut=len(cuts_sel), doc=len(docs_sel))

    # the certificate policy frame (SSLVerify = TRUE): certificate failures with --check-certificate
    ssl_cases = [dict(mode='fault', site=st, kind=k, sslv=1) for (st, k) in
                 (('h_connect', 'SSLCertError'), ('h_connect', 'SSLVerificationError'), ('r_connect', 'SSLCertError'),
                  ('f_connect', 'SSLCertError'), ('h_body_read', 'SSLVerificationError'), ('h_connect', 'OSError'),
                  ('fp_data_connect', 'SSLCertError'))]
    e2e_cases = wires_sel + cuts_sel + faults_sel + ssl_cases      # real-input witnesses first: they become the replay files
    jobs = [job_of(c) for c in e2e_cases]
    chunk = 150
    doc_chunks = [docs_sel[i:i + chunk] for i in range(0, len(docs_sel), chunk)]
    jobs += [dict(kind='docs', docs=ch) for ch in doc_chunks]
    outs = run_jobs(jobs, procs=8 if quick else 12)
    timing['run'] = round(time.time() - t0, 1)
    results = []     # (case, facts, e2e)
    for c, o in zip(e2e_cases, outs[:len(e2e_cases)]):
        if 'error' in o:
            raise RuntimeError('%s: %s' % (case_label(c), o['error']))
        if c['mode'] == 'fault' and not o['fired']:
            raise RuntimeError('fault %s/%s was armed but never fired' % (c['site'], c['kind']))
        results.append((c, o, 1))
    doc_bad = []
    for ch, o in zip(doc_chunks, outs[len(e2e_cases):]):
        if isinstance(o, dict) and 'error' in o:
            raise RuntimeError('document chunk: ' + o['error'])
        for c, f in zip(ch, o):
            results.append((c, f, 0))
            if f['pipe'] != 'none' or f['leaves']:
                doc_bad.append(c)
                DOC_ESCAPES[(c['fmt'], tuple(c['toks']), c['cs'])] = escaped_kind(f)
    # documents through a complete crawl: every one that raised in process (bounded per trigger) + a sample
    per_trigger = {}
    doc_e2e = []
    for c in doc_bad:
        t = (c['fmt'], doc_trigger(c))
        if per_trigger.get(t, 0) < 1:
            per_trigger[t] = per_trigger.get(t, 0) + 1
            doc_e2e.append(c)
    doc_e2e = doc_e2e[:30 if quick else 400]
    clean = [c for c in docs_sel if c not in doc_bad]
    rng.shuffle(clean)
    doc_e2e += clean[:20 if quick else 400]
    outs2 = run_jobs([doc_crawl_job(c) for c in doc_e2e], procs=8 if quick else 12)
    for c, o in zip(doc_e2e, outs2):
        if 'error' in o:
            raise RuntimeError('%s: %s' % (case_label(c), o['error']))
        results.append((c, o, 1))
    chk.extra['documents_crawled_end_to_end'] = len(doc_e2e)

    timing['run_docs_e2e'] = round(time.time() - t0, 1)
    # ---------------- 3. TLC judges
    traces = [trace_of(c, f, e2e) for (c, f, e2e) in results]

    def mon_cfg(sv):
        return ('SPECIFICATION MSpec\nCONSTANT SSLVerify = %s\nCONSTANT Fixes = %s\nCONSTRAINT Record\nPOSTCONDITION Post\n'
                'CHECK_DEADLOCK FALSE\n' % ('TRUE' if sv else 'FALSE', tla_set(fixes)))
    idx_plain = [i for i, (c, f, e) in enumerate(results) if not c.get('sslv')]
    idx_ssl = [i for i, (c, f, e) in enumerate(results) if c.get('sslv')]
    verdicts = [None] * len(results)
    stats = {'states': 0, 'distinct': 0}
    for idxs, sv in ((idx_plain, False), (idx_ssl, True)):
        if not idxs:
            continue
        vs, st = tlc.validate_batch('ErrorFlowMon', mon_cfg(sv), [traces[i] for i in idxs], chunk=4000)
        for i, v in zip(idxs, vs):
            verdicts[i] = v
        stats['states'] += st['states']
        stats['distinct'] += st['distinct']
    chk.trace_stats(stats)
    timing['judge'] = round(time.time() - t0, 1)
    confirmed = {}
    for (c, f, e2e), tr, v in zip(results, traces, verdicts):
        chk.validated(1)
        chk.case(key=json.dumps([case_label(c), e2e]))
        if v['matched'] < v['len'] and v['bad'] == 0:
            raise tlc.TLCError('monitor did not consume a trace: %r %s' % (v, case_label(c)))
        if len(chk.samples) < 5 and c['mode'] in ('wire', 'fault') and f['leaves']:
            chk.samples.append({'case': {k: c[k] for k in c if k != 'toks'}, 'trace': tr['ev']})
        if v['bad']:
            clause = CLAUSES.get(v['bad'], str(v['bad']))
            sig = signature(c, f, clause)
            desc = ('%s violated: %s -> %s%s; target row %s, others_ok=%s, all_final=%s, leaves=%s'
                    % (clause, case_label(c), 'HANG ' if f['hang'] else '',
                       ('exception reached Application.run: ' + f['pmsg']) if f['pipe'] != 'none' else 'no exception at Application.run',
                       f['target'], f['others'], f['final'], [(l[0], l[1]) for l in f['leaves']]))
            if 'defect' in sig and sig['defect'] in DEFECT_INFO:
                info = DEFECT_INFO[sig['defect']]
                desc = '%s [%s] -- first case: %s' % (info[0], ('proposed fix: fixes_proposed/' + info[1]) if info[1] else 'no fix proposed', desc)
            chk.violation(sig, desc, {'case': c, 'facts': f, 'e2e': e2e})
            if c['mode'] != 'fault':
                confirmed.setdefault('%s/%s' % (c['site'], c['kind']), case_label(c))
        else:
            drift = v['badline'] // 1000
            if drift:
                chk.drifted('%s: %s (model: site=%s kind=%s; observed: pipe=%s target=%s leaves=%s)'
                            % (case_label(c), DRIFTS.get(drift, drift), c['site'], c['kind'], f['pipe'], f['target'],
                               [(l[0], l[1]) for l in f['leaves']]), None)
    chk.extra['suspects_confirmed_by_real_input'] = confirmed
    chk.constants = {'ErrorFlow': {'sites': 64, 'kinds': 31, 'SSLVerify': [False, True]},
                     'DocLen': 2 if quick else 3}
    chk.rule = ('one case = one run of the real code: (a) (site, kind) fault injected into a complete crawl, '
                '(b) malformation class x segmentation / cut offset served by a hostile HTTP or FTP server to a '
                'complete crawl, (c) token-sequence document x charset label through the real scrapers in process '
                '(+ a complete crawl for those that raise and a sample); distinct = distinct cases')
    chk.exhaustive = False
    chk.note('C09 is claimed PARTIALLY: decided = exception-kind propagation (fault enumeration over the injectable '
             'sites x 31 kinds), the enumerated grammar-level malformation classes of HTTP/1.1 framing, content '
             'codings, robots.txt, FTP control/PASV/transfer/listing and parent-listing, premature close at every byte '
             'offset of 5 reference responses, and token-level document mutations (sequences of <= %d tokens from '
             'alphabets of 35/16/15/16 hostile tokens for HTML/CSS/JavaScript/sitemap x 7 charset labels).  NOT '
             'decided: arbitrary byte strings into the HTML/CSS/JS/sitemap scrapers, the FTP LIST parser and the '
             'header parsers (fuzzing territory); TLS (never exercised: certificate errors only by injection); '
             'lxml parser (not installed: html5lib only); sockets/DNS of the operating system (in-memory network); '
             'PhantomJS / youtube-dl coprocessors; plugin hooks.' % (2 if quick else 3))
    if quick:
        chk.note('quick tier: fault enumeration = all provokable pairs + 60 sampled others; wire classes unsegmented + 30 '
                 'sampled segmentations; cuts = first offset of every part + 25 sampled offsets; documents sampled')


def replay(chk, path):
    rp = json.load(open(path))['replay']
    c = rp['case']
    if c['mode'] == 'doc' and not rp.get('e2e'):
        out = job(dict(kind='docs', docs=[c]))
        f = out[0] if isinstance(out, list) else out
    elif c['mode'] == 'doc':
        f = job(doc_crawl_job(c))
    else:
        f = job(job_of(c))
    print(case_label(c))
    print(json.dumps(f, indent=1, default=str))
    return 0


def selftest(chk):
    """Binding self-test: a recorded trace is accepted without drift; corrupting ONE logged field makes the monitor
    reject it (as MODEL-DRIFT or as a violation)."""
    import copy
    fixes = detect_fixes()
    cases = [dict(mode='fault', site='h_hdr_readline', kind='ValueError'),
             dict(mode='wire', ctx='page', cls='gz_corrupt_body', seg='whole', site='h_decompress', kind='ZlibError'),
             dict(mode='wire', ctx='robots', cls='rb_gzip_bad', seg='whole', site='r_decompress', kind='ZlibError')]
    outs = run_jobs([job_of(c) for c in cases], procs=3)
    traces = []
    labels = []
    for c, f in zip(cases, outs):
        if 'error' in f:
            raise RuntimeError(f['error'])
        t = trace_of(c, f, 1)
        traces.append(t)
        labels.append(('recorded ' + case_label(c), 'accept'))
        for what in ('leave-kind', 'leave-point', 'target', 'pipe', 'drop-leave'):
            m = copy.deepcopy(t)
            lv = [e for e in m['ev'] if e['e'] == 'leave']
            end = m['ev'][-1]
            if what == 'leave-kind' and lv:
                lv[0]['k'] = 'NetworkError' if lv[0]['k'] != 'NetworkError' else 'ServerError'
            elif what == 'leave-point' and lv:
                lv[0]['p'] = 'ObsFtpStart'
            elif what == 'target':
                end['target'] = 'done' if end['target'] != 'done' else 'error'
            elif what == 'pipe':
                end['pipe'] = 'KeyError'
            elif what == 'drop-leave' and lv:
                m['ev'].remove(lv[0])
            else:
                continue
            traces.append(m)
            labels.append(('%s with %s corrupted' % (case_label(c), what), 'reject'))
    cfg = ('SPECIFICATION MSpec\nCONSTANT SSLVerify = FALSE\nCONSTANT Fixes = %s\nCONSTRAINT Record\nPOSTCONDITION Post\n'
           'CHECK_DEADLOCK FALSE\n' % tla_set(fixes))
    vs, st = tlc.validate_batch('ErrorFlowMon', cfg, traces)
    bad = 0
    for (label, want), v in zip(labels, vs):
        rejected = bool(v['bad']) or (v['badline'] // 1000) != 0
        ok = rejected == (want == 'reject')
        print('%-7s %-75s clause=%s drift=%s' % ('ok' if ok else 'WRONG', label, v['bad'], v['badline'] // 1000))
        if not ok:
            bad += 1
    print('selftest: %d traces, %d wrong' % (len(traces), bad))
    return 1 if bad else 0
