"""Execute the real wpull Application / PipelineSeries / Pipeline objects under the virtual loop with an
environment script (C13, application layer; same style as drivers/pipeline_exec.py).

Configuration of a run: cfg = dict(NP, T, kk=[items per pipeline], skp=[skippable], reg=[registered in
concurrency_pipelines], pc0=[Pipeline.concurrency before run()]).

Environment events (the only nondeterminism), fired at quiescent points of the loop (script / chooser) or before a
given loop iteration (timed):
  ['body', p, i, j]       the body of task j of pipeline p on item i finishes
  ['braise', p, i, j, x]  ... raises an exception of class x
  ['sraise', x]           the next get_item() (of whichever pipeline calls next) raises class x  (armed)
  ['stop']                Application.stop()
  ['setc', c]             PipelineSeries.concurrency = c
  ['uec', c]              Application.update_exit_code(c)   (the embedding code reports an exit status)
  ['run2']                a second Application.run()
`pre` / `post`: events fired before run() is called / after it returned (stop, run2, setc, uec).

Exception classes: S ServerError, P ProtocolError, N NetworkError, O OSError (one per exit-status class of
Application.ERROR_CODE_MAP), H HookStop (expected, not mapped), U KeyError (unexpected: crash message).

Application, PipelineSeries and Pipeline are the real classes, not subclassed; observation is through the
public surface: event_dispatcher listeners (pipeline_begin / pipeline_end), Pipeline.concurrency, the return value
of run(), the logging record of the crash message, and the instrumented ItemSource / ItemTask doubles.
"""
import asyncio
import logging
import signal
import time

from harness import vloop
from drivers.pipeline_exec import work_item
from wpull.application.app import Application
from wpull.application.hook import HookStop
from wpull.errors import ServerError, ProtocolError, NetworkError
from wpull.pipeline.pipeline import Pipeline, PipelineSeries, ItemSource, ItemTask

XCLASS = {'S': ServerError, 'P': ProtocolError, 'N': NetworkError, 'O': OSError, 'H': HookStop, 'U': KeyError}
XCODE = {'S': 8, 'P': 7, 'N': 4, 'O': 3, 'H': 1, 'U': 1}


class Livelock(BaseException):
    """The code under test kept the CPU without ever yielding to the event loop."""


_watch = {'t0': 0.0, 'limit': 0.5}


def _alarm(signum, frame):
    # ITIMER_VIRTUAL counts the CPU time of all threads of the process (the driver runs TLC jobs in background
    # threads); the verdict is about the thread executing the code under test only
    if time.thread_time() - _watch['t0'] >= _watch['limit']:
        raise Livelock()
    signal.setitimer(signal.ITIMER_VIRTUAL, _watch['limit'])


class _Boom(object):
    """Marker mixed into the raised exception instances (so the executor can tell its own failures apart)."""


def make_exc(x):
    base = XCLASS[x]
    cls = type('Env' + base.__name__, (base, _Boom), {})
    e = cls('env-' + x)
    e.xclass = x
    return e


class _Capture(logging.Handler):
    def __init__(self, run):
        logging.Handler.__init__(self, level=logging.DEBUG)
        self.run = run

    def emit(self, record):
        try:
            msg = str(record.msg)
        except Exception:  # noqa
            return
        if record.levelno >= logging.CRITICAL and 'unexpectedly crashed' in msg:
            self.run.log(e='crashmsg')


def default_cfg(NP, T, K):
    return dict(NP=NP, T=T, kk=[K] * NP, skp=[False] * NP, reg=[False] * NP, pc0=[1] * NP)


class Run(object):
    watchdog_s = 0.5     # CPU seconds without finishing: a run normally takes milliseconds
    max_events = 4000
    frozen = False

    def __init__(self, cfg, script, fallback=True, timed=None, pre=None, post=None, max_steps=10000):
        self.cfg = cfg
        self.NP, self.T = cfg['NP'], cfg['T']
        self.script = [list(e) for e in script]
        self.script0 = [list(e) for e in script]
        self.timed = {int(k): list(v) for k, v in (timed or {}).items()}
        self.timed0 = dict(self.timed)
        self.pre = [list(e) for e in (pre or [])]
        self.post = [list(e) for e in (post or [])]
        self.fallback = fallback
        self.max_steps = max_steps
        self.ev = []
        self.pending = {}          # (p, i, j) -> [future, ...]
        self.pending_order = []
        self.arm_sraise = None
        self.fired = []
        self.steps = 0
        self.ticks = 0
        self.started = False
        self.finished = False
        self.chooser = None
        self.n_stop = self.n_conc = self.n_raise = self.n_uec = self.n_run2 = 0
        self.outcome = None
        self.start_idx = None
        self.remake = None

    # ------------------------------------------------------------------ recording
    def log(self, **kw):
        if not self.frozen:
            self.ev.append(kw)
            if len(self.ev) > self.max_events:
                self.frozen = True
                raise Livelock()

    def _freeze(self):
        self.frozen = True

    def tick(self):
        if self.start_idx is None or self.outcome is not None:
            return          # run() has not made its first step yet / has ended: that is what `pre` / `post` are for
        self.ticks += 1
        e = self.timed.pop(self.ticks, None)
        if e is not None:
            self.fire(list(e))

    # ------------------------------------------------------------------ doubles + the real objects
    def build(self):
        run = self

        class Src(ItemSource):
            def __init__(self, p):
                self.p = p
                self.n = 0

            @asyncio.coroutine
            def get_item(self):
                if run.arm_sraise is not None:
                    x, run.arm_sraise = run.arm_sraise, None
                    run.log(e='src', p=self.p, k='raise', x=x)
                    raise make_exc(x)
                if self.n < run.cfg['kk'][self.p - 1]:
                    self.n += 1
                    run.log(e='src', p=self.p, k='item', v=self.n)
                    return work_item(self.n)
                run.log(e='src', p=self.p, k='none')
                return None

        class Tk(ItemTask):
            def __init__(self, p, j):
                self.p, self.j = p, j

            @asyncio.coroutine
            def process(self, item):
                if not isinstance(item, int) or isinstance(item, bool):
                    item = 0          # something that is not an item of the source (recorded as item 0: never supplied)
                run.log(e='begin', p=self.p, i=item, j=self.j)
                fut = asyncio.get_event_loop().create_future()
                key = (self.p, item, self.j)
                # (a list: code under test that runs the same task on the same item twice must stay observable)
                run.pending.setdefault(key, []).append(fut)
                run.pending_order.append(key)
                try:
                    yield from fut
                except Exception as error:   # noqa
                    if isinstance(error, _Boom):
                        run.log(e='end', p=self.p, i=item, j=self.j, ok=False, x=error.xclass)
                    raise
                run.log(e='end', p=self.p, i=item, j=self.j, ok=True)

        cfg = self.cfg
        pipes = []
        for p in range(1, self.NP + 1):
            pl = Pipeline(Src(p), [Tk(p, j + 1) for j in range(self.T)])
            pl.skippable = bool(cfg['skp'][p - 1])
            pl.concurrency = cfg['pc0'][p - 1]
            pipes.append(pl)
        series = PipelineSeries(pipes)
        for p, pl in enumerate(pipes):
            if cfg['reg'][p]:
                series.concurrency_pipelines.add(pl)
        app = Application(series)
        index = {id(pl): n + 1 for n, pl in enumerate(pipes)}
        app.event_dispatcher.add_listener(Application.Event.pipeline_begin,
                                          lambda pl: run.log(e='pbegin', p=index.get(id(pl), 0)))
        app.event_dispatcher.add_listener(Application.Event.pipeline_end,
                                          lambda pl: run.log(e='pend', p=index.get(id(pl), 0)))
        self.pipes, self.series, self.app = pipes, series, app
        return app

    # ------------------------------------------------------------------ environment
    def enabled(self, e):
        k = e[0]
        if k in ('body', 'braise'):
            return (e[1], e[2], e[3]) in self.pending
        return True

    def _take(self, key):
        lst = self.pending[key]
        fut = lst.pop(0)
        if not lst:
            del self.pending[key]
        return fut

    def _state(self):
        st = getattr(self.app, '_state', None)
        return getattr(st, 'value', None)

    def fire(self, e):
        k = e[0]
        if k == 'setc' and e[1] == self.series.concurrency:
            return      # no change: not an event
        if self.started and not self.finished:
            self.fired.append(e)
        if k == 'body':
            key = (e[1], e[2], e[3])
            self.pending_order.remove(key)
            self._take(key).set_result(None)
        elif k == 'braise':
            self.n_raise += 1
            key = (e[1], e[2], e[3])
            self.pending_order.remove(key)
            self._take(key).set_exception(make_exc(e[4]))
        elif k == 'sraise':
            self.n_raise += 1
            self.arm_sraise = e[1]
        elif k == 'stop':
            self.n_stop += 1
            before = self._state()
            self.app.stop()
            # `acted` is for the strict trace spec only; the monitor decides from the consequences
            self.log(e='astop', acted=bool(before != 'stopping' and self._state() == 'stopping'))
        elif k == 'setc':
            self.n_conc += 1
            self.series.concurrency = e[1]
            self.log(e='setc', c=e[1], pc=[pl.concurrency for pl in self.pipes])
        elif k == 'uec':
            self.n_uec += 1
            self.app.update_exit_code(e[1])
            self.log(e='uec', c=e[1])
        elif k == 'run2':
            self.n_run2 += 1
            self._second_run()
        else:
            raise ValueError('unknown environment event %r' % (e,))

    def _second_run(self):
        at = len(self.ev)          # notifications of a second run that does start are logged after its `run` event
        coro = self.app.run()
        try:
            coro.send(None)
        except RuntimeError:
            self.ev.insert(at, dict(e='run', ok=False))
        except StopIteration:
            self.ev.insert(at, dict(e='run', ok=True))     # ran (to completion) a second time
        else:
            self.ev.insert(at, dict(e='run', ok=True))     # started a second time
        finally:
            try:
                coro.close()
            except BaseException:  # noqa
                pass

    def enabled_list(self, budgets=None):
        """All environment events enabled now.  budgets: dict(stop, conc, raise_, uec, run2, cmax, xs, uecvals)."""
        b = budgets or {}
        out = [['body', p, i, j] for (p, i, j) in self.pending_order]
        if b.get('stop', 0) > self.n_stop:
            out.append(['stop'])
        if b.get('conc', 0) > self.n_conc:
            for c in range(0, b.get('cmax', 0) + 1):
                if c != self.series.concurrency:
                    out.append(['setc', c])
        if b.get('raise_', 0) > self.n_raise:
            for x in b.get('xs', 'S'):
                out += [['braise', p, i, j, x] for (p, i, j) in self.pending_order]
                if self.arm_sraise is None:
                    out.append(['sraise', x])
        if b.get('uec', 0) > self.n_uec:
            out += [['uec', c] for c in b.get('uecvals', [5])]
        if b.get('run2', 0) > self.n_run2:
            out.append(['run2'])
        return out

    def env_step(self):
        self.steps += 1
        if self.steps > self.max_steps:
            return False
        if self.chooser is not None:
            e = self.chooser(self)
            if e is None:
                return False
            self.fire(e)
            return True
        while self.script:
            e = self.script.pop(0)
            if self.enabled(e):
                self.fire(e)
                return True
        if self.fallback and self.pending_order:
            p, i, j = self.pending_order[0]
            self.fire(['body', p, i, j])
            return True
        if self.fallback and self._paused():
            # the script left a pipeline paused: the environment un-pauses it (a registered pipeline follows)
            self.fire(['setc', 1])
            return True
        if self.timed:
            k = min(self.timed)
            self.fire(list(self.timed.pop(k)))
            return True
        return False

    def _paused(self):
        return self.series.concurrency == 0 and any(
            r and pl.concurrency == 0 for r, pl in zip(self.cfg['reg'], self.pipes))

    # ------------------------------------------------------------------ execution
    def execute(self):
        app = self.build()
        handler = _Capture(self)
        lg = logging.getLogger('wpull.application.app')
        old_prop, old_level = lg.propagate, lg.level
        lg.addHandler(handler)
        lg.propagate = False
        lg.setLevel(logging.ERROR)
        old = signal.signal(signal.SIGVTALRM, _alarm)
        _watch['t0'], _watch['limit'] = time.thread_time(), self.watchdog_s
        signal.setitimer(signal.ITIMER_VIRTUAL, self.watchdog_s)
        try:
            try:
                kind, val = self._execute(app)
            except Livelock:
                kind, val = 'livelock', None
        finally:
            signal.setitimer(signal.ITIMER_VIRTUAL, 0)
            signal.signal(signal.SIGVTALRM, old)
            lg.removeHandler(handler)
            lg.propagate = old_prop
            lg.setLevel(old_level)
        return self.ev

    def _execute(self, app):
        # events before run() is called (a loop must exist for Application.stop -> nothing, setc, uec)
        for e in self.pre:
            self.fire(e)
        self.started = True

        @asyncio.coroutine
        def main():
            # same task step as the first step of Application.run(): marks where `run` belongs in the recording;
            # the outcome is logged in the task step in which run() ends (a stop injected after that comes later)
            self.start_idx = len(self.ev)
            try:
                val = yield from app.run()
            except Livelock:
                raise
            except Exception as error:   # noqa
                began = any(e['e'] == 'pbegin' for e in self.ev[self.start_idx:])
                if isinstance(error, RuntimeError) and not began and 'not ready' in str(error):
                    self.ev.insert(self.start_idx, dict(e='run', ok=False))
                    self.outcome = 'rejected'
                else:
                    self.ev.insert(self.start_idx, dict(e='run', ok=True))
                    self.log(e='retx', detail='%s: %s' % (type(error).__name__, error))
                    self.outcome = 'crash'
                self.frozen = True
                return None
            self.ev.insert(self.start_idx, dict(e='run', ok=True))
            if isinstance(val, int) and not isinstance(val, bool) and 0 <= val < 1000:
                self.log(e='ret', code=val)
                self.outcome = 'ret'
            else:
                self.log(e='retx', detail='run() returned %r' % (val,))
                self.outcome = 'crash'
            # the observation ends when run() returns: what orphan tasks of a failed pipeline still do in the last
            # loop iteration (wpull closes the loop right after run()) is not part of the recording
            self.frozen = True
            return val

        kind, val = vloop.run(main, self.env_step, tick_hook=self.tick if self.timed else None,
                              before_cleanup=self._freeze)
        self._classify(kind, val)
        if self.outcome in ('ret', 'rejected'):
            for e in self.post:
                self.fire(e)
        return kind, val

    def _classify(self, kind, val):
        self.frozen = False
        self.finished = True
        if self.outcome is not None:
            return
        if kind == 'exc' and isinstance(val, Livelock):
            kind = 'livelock'
        if self.start_idx is not None:
            self.ev.insert(self.start_idx, dict(e='run', ok=True))
        if kind == 'hang' and self.pending_order:
            # the environment stopped answering while a task body was pending: not an observation of the code
            self.outcome = 'abandoned'
        elif kind in ('hang', 'livelock'):
            cp = getattr(self.app, '_current_pipeline', None)
            self.log(e='hang', busy=(kind == 'livelock'),
                     cur=(self.pipes.index(cp) + 1) if cp in self.pipes else 0,
                     conc=[pl.concurrency for pl in self.pipes], pending=len(self.pending_order))
            self.outcome = 'hang' if kind == 'hang' else 'livelock'
        else:
            raise RuntimeError('appseries_exec: unexpected end of run: %r %r' % (kind, val))

    def slim(self):
        """Drop the objects of the finished execution (cyclic garbage: tasks, futures, pipelines); keep the record."""
        self.app = self.pipes = self.series = None
        self.pending = {}
        return self

    def header(self):
        c = self.cfg
        return {'np': self.NP, 'tt': self.T, 'skp': [bool(x) for x in c['skp']], 'reg': [bool(x) for x in c['reg']], 'kk': list(c['kk']),
                'pc0': list(c['pc0'])}


def confirm_livelock(r):
    """A CPU-time watchdog can be tripped by a garbage-collection pause on a loaded machine.  The executions are
    deterministic, so a verdict `livelock` is only kept if the same schedule does it again with a generous limit."""
    if r.outcome != 'livelock':
        return r
    if r.remake is not None:
        again = r.remake()          # stateless exploration: the same choice prefix again
    elif r.chooser is not None:
        again = Run(r.cfg, r.fired, fallback=True, pre=r.pre, post=r.post)
    else:
        again = Run(r.cfg, r.script0, fallback=r.fallback, timed=r.timed0, pre=r.pre, post=r.post)
    again.watchdog_s = 20.0
    again.execute()
    return again
