"""C10 - URL normalisation yields a stable canonical form;  C11 - URL parsing and joining are total.

1. scenario generation + design check: TLC enumerates the clusters of the structured input space defined in
   specs/UrlNorm.tla with specs/UrlNormGen.tla (families = base input + Variants), evaluates the transcription
   Norm on every member and checks the property clauses on it (design check), and prints the families;
2. every member of every family is run through the REAL wpull.url code (drivers/urlnorm_exec.py);
3. TLC evaluates the property predicates on the real outputs (UrlNormMon: decides VIOLATION) and compares the
   real outputs with Norm (UrlNormTrace: decides MODEL-DRIFT).
`chk.pid` selects the property: C10 = canonical-form clauses on the structured clusters, C11 = totality
clauses on the structured clusters + delimiter soup + document encodings.
"""
import json
import os
import re
import time
from concurrent.futures import ThreadPoolExecutor, ProcessPoolExecutor

from harness import tlc

# the code as it is today: flip to 'TRUE' when the corresponding fix is committed (known_findings.json)
FIX = {'FixPctCase': 'TRUE', 'FixIdnaFirst': 'TRUE', 'FixUserPct': 'TRUE', 'FixUrlEager': 'TRUE'}
if os.environ.get('VERIF_URLNORM_FIX'):          # e.g. "FixPctCase,FixIdnaFirst" when checking a repaired worktree
    for _k in os.environ['VERIF_URLNORM_FIX'].split(','):
        if _k:
            FIX[_k] = 'TRUE'

C10_CLAUSES = {1: 'IsAscii', 2: 'NoWsC0', 4: 'LowerSchemeHost', 8: 'DefaultPortOmitted', 16: 'NoDotOrEmptySegments',
               32: 'EscapesUpper', 64: 'Idempotent', 128: 'RoundTrip', 256: 'VariantsAgree',
               512: 'IdempotentWhateverTheEncoding'}
C11_CLAUSES = {1: 'ParseTotal', 2: 'AccessorsTotal', 4: 'LogNeverRaises', 8: 'JoinOnlyValueError', 16: 'Terminates'}

C10_INVS = ['TypeOK', 'MTotal', 'MIsAscii', 'MNoWsC0', 'MLower', 'MPort', 'MSegments', 'MEscapes', 'MIdempotent', 'MIdempotentAnyEnc',
            'MRoundTrip', 'MVariants']
C11_INVS = ['TypeOK', 'MTotal']


def fix_consts():
    return ' '.join('%s = %s' % kv for kv in sorted(FIX.items()))


def gen_cfg(cluster, mod, rem, variants, check, invs, emit=True):
    s = 'SPECIFICATION Spec\nCONSTANTS %s\n Cluster = "%s" SampleMod = %d SampleRem = %d VKinds = {%s} Check = %s EmitOn = %s\n' \
        % (fix_consts(), cluster, mod, rem, ', '.join('"%s"' % k for k in variants), 'TRUE' if check else 'FALSE',
           'TRUE' if emit else 'FALSE')
    s += 'CONSTRAINT Emit\n'
    if check:
        s += ''.join('INVARIANT %s\n' % i for i in invs)
    s += 'CHECK_DEADLOCK FALSE\n'
    return s


_RE_FAM = re.compile(r'^"(\{.*\})"$', re.M)


def parse_families(out):
    fams = []
    for m in _RE_FAM.finditer(out):
        fams.append(json.loads(m.group(1).replace('\\"', '"').replace('\\\\', '\\')))
    return fams


def generate(cluster, mod, rem, variants, check, invs, workers=3, timeout=1500):
    """TLC's -coverage switches off the one-time evaluation of constant definitions (the catalogues are rebuilt at
    every use: hours instead of seconds), so it is not used here.  The generator has a single action, Expand:
    every non-initial state was produced by it, so its coverage count is measured as distinct - initial states."""
    res = tlc.run_tlc('UrlNormGen', gen_cfg(cluster, mod, rem, variants, check, invs), workers=workers,
                      timeout=timeout, coverage=False, heap='3g')
    fams = parse_families(res['out'])
    res['out'] = _RE_FAM.sub('', res['out'])     # keep the TLC messages only
    if res['ok']:
        res['coverage'] = {'Expand': res['distinct'] - _n_init(res)}
    return fams, res


# ------------------------------------------------------------------ plans
V_AUTH = ('case', 'default-port', 'notation', 'fragment')
V_PATH = ('dot-segment', 'dotdot-segment', 'dot-segment-last', 'dotdot-segment-last', 'fragment', 'escape-lower', 'escape-upper')
V_ALL = ('case', 'default-port', 'notation', 'dot-segment', 'dotdot-segment', 'dot-segment-last', 'dotdot-segment-last', 'fragment', 'escape-lower', 'escape-upper')


def plan(pid, tier, seed):
    """(cluster, SampleMod, variant kinds) per tier.  Boundary / catalogue cases are always kept by the generator
    (one-factor cluster A0, userinfo and scheme clusters A2 A3, short paths / strings); the rest is sampled by
    Hash(text) % mod = seed % mod."""
    quick = tier == 'quick'
    if pid == 'C10':
        if quick:
            return [('A0', 1, V_ALL), ('A2', 1, V_AUTH), ('A3', 1, V_AUTH), ('A1', 16, V_AUTH), ('B', 12, V_PATH),
                    ('C', 10, V_PATH), ('D', 300, V_ALL), ('E', 1, ())]
        return [('A0', 1, V_ALL), ('A2', 1, V_AUTH), ('A3', 1, V_AUTH), ('A1', 1, V_AUTH), ('B', 1, V_PATH),
                ('C', 1, V_PATH), ('D', 4, V_ALL), ('E', 1, ('fragment',))]
    if quick:
        return [('A0', 1, ()), ('A2', 1, ()), ('A3', 1, ()), ('A1', 8, ()), ('B', 12, ()),
                ('C', 8, ()), ('E', 1, ()), ('S', 40, ()), ('SH', 5, ()), ('S2', 12, ())]
    return [('A0', 1, ()), ('A2', 1, ()), ('A3', 1, ()), ('A1', 1, ()), ('B', 1, ()), ('C', 1, ()),
            ('D', 8, ()), ('E', 1, ()), ('S', 1, ()), ('SH', 1, ()), ('S2', 1, ())]


# ------------------------------------------------------------------ real executions
def _exec_chunk(args):
    from harness import wpull_compat  # noqa: F401
    from drivers import urlnorm_exec
    fams, full = args
    return urlnorm_exec.run_families(fams, full, full)


def execute(fams, full, procs=6):
    """full: C11 (accessors, parse_url_or_log, joins); otherwise only what C10 observes."""
    if len(fams) < 2000:
        return _exec_chunk((fams, full))
    chunks = [fams[i:i + 1000] for i in range(0, len(fams), 1000)]
    out = []
    with ProcessPoolExecutor(max_workers=procs) as ex:
        for part in ex.map(_exec_chunk, [(c, full) for c in chunks]):
            out.extend(part)
    return out


# ------------------------------------------------------------------ TLC on the real outputs
MON_FIELDS = ['ref', 'oc', 'uoc', 'net', 'url', 'oc2', 'url2', 'oc3', 'url3', 'acc', 'log', 'join', 'sch', 'hn', 'port', 'path',
              'query', 'sch2', 'hn2', 'port2', 'path2', 'query2']
TRACE_FIELDS = ['in', 'enc', 'oc', 'uoc', 'net', 'url', 'sch', 'hn', 'port', 'path', 'query', 'frag', 'user', 'pass']


def _slim(rec, fields):
    return {k: rec[k] for k in fields if k in rec}


def mon_traces(records):
    """records: list of families (lists of member records) -> (traces, index[(fi, mi)])."""
    from drivers.urlnorm_exec import ref_of
    traces, index = [], []
    for fi, fam in enumerate(records):
        base = fam[0]
        for mi, rec in enumerate(fam):
            ev = [_slim(rec, MON_FIELDS)] if mi == 0 else [ref_of(base), _slim(rec, MON_FIELDS)]
            traces.append({'ev': ev})
            index.append((fi, mi))
    return traces, index


def trace_traces(records):
    traces, index = [], []
    for fi, fam in enumerate(records):
        for mi, rec in enumerate(fam):
            traces.append({'ev': [_slim(rec, TRACE_FIELDS)]})
            index.append((fi, mi))
    return traces, index


def _validate(module, cfg, traces, chunk, par):
    # balanced chunks: at most `chunk` traces each, a multiple of `par` runs when there is more than one
    n = max(1, -(-len(traces) // chunk))
    if n > 1:
        n = -(-n // par) * par
    size = max(1, -(-len(traces) // n))
    parts = [traces[i:i + size] for i in range(0, len(traces), size)]
    with ThreadPoolExecutor(max_workers=par) as ex:
        results = list(ex.map(lambda p: tlc.validate_batch(module, cfg, p, depth_first=False, heap='2g'), parts))
    verdicts, stats = [], {'states': 0, 'distinct': 0, 'wall_s': 0.0, 'runs': 0}
    for v, st in results:
        verdicts.extend(v)
        for k in stats:
            stats[k] += st[k]
    return verdicts, stats


def monitor(prop, traces, chunk=3000, par=8):
    cfg = ('SPECIFICATION MSpec\nCONSTANTS %s Prop = "%s"\nCONSTRAINT Record\nPOSTCONDITION Post\nCHECK_DEADLOCK FALSE\n'
           % (fix_consts(), prop))
    return _validate('UrlNormMon', cfg, traces, chunk, par)


def strict(traces, chunk=2500, par=8):
    cfg = ('SPECIFICATION TSpec\nCONSTANTS %s\nCONSTRAINT Record\nPOSTCONDITION Post\nCHECK_DEADLOCK FALSE\n'
           % fix_consts())
    return _validate('UrlNormTrace', cfg, traces, chunk, par)


# ------------------------------------------------------------------ classification (labels only, no verdicts)
def _s(cp):
    return ''.join(chr(c) for c in cp)


def split_url(u):
    """scheme, userinfo, host, port, path, query of a normalised URL string (structure only)."""
    m = re.match(r'^([^:]*)://([^/?#]*)([^?#]*)(?:\?([^#]*))?', u, re.S)
    if not m:
        return {'scheme': u, 'userinfo': '', 'host': '', 'port': '', 'path': '', 'query': ''}
    auth = m.group(2)
    user, at, hp = auth.rpartition('@')
    if hp.startswith('[') and ']' in hp:
        host, port = hp[:hp.index(']') + 1], hp[hp.index(']') + 1:]
    elif ':' in hp:
        host, _, port = hp.rpartition(':')
        port = ':' + port
    else:
        host, port = hp, ''
    return {'scheme': m.group(1), 'userinfo': user, 'host': host, 'port': port, 'path': m.group(3),
            'query': m.group(4) or ''}


def host_shape(h):
    if h.startswith('['):
        return 'ipv6-zone' if '%' in h else 'ipv6'
    if re.match(r'^\d{1,3}(\.\d{1,3}){3}$', h):
        return 'dotted-quad'
    if re.match(r'^[0-9a-fx.]+$', h) and re.match(r'^[0-9]', h):
        return 'numeric-other'
    return 'name'


def differing(u1, u2):
    a, b = split_url(u1), split_url(u2)
    return [k for k in ('scheme', 'userinfo', 'host', 'port', 'path', 'query') if a[k] != b[k]]


_TESTS = {
    'IsAscii': lambda t: any(ord(c) > 127 for c in t),
    'NoWsC0': lambda t: any(ord(c) <= 32 for c in t),
    'LowerSchemeHost': lambda t: any('A' <= c <= 'Z' for c in t),
    'EscapesUpper': lambda t: re.search(r'%(?=[0-9a-fA-F]{2})(?:[0-9A-F][a-f]|[a-f][0-9a-fA-F])', t) is not None,
}


def signature_c10(clause, rec, base, enc):
    """Input-class label of a failing C10 clause (which component of the output / which respelling)."""
    url = _s(rec['url'])
    sig = {'clause': clause}
    if enc != 'utf-8':
        try:
            compatible = 'a/?'.encode(enc) == b'a/?'
        except Exception:   # noqa
            compatible = False
        if not compatible:
            sig['encoding'] = 'ascii-incompatible'
            return sig      # the output is not even a URL: no finer classification
    parts = split_url(url)
    if clause in _TESTS:
        names = ('scheme', 'host') if clause == 'LowerSchemeHost' else ('scheme', 'userinfo', 'host', 'port', 'path', 'query')
        sig['where'] = ([k for k in names if _TESTS[clause](parts[k])] or ['?'])[0]     # first offending component
        if clause == 'LowerSchemeHost' and sig['where'] == 'host':
            sig['host'] = host_shape(parts['host'])
    elif clause == 'DefaultPortOmitted':
        sig['port'] = 'default' if re.match(r'^:0*\d+$', parts['port']) else 'malformed'
    elif clause == 'NoDotOrEmptySegments':
        segs = parts['path'].split('/')[1:]
        sig['segment'] = sorted(set(('dot' if s in ('.', '..') else 'empty') for i, s in enumerate(segs)
                                    if s in ('.', '..') or (s == '' and i < len(segs) - 1))) or ['not-absolute']
    elif clause in ('Idempotent', 'RoundTrip'):
        if rec['oc2'] != 'value':
            sig['second_pass'] = rec['oc2']
        else:
            d = differing(url, _s(rec['url2']))
            if clause == 'RoundTrip':
                d = [k for k in d if k != 'userinfo']
            sig['differs'] = (d or ['?'])[0]               # first differing component
            if sig['differs'] == 'host':
                sig['host'] = '%s->%s' % (host_shape(parts['host']), host_shape(split_url(_s(rec['url2']))['host']))
    elif clause == 'IdempotentWhateverTheEncoding':
        if rec['oc3'] != 'value':
            sig['second_pass'] = rec['oc3']
        else:
            sig['differs'] = (differing(url, _s(rec['url3'])) or ['?'])[0]
    elif clause == 'VariantsAgree':
        vk = rec['vk']
        sig['variant'] = 'escape-case' if vk.startswith('escape-') else vk
        bnet = base['oc'] == 'value' and base['uoc'] == 'value' and base['net']
        rnet = rec['oc'] == 'value' and rec['uoc'] == 'value' and rec['net']
        if bnet and rnet:
            d = differing(_s(base['url']), url)
            sig['differs'] = (d or ['?'])[0]
            if sig['differs'] == 'host':
                sig['host'] = '%s|%s' % tuple(sorted((host_shape(split_url(_s(base['url']))['host']), host_shape(parts['host']))))
        else:
            sig['outcomes'] = sorted(set(['network-url' if bnet else base['oc'], 'network-url' if rnet else rec['oc']]))
    if enc != 'utf-8' and (sig.get('where') or sig.get('differs')) in ('userinfo', 'path', 'query'):
        sig['encoding'] = 'ascii-compatible'       # (only these components go through the document codec)
    return sig


def signatures_c11(clause, rec):
    """One signature per failing call site."""
    sigs = []
    if clause == 'ParseTotal':
        sigs.append({'clause': clause, 'call': 'URLInfo.parse', 'exception': rec['exc']})
    elif clause == 'AccessorsTotal':
        for name, exc in rec['accfail']:
            sigs.append({'clause': clause, 'accessor': name, 'exception': exc,
                         'scheme': 'network' if rec['net'] or rec['uoc'] != 'value' else 'non-network'})
    elif clause == 'LogNeverRaises':
        sigs.append({'clause': clause, 'call': 'parse_url_or_log', 'exception': rec.get('logexc', '')})
    elif clause == 'JoinOnlyValueError':
        for fn, base, exc in rec['joinfail']:
            sigs.append({'clause': clause, 'call': fn, 'exception': exc})
    elif clause == 'Terminates':
        sigs.append({'clause': clause, 'call': [k for k in ('oc', 'uoc', 'acc', 'log', 'join') if rec[k] == 'hang']})
    return sigs


# ------------------------------------------------------------------ the check
def run(chk):
    pid = chk.pid
    quick = chk.tier == 'quick'
    c10 = pid == 'C10'
    clauses = C10_CLAUSES if c10 else C11_CLAUSES
    pl = plan(pid, chk.tier, chk.seed)

    timing = {}
    t0 = time.time()
    # ---- 1. generation + design check (TLC)
    def gen(entry):
        cluster, mod, variants = entry
        return generate(cluster, mod, chk.seed % mod, variants, True, C10_INVS if c10 else C11_INVS,
                        workers=2 if quick else 4)
    with ThreadPoolExecutor(max_workers=8 if quick else 4) as ex:
        gens = list(ex.map(gen, pl))
    fams = []
    consts = []
    for (cluster, mod, variants), (fs, res) in zip(pl, gens):
        chk.design('UrlNormGen[%s,1/%d%s]' % (cluster, mod, ',variants' if variants else ''), res,
                   constants=dict(Cluster=cluster, SampleMod=mod, SampleRem=chk.seed % mod, VKinds=list(variants), **FIX),
                   expect_actions=['Expand'])
        if len(fs) != res['distinct'] - _n_init(res):
            raise tlc.TLCError('generator %s: %d families printed, %d done states' % (cluster, len(fs), res['distinct']))
        consts.append(dict(cluster=cluster, sample_mod=mod, families=len(fs), members=sum(len(f['m']) for f in fs)))
        fams.extend(fs)
    chk.constants = {'clusters': consts, 'fix_constants': FIX}

    timing['generate_and_design_s'] = round(time.time() - t0, 1)
    # ---- 2. the real code
    t0 = time.time()
    records = execute(fams, full=not c10)
    skipped = sum(1 for r in records if r is None)
    if skipped:
        chk.note('%d of %d families were not executed: the watchdog budget (%d hanging inputs per process) was used up'
                 % (skipped, len(fams), 12))
        fams = [f for f, r in zip(fams, records) if r is not None]
        records = [r for r in records if r is not None]
    nmembers = sum(len(r) for r in records)
    timing['execute_real_s'] = round(time.time() - t0, 1)
    t0 = time.time()

    # ---- 3. TLC on the real outputs
    mtr, mindex = mon_traces(records)
    mv, mst = monitor(pid, mtr)
    chk.trace_stats(mst)
    timing['monitor_s'] = round(time.time() - t0, 1)
    t0 = time.time()
    ttr, tindex = trace_traces(records)
    sv, sst = strict(ttr)
    chk.trace_stats(sst)
    timing['strict_s'] = round(time.time() - t0, 1)
    chk.extra['timing'] = timing

    from drivers import urlnorm_exec
    chk.extra['log_records_formatted'] = urlnorm_exec.SINK.records
    for (fi, mi), m, s in zip(mindex, mv, sv):
        fam, rec = fams[fi], records[fi][mi]
        text = _s(rec['in'])
        chk.validated(1)
        changed = rec['oc'] != 'value' or not rec['net'] or _s(rec['url']) != text
        chk.case(key=(text, fam['enc']), nontrivial=changed)
        if len(chk.samples) < 5 and mi == (1 if c10 else 0) and fi % (97 if c10 else 1499) == 3 \
                and (not c10 or records[fi][0]['net']):
            chk.samples.append({'cluster': fam['cl'], 'tags': fam['tags'], 'encoding': fam['enc'],
                                'family': [[k, _s(t)] for k, t in fam['m']],
                                'real_outputs': [_s(r['url']) if r['oc'] == 'value' else r['oc'] for r in records[fi]]})
        if m['matched'] < m['len'] and m['bad'] == 0:
            raise tlc.TLCError('monitor did not consume a trace: %r' % (m,))
        if m['bad']:
            zone_notes = chk.extra.setdefault('ipv6_zone_case_excluded', set())
            for bit, clause in sorted(clauses.items()):
                if not m['bad'] & bit:
                    continue
                replay_obj = {'input': rec['in'], 'text': text, 'encoding': fam['enc'], 'variant': rec['vk'],
                              'base': fam['m'][0][1], 'cluster': fam['cl'], 'tags': fam['tags'],
                              'output': _s(rec['url']), 'second_pass': _s(rec['url2']), 'outcome': rec['oc']}
                if c10:
                    sigs = [signature_c10(clause, rec, records[fi][0], fam['enc'])]
                else:
                    sigs = signatures_c11(clause, rec)
                for sig in sigs:
                    if c10 and 'ipv6-zone' in str(sig.get('host', '')) and clause in ('LowerSchemeHost', 'VariantsAgree'):
                        # lenient reading (DESIGN 7): an IPv6 zone identifier is a case-sensitive interface name, not
                        # part of the host *name*; "lower-case host" and case-respelling are not applied to it
                        zone_notes.add(clause)
                        continue
                    chk.violation(sig, '%s false on the real wpull.url for input %s (encoding %s, %s of %s): output %s%s'
                                  % (clause, ascii(text), fam['enc'], rec['vk'], ascii(_s(fam['m'][0][1])),
                                     ascii(_s(rec['url'])) if rec['oc'] == 'value' else rec['oc'] + ':' + rec['exc'],
                                     (', second pass ' + ascii(_s(rec['url2']))) if clause in ('Idempotent', 'RoundTrip') else ''),
                                  replay_obj)
        if not s['accepted']:
            chk.drifted('UrlNorm.tla Norm disagrees with wpull.url on %s (encoding %s): real %s %s'
                        % (ascii(text), fam['enc'], rec['oc'], ascii(_s(rec['url']))),
                        {'input': rec['in'], 'cluster': fam['cl'], 'tags': fam['tags']})
    if 'ipv6_zone_case_excluded' in chk.extra:
        chk.extra['ipv6_zone_case_excluded'] = sorted(chk.extra['ipv6_zone_case_excluded'])
    if not chk.samples and records:
        fi = min(len(fams) - 1, 7)
        chk.samples.append({'cluster': fams[fi]['cl'], 'family': [[k, _s(t)] for k, t in fams[fi]['m']],
                            'real_outcomes': [r['oc'] for r in records[fi]]})
    chk.rule = ('inputs enumerated by TLC from the structured input space of specs/UrlNorm.tla (clusters: authority '
                'A0-A3, path B, query/fragment C, cross D, encodings E, delimiter soup S/SH/S2; families = base + '
                'Variants); every member is run through the real wpull.url; distinct = distinct (input text, '
                'encoding); non-trivial = the real code changed the text or rejected it')
    chk.exhaustive = all(mod == 1 for (_, mod, _) in pl)
    chk.extra['members_executed'] = nmembers
    chk.extra['property_clauses'] = sorted(clauses.values())


def _n_init(res):
    m = re.search(r'Finished computing initial states: (\d+) distinct state', res['out'])
    return int(m.group(1)) if m else 0


def replay(chk, path):
    from drivers import urlnorm_exec
    rp = json.load(open(path))['replay']
    for what, cp in (('base', rp['base']), ('input', rp['input'])):
        rec = urlnorm_exec.run_case(urlnorm_exec.text_of(cp), rp['encoding'])
        print(what, ascii(urlnorm_exec.text_of(cp)), '->', rec['oc'], rec['exc'], ascii(_s(rec['url'])),
              '| second pass:', rec['oc2'], ascii(_s(rec['url2'])), '| accessors:', rec['acc'], rec['accfail'],
              '| log:', rec['log'], '| join:', rec['join'], rec['joinfail'])
    return 0


def selftest(chk):
    """Binding self-test: a corrupted log field must be rejected by the strict spec / flagged by the monitor."""
    import copy
    fams, res = generate('A0', 1, 0, V_ALL, False, [], workers=2)
    tlc.require_ok(res, 'generator A0')
    fams = fams[:60]
    records = execute(fams, full=True)
    flat = [r for fam in records for r in fam]
    good = next(r for r in flat if r['oc'] == 'value' and r['uoc'] == 'value' and r['net'] and r['oc2'] == 'value'
                and r['url2'] == r['url'] and not any(65 <= c <= 90 or c == 64 for c in r['url'])
                and r['url'][:7] == [ord(c) for c in 'http://'])
    bad_url = copy.deepcopy(good)
    bad_url['url'] = good['url'][:-1] + [good['url'][-1] + 1]          # one character of the logged output
    bad_port = copy.deepcopy(good)
    bad_port['port'] = good['port'] + 1                                # one logged component
    bad_oc = copy.deepcopy(good)
    bad_oc['oc'] = 'valueerror'                                        # the logged outcome class
    sv, _ = strict([{'ev': [_slim(r, TRACE_FIELDS)]} for r in (good, bad_url, bad_port, bad_oc)])
    strict_ok = [v['accepted'] for v in sv] == [True, False, False, False]
    print('strict spec: original accepted=%s, corrupted url/port/outcome accepted=%s'
          % (sv[0]['accepted'], [v['accepted'] for v in sv[1:]]))
    up = copy.deepcopy(good)
    i = next(k for k, c in enumerate(up['url']) if k >= 7 and 97 <= c <= 122)
    up['url'][i] -= 32                                                 # an upper-case letter in the host
    non_idem = copy.deepcopy(good)
    non_idem['url2'] = good['url'] + [97]
    acc = copy.deepcopy(good)
    acc['acc'], acc['log'], acc['join'] = 'ok', 'ok', 'ok'
    hang = copy.deepcopy(acc)
    hang['log'] = 'hang'
    other = copy.deepcopy(acc)
    other['oc'] = 'other'
    m10, _ = monitor('C10', [{'ev': [_slim(r, MON_FIELDS)]} for r in (good, up, non_idem)])
    m11, _ = monitor('C11', [{'ev': [_slim(r, MON_FIELDS)]} for r in (acc, hang, other)])
    print('monitor C10 masks (good, upper-case host, second pass differs):', [v['bad'] for v in m10])
    print('monitor C11 masks (good, log hangs, parse raises other):', [v['bad'] for v in m11])
    mon_ok = (m10[0]['bad'] == 0 and m10[1]['bad'] & 4 and m10[2]['bad'] & 64
              and m11[0]['bad'] == 0 and m11[1]['bad'] & 16 and m11[2]['bad'] & 1)
    print('SELFTEST', 'ok' if strict_ok and mon_ok else 'FAILED')
    return 0 if strict_ok and mon_ok else 2
