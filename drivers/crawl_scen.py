"""Scenario catalogue for the end-to-end crawl checks (C01, C03, C18, C20, crawl-level C02).

A scenario = site (abstract URLs 1..U with host, kind, links, flags) + options + concurrency.
`header(scn)` is what the TLA+ monitor sees; `site_desc(scn)` what the scripted server serves;
`argv(scn, db, dir)` the real command line.
"""
import copy

HOSTS = ['a.test', 'b.test', 'c.test']
IPS = {'a.test': '10.0.0.1', 'b.test': '10.0.0.2', 'c.test': '10.0.0.3', 'f.test': '10.0.0.3'}

DEFAULT_OPTS = dict(recursive=1, level=0, pagereq=0, spanhosts=0, strong=1, tries=2, maxredir=3, robots=0, auth=0, sitemaps=0, ua='', cont=0,
                    tags='', noparent=0, retryconn=0, retrydns=0)


def U(i, kind='page', links=(), host='a.test', rto=0, rejected=0, disallowed=0, nofollow=0, path=None, **kw):
    d = dict(id=i, kind=kind, host=host, links=[dict(to=l) if isinstance(l, int) else dict(l) for l in links],
             rto=rto, rejected=rejected, disallowed=disallowed, nofollow=nofollow)
    d['path'] = path or ('/' if i == 1 else '/%s%sp%d' % ('rej/' if rejected else '', 'priv/' if disallowed else '', i))
    d.update(kw)
    return d


def scenario(name, urls, opts=None, N=1, start=(1,), robots=None, benign=1, split=0, dburi=0):
    o = dict(DEFAULT_OPTS)
    o.update(opts or {})
    return dict(name=name, urls=urls, opts=o, N=N, start=list(start), robots=robots or {}, benign=benign,
                split=split, dburi=dburi)


def ftp_scenario(name, N=1):
    """A recursive FTP crawl (scripted FTP server of drivers/errorflow_exec.py): / holds a.txt and sub/, /sub/ holds b.txt
    and c.txt.  For the model a directory is a page whose links are its entries; LIST / RETR are the requests."""
    urls = [U(1, host='f.test', path='/', links=[2, 3]), U(2, host='f.test', path='/a.txt'),
            U(3, host='f.test', path='/sub/', links=[4, 5]), U(4, host='f.test', path='/sub/b.txt'),
            U(5, host='f.test', path='/sub/c.txt')]
    scn = scenario(name, urls, dict(tries=1), N=N)
    f = '-rw-r--r-- 1 ftp ftp 3 Jan 01  2020 %s\r\n'
    scn['ftp'] = dict(files={'a.txt': 'aaa', 'b.txt': 'bbb', 'c.txt': 'ccc'}, dirs=['sub'],
                      listings={'/': 'drwxr-xr-x 2 ftp ftp 4096 Jan 01  2020 sub\r\n' + f % 'a.txt',
                                '/sub/': f % 'b.txt' + f % 'c.txt'})
    return scn


def ftp_odd_names_scenario(name, N=1):
    """A directory whose entries have names with characters that mean something in a URL (all legal file names)."""
    names = ['plain.txt', 'track #1.txt', 'what?.txt', 'a%41.txt', 'notes: todo.txt']
    urls = [U(1, host='f.test', path='/', links=list(range(2, 2 + len(names))))]
    urls += [U(i + 2, host='f.test', path='/' + n) for i, n in enumerate(names)]
    scn = scenario(name, urls, dict(tries=1), N=N)
    f = '-rw-r--r-- 1 ftp ftp 3 Jan 01  2020 %s\r\n'
    scn['ftp'] = dict(files={n: 'xyz' for n in names}, dirs=[], listings={'/': ''.join(f % n for n in names)})
    return scn


def ftp_mlsd_scenario(name):
    """A server with machine listings (MLSD): facts ended by ";", a space, the name - in which ";" and "=" are ordinary
    characters (RFC 3659 7.2)."""
    names = ['plain.txt', 'a;b.txt', 'x=1.txt', 'two words.txt']
    urls = [U(1, host='f.test', path='/', links=list(range(2, 2 + len(names))))]
    urls += [U(i + 2, host='f.test', path='/' + n) for i, n in enumerate(names)]
    scn = scenario(name, urls, dict(tries=1), N=1)
    scn['ftp'] = dict(files={n: 'xyz' for n in names}, dirs=[], listings={},
                      mlsd={'/': ''.join('type=file;size=3;modify=20200101000000; %s\r\n' % n for n in names)})
    return scn


def ftp_big_directory_scenario(name, n=150, total_line=False):
    """One directory with n files (more than the parser's sample of 100 lines); total_line: the listing begins with the
    "total N" line of `ls -l`, as many servers send it."""
    names = ['f%03d.txt' % i for i in range(1, n + 1)]
    urls = [U(1, host='f.test', path='/', links=list(range(2, 2 + n)))]
    urls += [U(i + 2, host='f.test', path='/' + nm) for i, nm in enumerate(names)]
    scn = scenario(name, urls, dict(tries=1), N=1)
    f = '-rw-r--r-- 1 ftp ftp 3 Jan 01  2020 %s\r\n'
    scn['ftp'] = dict(files={nm: 'xyz' for nm in names}, dirs=[],
                      listings={'/': ('total %d\r\n' % (4 * n) if total_line else '') + ''.join(f % nm for nm in names)})
    return scn


def hosts_of(scn):
    return sorted(set(u['host'] for u in scn['urls']))


def origin_label(u):
    p = u.get('port', 80)
    return u['host'] if p == 80 else '%s:%d' % (u['host'], p)


def origins_of(scn):
    return sorted(set(origin_label(u) for u in scn['urls']))


def header(scn):
    urls = scn['urls']
    hs = hosts_of(scn)
    n = len(urls)
    by = {u['id']: u for u in urls}
    assert sorted(by) == list(range(1, n + 1))
    links = []
    for u in urls:
        for l in u['links']:
            links.append([u['id'], l['to'], 1 if (l.get('inline') or l.get('frame') or l.get('css') or u['kind'] == 'css') else 0,
                          1 if l.get('implicit') else 0])
    ors = origins_of(scn)
    rk = []
    for o in ors:
        r = scn['robots'].get(o, {'kind': 'missing'})
        # a scripted control file: what it finally says counts (the attempts before it fail)
        rk.append(r['seq'][-1] if r['kind'] == 'script' else r['kind'])
    return dict(U=n, H=len(hs), OR=len(ors), start=scn['start'], links=links,
                host=[hs.index(by[i]['host']) + 1 for i in range(1, n + 1)],
                origin=[ors.index(origin_label(by[i])) + 1 for i in range(1, n + 1)],
                kind=[('page' if by[i]['kind'] in ('css', 'sitemap', 'robotsfile') else by[i]['kind'])
                      if by[i]['kind'] in ('page', 'redirect', 'css', 'sitemap', 'robotsfile') else 'other'
                      for i in range(1, n + 1)],
                rto=[by[i].get('rto', 0) for i in range(1, n + 1)],
                rejected=[1 if by[i]['rejected'] else 0 for i in range(1, n + 1)],
                outside=[1 if by[i].get('outside') else 0 for i in range(1, n + 1)],
                disallowed=[by[i]['disallowed'] for i in range(1, n + 1)],
                nofollow=[by[i]['nofollow'] for i in range(1, n + 1)],
                robotskind=rk, opts=dict(scn['opts'], N=scn['N']), benign=scn['benign'], name=scn['name'])


def site_desc(scn):
    urls = []
    for u in scn['urls']:
        d = dict(u)
        if d['kind'] == 'redirect' and d.get('rto') and not d.get('location'):
            d['to'] = d['rto']
        urls.append(d)
    hs = hosts_of(scn)
    robots = {}
    for h in origins_of(scn):
        r = scn['robots'].get(h)
        if r is None:
            robots[h] = {'kind': 'missing'}
        else:
            r = dict(r)
            if (r['kind'] == 'rules' or (r['kind'] == 'script' and 'rules' in r['seq'])) and 'disallow' not in r:
                r['disallow'] = ['/priv/']
            robots[h] = r
    return dict(hosts={h: IPS[h] for h in hs}, urls=urls, robots=robots, refuse=list(scn.get('refuse', ())),
                nodns=list(scn.get('nodns', ())), honour_range=bool(scn.get('honour_range')),
                auth_all=bool(scn.get('auth_all')))


def argv(scn, db, directory):
    o = scn['opts']
    by = {u['id']: u for u in scn['urls']}
    a = []
    for s in scn['start']:
        u = by[s]
        a.append('http://%s%s' % (origin_label(u), u['path']))
    # ('cont': --continue, documents kept on disk: a resumed run finds the files of the killed one)
    a += ['--html-parser', 'html5lib'] + (['--continue'] if o.get('cont') else ['--delete-after']) + ['-q', '-P', directory]
    a += ['--database-uri', 'sqlite:///' + db] if scn.get('dburi') else ['--database', db]
    a += [
          '--waitretry', '0', '--tries', str(o['tries']), '--max-redirect', str(o['maxredir']),
          '--level', str(o['level']), '--reject-regex', '/rej/', '--timeout', '30']
    if o['recursive']:
        a.append('-r')
    if o['pagereq']:
        a.append('--page-requisites')
    if o['spanhosts']:
        a.append('--span-hosts')
    if not o['strong']:
        a.append('--no-strong-redirects')
    if not o['robots']:
        a.append('--no-robots')
    if o.get('sitemaps'):
        a.append('--sitemaps')
    if o.get('tags'):
        a += o['tags'].split()
    if o.get('noparent'):
        a.append('--no-parent')
    if o.get('retryconn'):
        a.append('--retry-connrefused')
    if o.get('retrydns'):
        a.append('--retry-dns-error')
    if o.get('ua'):                  # the crawler's name: -U NAME, or the Wget way --header "User-Agent: NAME"
        a += (['-U', o['ua'][2:]] if o['ua'].startswith('U:') else ['--header', 'User-Agent: ' + o['ua'][2:]])
    if o['auth'] == 1:
        a += ['--http-user', 'u', '--http-password', 'p']
    elif o['auth'] == 2:
        a += ['--http-password', 'p']          # half a credential: nothing to send, so nothing to retry with
    elif o['auth'] == 3:
        a += ['--http-user', 'u']
    return a


# ------------------------------------------------------------------ catalogues

def sitemap_sites():
    """Sites for --sitemaps: /robots.txt and /sitemap.xml of a start URL's origin are queued as children of the start URL
    (implicit links) and read as documents: Sitemap: lines of robots.txt, <loc> entries of sitemaps."""
    imp = [dict(to=2, implicit=1), dict(to=3, implicit=1)]
    basic = [U(1, links=[4] + imp), U(2, path='/robots.txt', kind='robotsfile', links=[5]),
             U(3, path='/sitemap.xml', kind='sitemap', links=[6, 7, 8, 4]), U(4, links=[6]),
             U(5, path='/sitemap2.xml', kind='sitemap', links=[9]), U(6), U(7, host='b.test'), U(8, rejected=1), U(9, links=[1])]
    missing = [U(1, links=[4] + imp), U(2, path='/robots.txt', kind='notfound'), U(3, path='/sitemap.xml', kind='notfound'), U(4)]
    # the start URL itself is skipped (redirect to a rejected URL): its implicit children are still crawled
    skipped = [U(1, kind='redirect', rto=4, links=imp), U(2, path='/robots.txt', kind='robotsfile', links=[]),
               U(3, path='/sitemap.xml', kind='sitemap', links=[5, 6]), U(4, rejected=1), U(5, links=[6]), U(6)]
    failing = [U(1, kind='error500', links=imp), U(2, path='/robots.txt', kind='notfound'),
               U(3, path='/sitemap.xml', kind='sitemap', links=[4]), U(4)]
    return dict(basic=basic, missing=missing, skipped=skipped, failing=failing)

def c01_catalogue(quick):
    out = []
    # diamond with unequal path lengths: r->a,b ; a->c ; b->e ; e->c ; c->x
    diamond = [U(1, links=[2, 3]), U(2, links=[4]), U(3, links=[5]), U(4, links=[6]), U(5, links=[4]), U(6)]
    for lv in (0, 2, 3):
        for n in (1, 2):
            out.append(scenario('diamond-L%d-N%d' % (lv, n), diamond, dict(level=lv), N=n))
    # cycle, self link, duplicates in different spellings
    cyc = [U(1, links=[2, dict(to=2, spelling='HTTP://A.TEST:80/./p2#frag'), dict(to=2, spelling='http://a.test/x/../p2'), 3]),
           U(2, links=[1, 2, 3, dict(to=1, spelling='http://A.test:80')]),
           U(3, links=[dict(to=3, spelling='http://a.test/p3#self'), 1])]
    for n in (1, 2, 3):
        out.append(scenario('cycle-spellings-N%d' % n, cyc, N=n))
    # a fragment may hold "/" and dot segments (client-side routes): it is no part of the path
    fdot = [U(1, links=[2]), U(2, path='/dir/page.html', links=[dict(to=3, spelling='other.html#/../intro'),
                                                                 dict(to=4, spelling='/dir/sub/deep.html#a/../../b'), 5]),
            U(3, path='/dir/other.html'), U(4, path='/dir/sub/deep.html'), U(5, path='/dir/last.html')]
    out.append(scenario('fragment-with-dot-segments', fdot, N=1))
    # pages that have moved (meta refresh), in the spellings of the content attribute that browsers follow
    mr = [U(1, links=[2, 3, 4, 5]), U(2, links=[dict(to=6, refresh='plain')]), U(3, links=[dict(to=7, refresh='nourl')]),
          U(4, links=[dict(to=8, refresh='sq')]), U(5, links=[dict(to=9, refresh='comma')]), U(6), U(7), U(8), U(9)]
    out.append(scenario('meta-refresh-spellings', mr, N=1))
    # image candidates of a srcset attribute: commas inside the URL (image services), tab / line break before the descriptor
    ss = [U(1, links=[dict(to=2, inline=1, srcset='one'), dict(to=3, inline=1, srcset='one'), 4]),
          U(2, path='/img/w_300,h_200/a.png'), U(3, path='/img/b.png'), U(4)]
    out.append(scenario('srcset-commas-and-tabs', ss, dict(pagereq=1), N=1))
    # "pretty" URLs, documents kept on disk: a page that is also the parent of a page that is also a parent (the file
    # of the one stands where the directory of the other belongs - twice on one path)
    pretty = [U(1, links=[2]), U(2, path='/blog', links=[3]), U(3, path='/blog/post1', links=[4, 5]),
              U(4, path='/blog/post1/comments', links=[6]), U(5, path='/blog/post1/comments/latest'),
              U(6, path='/blog/post2')]
    out.append(scenario('pretty-urls-kept-on-disk', pretty, dict(cont=1), N=1))
    # recursive FTP: the entries of a listing are the links of a directory, whatever characters their names have
    out.append(ftp_scenario('ftp-tree-N1'))
    out.append(ftp_odd_names_scenario('ftp-odd-names-N1'))
    out.append(ftp_big_directory_scenario('ftp-directory-of-150-files'))
    out.append(ftp_mlsd_scenario('ftp-machine-listing-names'))
    out.append(ftp_big_directory_scenario('ftp-listing-with-total-line', n=5, total_line=True))
    # foreign host, redirect to the foreign host (waived), redirect to a rejected URL, link to rejected
    scope = [U(1, links=[2, 3, 4, 5, 7]), U(2, host='b.test'), U(3, kind='redirect', rto=6),
             U(4, kind='redirect', rto=5), U(5, rejected=1), U(6, host='b.test', links=[2]), U(7, links=[1])]
    for strong in (1, 0):
        out.append(scenario('scope-redirects-strong%d' % strong, scope, dict(strong=strong), N=1))
    out.append(scenario('scope-redirects-N2', scope, N=2))
    # page requisites on and off
    pr = [U(1, links=[2, dict(to=3, inline=1)]), U(2, links=[dict(to=4, inline=1), 5]), U(3), U(4), U(5)]
    for p in (0, 1):
        for lv in (0, 1):
            out.append(scenario('requisites-P%d-L%d' % (p, lv), pr, dict(pagereq=p, level=lv), N=2 if p else 1))
    # same-host redirect into a page that is also linked
    rd = [U(1, links=[2, 3]), U(2, kind='redirect', rto=3), U(3, links=[4]), U(4)]
    out.append(scenario('redirect-into-linked', rd, N=1))
    out.append(scenario('redirect-into-linked-N2', rd, N=2))
    # depth limits on a chain, non-recursive
    chain = [U(1, links=[2]), U(2, links=[3]), U(3, links=[4]), U(4, links=[5]), U(5)]
    for lv in (1, 2, 4):
        out.append(scenario('chain-L%d' % lv, chain, dict(level=lv)))
    out.append(scenario('chain-norecursion', chain, dict(recursive=0)))
    # two start URLs on two hosts
    two = [U(1, links=[3, 4]), U(2, host='b.test', path='/s2', links=[4, 3]), U(3, links=[1]), U(4, host='b.test')]
    out.append(scenario('two-starts', two, start=(1, 2), N=2))
    out.append(scenario('span-hosts', two, dict(spanhosts=1), N=2))
    # frames: an embedded DOCUMENT (inline and linked at once) with its own objects and links
    fr = [U(1, links=[dict(to=2, frame=1), 6]), U(2, links=[dict(to=3, inline=1), 4]), U(3), U(4, links=[dict(to=5, frame=1)]),
          U(5), U(6)]
    for rc, pq, lv in ((0, 1, 0), (1, 1, 0), (1, 1, 1), (1, 0, 0)):
        out.append(scenario('frames-R%d-P%d-L%d' % (rc, pq, lv), fr, dict(recursive=rc, pagereq=pq, level=lv), N=1))
    # the same URL as hyperlink AND embedded object of one page: beyond the depth limit only the object role is in scope
    dual = [U(1, links=[2]), U(2, links=[3, dict(to=3, inline=1), dict(to=4, inline=1), 4]), U(3), U(4)]
    out.append(scenario('dual-role-L1-P1', dual, dict(level=1, pagereq=1), N=1))
    out.append(scenario('dual-role-L1-P0', dual, dict(level=1, pagereq=0), N=1))
    # a redirect that crosses a directory boundary; the target document uses RELATIVE links
    rel = [U(1, links=[2]), U(2, path='/old/entry', kind='redirect', rto=3),
           U(3, path='/new/sec/index.html', links=[dict(to=4, spelling='leaf.html'), dict(to=5, spelling='../up.html'),
                                                   dict(to=6, spelling='pic.png', inline=1)]),
           U(4, path='/new/sec/leaf.html'), U(5, path='/new/up.html'), U(6, path='/new/sec/pic.png')]
    out.append(scenario('redirect-relative-links', rel, dict(pagereq=1), N=1))
    # requisite chain through stylesheets: page -> stylesheet -> @import -> url()
    css = [U(1, links=[dict(to=2, css=1, inline=1), 6]), U(2, kind='css', path='/s/a.css', links=[dict(to=3, imp=1), dict(to=4)]),
           U(3, kind='css', path='/s/b.css', links=[dict(to=5)]), U(4, path='/s/i4.png'), U(5, path='/s/i5.png'), U(6)]
    out.append(scenario('css-import-chain', css, dict(pagereq=1), N=1))
    # ... written in capitals (CSS keywords, function names and the values of rel are not case-sensitive)
    cssu = [U(1, links=[dict(to=2, css=1, inline=1, upper=1), 6]),
            U(2, kind='css', path='/s/a.css', links=[dict(to=3, imp=1, upper=1), dict(to=4, upper=1)]),
            U(3, kind='css', path='/s/b.css', links=[dict(to=5, upper=1)]), U(4, path='/s/i4.png'), U(5, path='/s/i5.png'), U(6)]
    out.append(scenario('css-import-chain-in-capitals', cssu, dict(pagereq=1), N=1))
    # a URL met first through a link that is too deep and later (sequentially) as a requisite of a shallower page
    req = [U(1, links=[2, 3]), U(2, links=[4]), U(3, links=[dict(to=4, inline=1), 5]), U(4), U(5, links=[dict(to=6, inline=1)]), U(6)]
    out.append(scenario('too-deep-link-then-requisite', req, dict(level=1, pagereq=1), N=1))
    out.append(scenario('too-deep-link-then-requisite-L2', [U(1, links=[2]), U(2, links=[3, 4]), U(3, links=[5]),
                                                             U(4, links=[dict(to=5, inline=1)]), U(5)],
                        dict(level=2, pagereq=1), N=1))
    # --no-parent with the start URL in the root directory / in a subdirectory
    np_root = [U(1, links=[2, 3]), U(2, path='/dir/p2', links=[4]), U(3, path='/p3'), U(4, path='/dir/sub/p4')]
    out.append(scenario('noparent-root-start', np_root, dict(noparent=1), N=1))
    np_sub = [U(1, path='/docs/index.html', links=[2, 3, 4]), U(2, path='/docs/a/p2', links=[3]), U(3, path='/docs/p3'),
              U(4, path='/other/p4', outside=1), U(5, path='/docs-old/p5', outside=1)]
    np_sub[0]['links'].append(dict(to=5))
    out.append(scenario('noparent-subdir-start', np_sub, dict(noparent=1), N=1))
    # HTML pages whose URL looks like a picture / whose query string ends like one: they are documents with links
    media = [U(1, links=[2, 3]), U(2, path='/wiki/File:Sunset.jpg', links=[4]), U(3, path='/view.php?img=sunset.png', links=[5]),
             U(4), U(5, path='/style.css.html', links=[6]), U(6)]
    out.append(scenario('html-page-with-media-looking-url', media, N=1))
    # a URL that is linked AND the target of a same-host redirect / the target of two redirects
    out.append(scenario('redirect-target-also-linked', [U(1, links=[2, 3]), U(2, kind='redirect', rto=3), U(3, links=[1])], N=1))
    out.append(scenario('two-redirects-one-target', [U(1, links=[2, 3]), U(2, kind='redirect', rto=4), U(3, kind='redirect', rto=4),
                                                     U(4)], N=1))
    # --no-parent with page requisites: a requisite may lie outside the directory; the links found IN it are judged by
    # their own URL (a frame outside the directory that links back into it), and a URL outside that is both linked and
    # embedded is fetched as the requisite it is
    fr = [U(1, path='/dir/index.html', links=[dict(to=2, inline=1, frame=1), 5]), U(2, path='/frames/menu.html', outside=1, links=[3, 4]),
          U(3, path='/dir/page2.html'), U(4, path='/elsewhere/p4', outside=1), U(5, path='/dir/p5')]
    out.append(scenario('noparent-frame-outside-links-back', fr, dict(noparent=1, pagereq=1), N=1))
    th = [U(1, path='/dir/index.html', links=[2] + [dict(to=i, inline=1) for i in range(2, 9)] + list(range(3, 9)))] + \
         [U(i, path='/img/p%d.png' % i, outside=1) for i in range(2, 9)]
    out.append(scenario('noparent-thumbnails-linked-and-embedded', th, dict(noparent=1, pagereq=1), N=1))
    # <base href> belongs to the document that declares it: a later document without one resolves against its own URL
    # (the document with the <base> links to the plain one, so it is necessarily scraped first)
    bs = [U(1, links=[2]), U(2, path='/d1/p2', base='http://a.test/other/', links=[dict(to=4, spelling='x.html'), 3, 7]),
          U(3, path='/d2/p3', links=[dict(to=5, spelling='y.html'), dict(to=6, spelling='../z.html')]),
          U(4, path='/other/x.html'), U(5, path='/d2/y.html'), U(6, path='/z.html'), U(7, path='/other/')]
    out.append(scenario('base-href-then-plain-document', bs, N=1))
    # a redirect chain exactly as long as --max-redirect is followed to its end
    for R in (1, 3):
        ch = [U(1, links=[2])] + [U(i, kind='redirect', rto=i + 1) for i in range(2, 2 + R)] + [U(2 + R, links=[3 + R]), U(3 + R)]
        out.append(scenario('redirect-chain-exactly-the-limit-R%d' % R, ch, dict(maxredir=R), N=1))
    # suffix lists: -R jpg rejects names ending in "jpg", not names ending in one of its letters; -A likewise
    suf = [U(1, links=[2, 3, 4, 5, 6]), U(2, path='/pic.jpg', rejected=1), U(3, path='/big'), U(4, path='/top'), U(5, path='/log.j'),
           U(6, path='/dir.jpg/page')]
    out.append(scenario('reject-suffix-list', suf, dict(tags='--reject jpg'), N=1))
    out.append(scenario('reject-suffix-list-two', suf, dict(tags='--reject jpg,gif'), N=1))
    sm = sitemap_sites()
    for nm in ('basic', 'missing', 'skipped'):
        out.append(scenario('sitemaps-%s' % nm, sm[nm], dict(sitemaps=1), N=1))
    out.append(scenario('sitemaps-basic-N2', sm['basic'], dict(sitemaps=1), N=2))
    # two start URLs on one host name but different ports: each origin has its own control files
    tp = [U(1, links=[dict(to=3, implicit=1), dict(to=4, implicit=1)]),
          U(2, port=8080, path='/', links=[dict(to=5, implicit=1), dict(to=6, implicit=1)]),
          U(3, path='/robots.txt', kind='robotsfile', links=[]), U(4, path='/sitemap.xml', kind='sitemap', links=[7]),
          U(5, port=8080, path='/robots.txt', kind='robotsfile', links=[]),
          U(6, port=8080, path='/sitemap.xml', kind='sitemap', links=[8]), U(7), U(8, port=8080, path='/p8')]
    out.append(scenario('sitemaps-two-ports', tp, dict(sitemaps=1), N=1, start=(1, 2)))
    th = [U(1, links=[dict(to=3, implicit=1), dict(to=4, implicit=1)]),
          U(2, host='b.test', path='/', links=[dict(to=5, implicit=1), dict(to=6, implicit=1)]),
          U(3, path='/robots.txt', kind='notfound'), U(4, path='/sitemap.xml', kind='sitemap', links=[7]),
          U(5, host='b.test', path='/robots.txt', kind='robotsfile', links=[6]),
          U(6, host='b.test', path='/sitemap.xml', kind='sitemap', links=[8]), U(7), U(8, host='b.test')]
    out.append(scenario('sitemaps-two-hosts', th, dict(sitemaps=1), N=2, start=(1, 2)))
    # a robots.txt of 6 KiB / 70 KiB with its Sitemap lines at the end
    for pad in (6000, 70000):
        big = [dict(u) for u in sm['basic']]
        big[1] = dict(big[1], pad=pad)
        out.append(scenario('sitemaps-robots-%dk' % (pad // 1000), big, dict(sitemaps=1), N=1))
    # a sitemap without the (optional) XML declaration
    nd = [dict(u, nodecl=1) if u['kind'] == 'sitemap' else dict(u) for u in sm['basic']]
    out.append(scenario('sitemaps-without-xml-declaration', nd, dict(sitemaps=1), N=1))
    out.append(scenario('sitemaps-basic-L1', sm['basic'], dict(sitemaps=1, level=1), N=1))
    out.append(scenario('sitemaps-basic-L2', sm['basic'], dict(sitemaps=1, level=2), N=1))
    # the answer to a page arrives in two parts (head, body) while another worker's redirect is handled in between
    rd2 = [U(1, links=[2, 3, 4]), U(2, kind='redirect', rto=5), U(3, links=[6]), U(4, links=[7]), U(5), U(6), U(7)]
    out.append(scenario('split-answers-redirect-N2', rd2, N=2, split=1))
    # one page with more links than the table batch size (1000)
    if not quick:
        many = [U(1, links=list(range(2, 1103)))] + [U(i) for i in range(2, 1103)]
        out.append(scenario('many-links', many, dict(level=1), N=1))
        wide = [U(1, links=[2, 3, 4, 5]), U(2, links=[6]), U(3, links=[6]), U(4, links=[6, 7]), U(5, links=[7]),
                U(6, links=[1]), U(7, links=[2])]
        for n in (1, 2, 3, 4):
            out.append(scenario('wide-N%d' % n, wide, N=n))
        for lv in (1, 2):
            out.append(scenario('wide-L%d-N3' % lv, wide, dict(level=lv), N=3))
    return out


def c03_catalogue(quick):
    small = [U(1, links=[2, 3]), U(2, links=[4]), U(3, links=[2]), U(4)]
    chain = [U(1, links=[2]), U(2, links=[3]), U(3)]
    out = [scenario('crash-small-N1', small, N=1), scenario('crash-chain-N1', chain, N=1),
           scenario('crash-small-N2', small, N=2), scenario('crash-small-dburi', small, N=1, dburi=1),
           # an interrupted attempt must not use up the only try
           scenario('crash-small-tries1', small, dict(tries=1), N=2),
           # a URL that failed transiently before the kill is retried by the resumed run
           scenario('crash-flaky', [U(1, links=[2, 3]), U(2, kind='script', seq=['error500', 'page'], links=[]), U(3)],
                    dict(tries=3), N=1)]
    # statement-level kill points (one small site): a kill between two statements of one transaction leaves nothing
    st = scenario('crash-chain-statements', chain, N=1)
    st['stmt_points'] = 1
    out.append(st)
    # a depth limit and a page reachable over two paths of different length: the interrupted page (short path) must be
    # taken up again in its old place, not after everything else
    # (the two extra leaves keep the queue busy while the long path is walked)
    lv = [U(1, links=[2, 3, 7, 8]), U(2, links=[4]), U(3, links=[5]), U(5, links=[4]), U(4, links=[6]), U(6), U(7), U(8)]
    out.append(scenario('crash-level-two-paths', lv, dict(level=3), N=1))
    # --continue: the resumed run finds the documents the killed run left on disk and asks for the rest of them; the
    # site answers such Range requests with 200 and the whole document (RFC 7233 3.1: a server MAY ignore Range)
    out.append(scenario('crash-continue-N1', small, dict(cont=1), N=1))
    # ... and a site that honours Range: 206 for what is missing, 416 when nothing is (RFC 7233 4.4: the document on
    # disk is complete, but its links were never read - the kill came before they were stored)
    hr = scenario('crash-continue-range-honoured-N1', small, dict(cont=1), N=1)
    hr['honour_range'] = 1
    out.append(hr)
    # a recursive FTP crawl: the entries of a directory listing are discovered URLs like the links of a page
    out.append(ftp_scenario('crash-ftp-tree-N1'))
    sm = sitemap_sites()
    out.append(scenario('crash-sitemaps-skipped-start', sm['skipped'], dict(sitemaps=1), N=1))
    # the start URL ends without a document (404 / repeated 5xx): its implicit children are still owed
    nf = [U(1, kind='notfound', links=[dict(to=2, implicit=1), dict(to=3, implicit=1)]), U(2, path='/robots.txt', kind='notfound'),
          U(3, path='/sitemap.xml', kind='sitemap', links=[4]), U(4)]
    out.append(scenario('crash-sitemaps-notfound-start', nf, dict(sitemaps=1), N=1))
    out.append(scenario('crash-sitemaps-failing-start-T1', sm['failing'], dict(sitemaps=1, tries=1), N=1))
    # the process dies of a fatal local error (the table reports "disk full" to the caller of one of its operations)
    # instead of being killed: the application unwinds - every `finally` on the way runs - and exits; the same
    # obligations hold for the run that follows
    for name, site, n in (('crash-fatal-small-N1', small, 1), ('crash-fatal-small-N2', small, 2)):
        f = scenario(name, site, N=n)
        f['fatal'] = 1
        out.append(f)
    if not quick:
        out.append(scenario('crash-sitemaps-basic', sm['basic'], dict(sitemaps=1), N=2))
        out.append(scenario('crash-sitemaps-failing-start', sm['failing'], dict(sitemaps=1, tries=2), N=1, benign=1))
    if not quick:
        # more start URLs than one import batch (1000): a kill between two import transactions
        many = scenario('crash-many-start-urls', [U(i, path='/s%04d' % i) for i in range(1, 1004)], N=1,
                        start=tuple(range(1, 1004)))
        many['crash_window'] = 'startup'
        out.append(many)
        diamond = [U(1, links=[2, 3]), U(2, links=[4]), U(3, links=[5]), U(4, links=[6]), U(5, links=[4]), U(6)]
        pr = [U(1, links=[2, dict(to=3, inline=1)]), U(2, links=[dict(to=4, inline=1), 5]), U(3), U(4), U(5)]
        out += [scenario('crash-diamond-N2', diamond, N=2), scenario('crash-diamond-N3', diamond, N=3),
                scenario('crash-requisites-N2', pr, dict(pagereq=1), N=2),
                scenario('crash-chain-N2', chain, N=2)]
    return out


def c18_catalogue(quick):
    out = []
    loops = {
        'self-redirect': [U(1, links=[2]), U(2, kind='redirect', rto=2)],
        'two-cycle': [U(1, links=[2]), U(2, kind='redirect', rto=3), U(3, kind='redirect', rto=2)],
        'long-chain': [U(1, links=[2]), U(2, kind='redirect', rto=3), U(3, kind='redirect', rto=4),
                       U(4, kind='redirect', rto=5), U(5, kind='redirect', rto=6), U(6, kind='redirect', rto=7), U(7)],
        'no-location': [U(1, links=[2]), U(2, kind='redirect_noloc')],
        'bad-location': [U(1, links=[2]), U(2, kind='redirect', rto=0, location='http://[bad')],
        'error-forever': [U(1, links=[2, 3]), U(2, kind='error500'), U(3)],
        'drop-forever': [U(1, links=[2, 3]), U(2, kind='drop'), U(3)],
        # a server that answers a request with interim responses and nothing else, for ever
        'interim-forever': [U(1, links=[2, 3]), U(2, kind='interim_forever'), U(3)],
        'unauthorized': [U(1, links=[2]), U(2, kind='unauthorized')],
        'start-fails': [U(1, kind='error500')],
        # a Location header that is present but empty / blank, for several redirect codes
        'empty-location': [U(1, links=[2, 3]), U(2, kind='redirect', rto=0, location=' '), U(3, kind='redirect', rto=0, location=' ', code=307)],
        'blank-location': [U(1, links=[2]), U(2, kind='redirect', rto=0, location='\t ', code=302)],
        'fragment-location': [U(1, links=[2]), U(2, kind='redirect', rto=0, location='#top')],
        'query-self-location': [U(1, links=[2]), U(2, kind='redirect', rto=0, location='?')],
        # 401 and replaying redirects taking turns (each kind of answer alone is bounded; so must be the mix)
        'auth-redirect-pingpong': [U(1, links=[2]), U(2, kind='script', links=[],
                                                   seq=['unauthorized', dict(kind='redirect', to=2, code=307)] * 30 + ['page'])],
        'auth-redirect-pingpong-two': [U(1, links=[2]), U(2, kind='script', links=[],
                                                       seq=[dict(kind='redirect', to=3, code=308)] * 60),
                                       U(3, kind='script', links=[], seq=['unauthorized', dict(kind='redirect', to=2, code=307)] * 30 + ['page'])],
        'mixed-307': [U(1, links=[2]), U(2, kind='redirect', rto=3, code=307), U(3, kind='redirect', rto=2, code=308)],
        'flaky': [U(1, links=[2]), U(2, kind='script', seq=['error500', 'drop', 'page'], links=[])],
    }
    for name, urls in loops.items():
        for T in ((1, 2) if quick else (1, 2, 3)):
            for R in ((0, 2) if quick else (0, 1, 2, 5)):
                for auth in ((0, 1, 2, 3) if name == 'unauthorized' else ((0, 1) if name.startswith('auth-redirect') else (0,))):
                    out.append(scenario('%s-T%d-R%d-A%d' % (name, T, R, auth), urls,
                                        dict(tries=T, maxredir=R, auth=auth), N=1, benign=0))
    out.append(scenario('error-forever-N2', loops['error-forever'], dict(tries=2), N=2, benign=0))
    # a host that refuses every connection / a name that never resolves: permanent by default, retried (and counted)
    # with --retry-connrefused / --retry-dns-error
    dead = [U(1, links=[2, 3]), U(2, host='c.test'), U(3)]
    for T in (1, 3):
        for rc in (0, 1):
            sc = scenario('refused-forever-T%d-retry%d' % (T, rc), dead, dict(tries=T, spanhosts=1, retryconn=rc), N=1, benign=0)
            sc['refuse'] = ['c.test']
            out.append(sc)
            sc = scenario('nodns-forever-T%d-retry%d' % (T, rc), dead, dict(tries=T, spanhosts=1, retrydns=rc), N=1, benign=0)
            sc['nodns'] = ['c.test']
            out.append(sc)
    # robots.txt itself is a redirect cycle: the redirect limit applies to it too
    for R in (0, 3):
        out.append(scenario('robots-redirect-cycle-R%d' % R, [U(1, links=[2]), U(2)], dict(robots=1, maxredir=R, tries=2), N=1,
                            robots={'a.test': {'kind': 'redirect', 'location': 'http://a.test/robots.txt'}}, benign=0))
        out.append(scenario('robots-redirect-pingpong-R%d' % R, [U(1, links=[2, 3]), U(2, host='b.test'), U(3)],
                            dict(robots=1, maxredir=R, tries=2, spanhosts=1), N=1,
                            robots={'a.test': {'kind': 'redirect', 'location': 'http://b.test/robots.txt'},
                                    'b.test': {'kind': 'redirect', 'location': 'http://a.test/robots.txt'}}, benign=0))
    # robots.txt itself keeps failing: the retry limit must still end the work on every URL of that origin
    for T in (1, 2):
        out.append(scenario('robots-error-forever-T%d' % T, [U(1, links=[2]), U(2)], dict(robots=1, tries=T), N=1,
                            robots={'a.test': {'kind': 'error500'}}, benign=0))
    # ... or ends in a network error every time (the server closes without answering): more attempts than one host
    # may have connections
    for T in ((8,) if quick else (7, 8, 12)):
        out.append(scenario('robots-dropped-forever-T%d' % T, [U(1, links=[2]), U(2)], dict(robots=1, tries=T), N=1,
                            robots={'a.test': {'kind': 'drop'}}, benign=0))
    out.append(scenario('robots-error-second-origin', [U(1, links=[2, 3]), U(2, host='b.test'), U(3)],
                        dict(robots=1, tries=2, spanhosts=1), N=1,
                        robots={'a.test': {'kind': 'missing'}, 'b.test': {'kind': 'error500'}}, benign=0))
    return out


def c20_catalogue(quick):
    out = []
    rules = {'a.test': {'kind': 'rules'}}
    basic = [U(1, links=[2, 3, 4]), U(2, disallowed=1, links=[5]), U(3, links=[2, 5]), U(4, nofollow=1, links=[6, dict(to=7, inline=1)]),
             U(5), U(6), U(7)]
    for n in (1, 2):
        out.append(scenario('robots-rules-N%d' % n, basic, dict(robots=1, pagereq=1), N=n, robots=rules))
    # a nofollow page written without the optional <html> tag, with prose that contains "var" / "function"
    bare = [U(1, links=[2, 3]), U(2, nofollow=1, bare=1, links=[4, dict(to=5, inline=1)]), U(3, bare=1, links=[6]), U(4), U(5), U(6)]
    out.append(scenario('robots-nofollow-page-without-html-tag', bare, dict(robots=1, pagereq=1), N=1, robots=rules))
    # white space around the colon of a rule line
    for name, sep in (('space-before-colon', ' : '), ('tab-around-colon', '\t:\t'), ('no-space', ':')):
        out.append(scenario('robots-rules-' + name, [U(1, links=[2, 3]), U(2, disallowed=1), U(3)], dict(robots=1), N=1,
                            robots={'a.test': {'kind': 'rules', 'sep': sep}}))
    # a site wholly behind HTTP authentication, its robots.txt included; the user gave the credentials
    ab = scenario('robots-behind-authentication', [U(1, links=[2, 3]), U(2, disallowed=1), U(3)], dict(robots=1, auth=1), N=1,
                  robots=rules, benign=0)
    ab['auth_all'] = 1
    out.append(ab)
    out.append(scenario('robots-missing', basic, dict(robots=1, pagereq=1), N=1, robots={'a.test': {'kind': 'missing'}}))
    out.append(scenario('robots-off', basic, dict(robots=0, pagereq=1), N=1, robots=rules))
    out.append(scenario('robots-error500', [U(1, links=[2]), U(2)], dict(robots=1, tries=2), N=1,
                        robots={'a.test': {'kind': 'error500'}}, benign=0))
    # the control file cannot be fetched (connection closed without an answer): the URL is postponed, again and again,
    # and given up with the retry limit - also when that takes more attempts than a host may have connections
    out.append(scenario('robots-dropped-T9', [U(1, links=[2]), U(2)], dict(robots=1, tries=9), N=1,
                        robots={'a.test': {'kind': 'drop'}}, benign=0))
    out.append(scenario('robots-dropped-then-served', [U(1, links=[2, 3]), U(2, disallowed=1), U(3)], dict(robots=1, tries=9), N=1,
                        robots={'a.test': {'kind': 'script', 'seq': ['drop'] * 7 + ['rules']}}, benign=0))
    # two origins, span hosts
    two = [U(1, links=[2, 3]), U(2, host='b.test', links=[4, 5]), U(3), U(4, host='b.test', disallowed=1), U(5, host='b.test')]
    for n in (1, 2):
        out.append(scenario('robots-two-origins-N%d' % n, two, dict(robots=1, spanhosts=1), N=n,
                            robots={'a.test': {'kind': 'rules'}, 'b.test': {'kind': 'rules'}}))
    # a redirect whose target is disallowed / on an origin whose robots.txt was never fetched
    hop = [U(1, links=[2, 4]), U(2, kind='redirect', rto=3), U(3, disallowed=1), U(4)]
    out.append(scenario('robots-redirect-to-disallowed', hop, dict(robots=1), N=1, robots=rules))
    hop2 = [U(1, links=[2]), U(2, kind='redirect', rto=3), U(3, host='b.test')]
    out.append(scenario('robots-redirect-to-new-origin', hop2, dict(robots=1), N=1,
                        robots={'a.test': {'kind': 'rules'}, 'b.test': {'kind': 'rules'}}))
    # two origins on ONE host name (different ports) with different rules: the key must include the port
    ports = [U(1, links=[2, 3, 4]), U(2, port=8080, path='/priv/p2', disallowed=1), U(3, port=8080, links=[2]),
             U(4, path='/priv/p4')]
    for n in (1, 2):
        out.append(scenario('robots-two-ports-N%d' % n, ports, dict(robots=1), N=n,
                            robots={'a.test': {'kind': 'rules', 'disallow': ['/none/']}, 'a.test:8080': {'kind': 'rules'}}))
    out.append(scenario('robots-two-ports-rev', [U(1, links=[2, 3]), U(2, port=8080, path='/priv/p2'),
                                                 U(3, path='/priv/p3', disallowed=1)], dict(robots=1), N=1,
                        robots={'a.test': {'kind': 'rules'}, 'a.test:8080': {'kind': 'missing'}}))
    # nofollow declared AFTER links in the document (head: <link rel=next> before the <meta>)
    late = [U(1, links=[2, 3]), U(2, nofollow=1, nofollow_late=1, links=[4, dict(to=5, inline=1)]), U(3), U(4), U(5)]
    out.append(scenario('robots-nofollow-late', late, dict(robots=1, pagereq=1), N=1, robots=rules))
    # large robots.txt: the rule that matters comes after 4096 bytes
    big = {'a.test': {'kind': 'rules', 'disallow': [], 'extra': ('# padding\n' * 500) + 'Disallow: /priv/\n'}}
    out.append(scenario('robots-large-file', [U(1, links=[2, 3]), U(2, disallowed=1), U(3)], dict(robots=1), N=1, robots=big))
    # other user agent group must not apply; ours must
    ua = {'a.test': {'kind': 'rules', 'disallow': [], 'agent': 'otherbot',
                     'extra': 'Disallow: /\n\nUser-agent: *\nDisallow: /priv/\n'}}
    out.append(scenario('robots-agent-groups', [U(1, links=[2, 3]), U(2, disallowed=1), U(3)], dict(robots=1), N=1, robots=ua))
    # our own group, spelt with capitals, forbids what the catch-all group allows (agent names compare case-insensitively)
    own = {'a.test': {'kind': 'rules', 'agent': 'Wpull', 'extra': '\nUser-agent: *\nDisallow: /none/\n'}}
    out.append(scenario('robots-own-group-capitalised', [U(1, links=[2, 3]), U(2, disallowed=1), U(3)], dict(robots=1), N=1, robots=own))
    own2 = {'a.test': {'kind': 'rules', 'agent': 'WPULL', 'disallow': [], 'extra': 'Disallow: /priv/\n\nUser-agent: *\nDisallow:\n'}}
    out.append(scenario('robots-own-group-uppercase', [U(1, links=[2, 3]), U(2, disallowed=1), U(3)], dict(robots=1), N=1, robots=own2))
    # the crawler is given another name (-U, or --header "User-Agent: ..."): the group of THAT name applies
    named = {'a.test': {'kind': 'rules', 'agent': 'foobot', 'extra': '\nUser-agent: wpull\nDisallow: /none/\n\nUser-agent: *\nDisallow:\n'}}
    for how in ('U:', 'H:'):
        out.append(scenario('robots-renamed-crawler-%s' % how[0], [U(1, links=[2, 3]), U(2, disallowed=1), U(3)],
                            dict(robots=1, ua=how + 'foobot/1.0'), N=1, robots=named))
    # a rule path spelt with the characters themselves (UTF-8 octets in the file) / with percent escapes: the octets of
    # rule and URL compare equal either way
    for nm, rule in (('raw', '/caf\u00e9/'), ('escaped', '/caf%C3%A9/'), ('lowercase-escape', '/caf%c3%a9/')):
        out.append(scenario('robots-non-ascii-rule-' + nm, [U(1, links=[2, 3]), U(2, path='/caf%C3%A9/p2', disallowed=1), U(3)],
                            dict(robots=1), N=1, robots={'a.test': {'kind': 'rules', 'disallow': [rule]}}))
    # the file is not valid UTF-8 (a Latin-1 byte in a comment): its rules still count
    l1 = {'a.test': {'kind': 'rules', 'encoding': 'latin-1', 'disallow': [], 'extra': '# caf\xe9 du coin\nDisallow: /priv/\n'}}
    out.append(scenario('robots-latin1-comment', [U(1, links=[2, 3]), U(2, disallowed=1), U(3)], dict(robots=1), N=1, robots=l1))
    # a.test's control file is redirected to a path of b.test that is not b.test's control file: b.test is still judged
    # by its own robots.txt
    xo = {'a.test': {'kind': 'rules', 'disallow': ['/none/'], 'via_redirect': {'host': 'b.test', 'path': '/files/a-robots.txt', 'body_len': 10}},
          'b.test': {'kind': 'rules'}}
    xs = [U(1, links=[2, 3, 4]), U(2, host='b.test', disallowed=1), U(3, host='b.test'), U(4)]
    for n in (1, 2):
        out.append(scenario('robots-redirected-across-origins-N%d' % n, xs, dict(robots=1, spanhosts=1), N=n, robots=xo))
    # tag filters must not hide the nofollow declaration
    nf = [U(1, links=[2, 3]), U(2, nofollow=1, links=[4]), U(3), U(4)]
    for tg in ('--follow-tags a', '--ignore-tags meta', '--ignore-tags img,meta,link'):
        out.append(scenario('robots-nofollow-tagfilter[%s]' % tg, nf, dict(robots=1, tags=tg), N=1, robots=rules))
    # a UTF-8 byte order mark before the first record
    out.append(scenario('robots-bom', [U(1, links=[2, 3]), U(2, disallowed=1), U(3)], dict(robots=1), N=1,
                        robots={'a.test': {'kind': 'rules', 'bom': 1}}))
    # an allowed URL that redirects to a disallowed path of the SAME origin
    same = [U(1, links=[2, 4]), U(2, kind='redirect', rto=3, code=302), U(3, disallowed=1), U(4, kind='redirect', rto=5, code=307),
            U(5, disallowed=1, path='/priv/p5')]
    out.append(scenario('robots-redirect-same-origin-disallowed', same, dict(robots=1), N=1, robots=rules))
    # more origins than any cache of parsed robots.txt files is likely to hold: none is fetched twice
    # root -> one page of origin :8002 -> pages of 109 other origins, each linking back to a second page of :8002,
    # which is therefore fetched after all of them
    many = [U(1, links=[2]), U(2, port=8002, path='/p2', links=list(range(3, 112)))]
    many += [U(i, port=8000 + i, path='/p%d' % i, links=[112]) for i in range(3, 112)]
    many += [U(112, port=8002, path='/again')]
    out.append(scenario('robots-110-origins', many, dict(robots=1), N=1,
                        robots={('a.test:%d' % (8000 + i)): {'kind': 'rules'} for i in range(2, 112)}))
    # rules that mention the query string
    q = [U(1, links=[2, 3, 4, 5]), U(2, path='/search?q=1', disallowed=1), U(3, path='/search'), U(4, path='/page?action=edit', disallowed=1),
         U(5, path='/page?action=view')]
    qr = {'a.test': {'kind': 'rules', 'disallow': ['/search?', '/*?action=edit']}}
    out.append(scenario('robots-query-rules', q, dict(robots=1), N=1, robots=qr))
    # robots.txt reached through a redirect whose body is longer than the file; the file has no final newline
    rd = {'a.test': {'kind': 'rules', 'via_redirect': {'path': '/real-robots.txt', 'body_len': 700}, 'no_newline': 1}}
    out.append(scenario('robots-via-redirect-long-body', [U(1, links=[2, 3]), U(2, disallowed=1), U(3)], dict(robots=1), N=1, robots=rd))
    rd2 = {'a.test': {'kind': 'rules', 'via_redirect': {'path': '/real-robots.txt', 'body_len': 5000, 'tail': '\nDisallow: /\n'}, 'disallow': [],
                      'extra': 'Allow: /p3\nDisallow: /priv/'}}
    out.append(scenario('robots-via-redirect-huge-body', [U(1, links=[2, 3]), U(2, disallowed=1), U(3)], dict(robots=1), N=1, robots=rd2))
    return out


def c02_catalogue(quick):
    """Sites that OFFER out-of-scope URLs in every way: links, requisites, redirects (to a foreign host: the one
    documented waiver; to a URL failing another rule: never), deeper than the depth limit."""
    out = []
    offer = [U(1, links=[2, 3, 4, 5, 6, dict(to=7, inline=1), dict(to=8, inline=1)]),
             U(2, host='b.test'),                        # foreign host, linked
             U(3, kind='redirect', rto=9),               # redirect to the foreign host
             U(4, kind='redirect', rto=10),              # redirect to a rejected URL
             U(5, rejected=1), U(6, links=[11]),
             U(7), U(8, host='b.test'),                  # requisites: same host / foreign host
             U(9, host='b.test', links=[2]), U(10, rejected=1), U(11, links=[12]), U(12)]
    # links that are only a fragment / only a query / empty: they name the page itself (or its query variant), nothing else
    frag = [U(1, links=[2]), U(2, path='/dir/page.html', links=[dict(to=2, spelling='#top'), dict(to=2, spelling=''), 3]),
            U(3, path='/dir/other.html', links=[dict(to=3, spelling='#'), dict(to=2, spelling='page.html#x')])]
    out.append(scenario('fragment-only-links', frag, N=1))
    # a fragment may hold "/" and dot segments (client-side routes): it is no part of the path
    fdot = [U(1, links=[2]), U(2, path='/dir/page.html', links=[dict(to=3, spelling='other.html#/../intro'),
                                                                 dict(to=4, spelling='/dir/sub/deep.html#a/../../b'), 5]),
            U(3, path='/dir/other.html'), U(4, path='/dir/sub/deep.html'), U(5, path='/dir/last.html')]
    out.append(scenario('fragment-with-dot-segments', fdot, N=1))
    # robots.txt is redirected to a URL that a scope rule rejects: such a target is not requested
    rr = {'a.test': {'kind': 'rules', 'disallow': ['/none/'], 'via_redirect': {'path': '/rej/robots-file', 'body_len': 10}}}
    out.append(scenario('robots-redirected-to-rejected-url', [U(1, links=[2]), U(2)], dict(robots=1), N=1, robots=rr))
    for strong in (1, 0):
        for pq in (0, 1):
            for lv in (0, 1, 2):
                out.append(scenario('offer-S%d-P%d-L%d' % (strong, pq, lv), offer,
                                    dict(strong=strong, pagereq=pq, level=lv), N=1))
    # an embedded document: its own links are ordinary links again (need recursion), its objects are requisites
    fr = [U(1, links=[dict(to=2, frame=1)]), U(2, links=[dict(to=3, inline=1), 4, dict(to=5, frame=1)]), U(3), U(4),
          U(5, links=[6]), U(6)]
    for rc, pq, np in ((0, 1, 0), (1, 1, 0), (0, 0, 0)):
        out.append(scenario('frames-scope-R%d-P%d' % (rc, pq), fr, dict(recursive=rc, pagereq=pq), N=1))
    out.append(scenario('offer-N2', offer, dict(pagereq=1), N=2))
    out.append(scenario('offer-span', offer, dict(spanhosts=1, pagereq=1), N=1))
    out.append(scenario('offer-norecursion', offer, dict(recursive=0, pagereq=1), N=1))
    sm = sitemap_sites()
    for lv in (0, 1, 2):
        out.append(scenario('sitemaps-offer-L%d' % lv, sm['basic'], dict(sitemaps=1, level=lv), N=1))
    out.append(scenario('sitemaps-offer-norecursion', sm['basic'], dict(sitemaps=1, recursive=0, pagereq=1), N=1))
    out.append(scenario('sitemaps-offer-span', sm['basic'], dict(sitemaps=1, spanhosts=1), N=1))
    # robots.txt checking on: the control file of an origin that is only ever the target of a REFUSED redirect (or of
    # refused links) is not "an origin being visited"
    rb = {'a.test': {'kind': 'rules'}, 'b.test': {'kind': 'rules'}}
    refused = [U(1, links=[2, 4, 5]), U(2, kind='redirect', rto=3), U(3, host='b.test'), U(4), U(5, host='b.test')]
    out.append(scenario('robots-refused-redirect-nostrong', refused, dict(robots=1, strong=0), N=1, robots=rb))
    rej = [U(1, links=[2, 4]), U(2, kind='redirect', rto=3), U(3, host='b.test', rejected=1), U(4)]
    out.append(scenario('robots-refused-redirect-rejected', rej, dict(robots=1, strong=1), N=1, robots=rb))
    out.append(scenario('robots-offer', offer, dict(robots=1, strong=1, pagereq=1), N=1, robots=rb))
    return out


def c02_crash_catalogue(quick):
    out = [scenario('crash-foreign-link', [U(1, links=[2, 3]), U(2, host='b.test', links=[4]), U(3, links=[2]),
                                            U(4, host='b.test')], N=1)]
    if not quick:
        out.append(scenario('crash-foreign-requisite', [U(1, links=[dict(to=2, inline=1), 3]), U(2, host='b.test'),
                                                         U(3, links=[dict(to=4, inline=1)]), U(4, host='b.test')],
                            dict(pagereq=1), N=2))
    return out
