"""End-to-end executor: the real wpull application (Builder -> Application.run) crawling a scripted site
served over the in-memory network, under the virtual-time loop.

Recorded events (one dict each; also appended to a file so they survive os._exit):
  start(run)                                      a run of the command begins
  tx(op=..., ...)                                 a URL-table transaction, logged after its commit
  req(u, kind=page|robots|other, host, path, n)   the server received a complete request head
  resp(u, cls, n)                                 the server answered request n
  exit(code) | hang | crash(point)
  rows(list of [u, status, try, level, inline])   final table content read back with plain sqlite3

The only nondeterminism is the environment: which pending request the server answers next (chooser).
"""
import asyncio
import functools
import json
import os
import re
import sqlite3
import sys

from harness import vloop, fakenet


# ------------------------------------------------------------------ site
class Site(object):
    """site = {'hosts': {name: ip}, 'urls': [ {id, host, path, kind, ...} ], 'robots': {host: {...}}}

    url kinds: page(links=[{to, inline, spelling?}], nofollow?) | redirect(code, to | location) | notfound |
               error500 | drop | script(seq=[kind...] then last repeats) | unauthorized
    robots kinds: rules(disallow=[paths], agent='*') | missing(404) | error500 | redirect(to host) | drop
    """
    def __init__(self, desc):
        self.desc = desc
        self.hosts = desc['hosts']
        self.urls = {u['id']: u for u in desc['urls']}
        self.by_addr = {}
        for u in desc['urls']:
            self.by_addr[(u['host'], u.get('port', 80), u['path'])] = u
        self.robots = desc.get('robots', {})
        self.hits = {}

    def url_text(self, u):
        d = self.urls[u]
        port = d.get('port', 80)
        return 'http://%s%s%s' % (d['host'], '' if port == 80 else ':%d' % port, d['path'])

    def lookup(self, host, port, path):
        return self.by_addr.get((host, port, path))

    def robots_owner(self, olabel, path):
        """The origin whose robots.txt a request for (origin, path) serves, or None: /robots.txt of the origin itself
        (unless the site declares a document there: with --sitemaps it is an item like any other), or the path another
        origin's control file is redirected to."""
        for o, r in self.robots.items():
            via = r.get('via_redirect') if r.get('kind') == 'rules' else None
            if via and via.get('host', o) == olabel and via['path'] == path:
                return o
        if path == '/robots.txt':
            host, _, port = olabel.partition(':')
            if self.lookup(host, int(port or 80), path) is None:
                return olabel
        return None

    def respond(self, host, port, path, n_hit):
        """Return (cls, bytes)."""
        olabel = host if port == 80 else '%s:%d' % (host, port)
        owner = self.robots_owner(olabel, path)
        if owner is not None:
            r = self.robots.get(owner, {'kind': 'missing'})
            via = r.get('via_redirect') if r.get('kind') == 'rules' else None
            if via and owner == olabel and path == '/robots.txt':
                # the control file is reached through a redirect (to another path, possibly of another origin) whose own
                # body is longer than the file itself
                filler = ('<html><body>moved ' + 'x' * via.get('body_len', 600) + via.get('tail', '') + '</body></html>').encode()
                return 'robots30x', _http(301, 'Moved', filler, 'text/html',
                                          [('Location', 'http://%s%s' % (via.get('host', olabel), via['path']))])
            k = r['kind']
            if k == 'script':              # a different answer each time the control file is asked for
                seq = r['seq']
                k = seq[min(n_hit, len(seq) - 1)]
                r = dict(r, **(k if isinstance(k, dict) else {'kind': k}))
                k = r['kind']
            if k == 'rules':
                # ('sep': what stands between a field name and its value - white space around the colon is legal,
                # RFC 9309 2.2: rule = *WS ("allow" / "disallow") *WS ":" *WS (path-pattern / empty-pattern) EOL)
                sep = r.get('sep', ': ')
                body = 'User-agent%s%s\n' % (sep, r.get('agent', '*'))
                for p in r.get('disallow', []):
                    body += 'Disallow%s%s\n' % (sep, p)
                for p in r.get('allow', []):
                    body += 'Allow%s%s\n' % (sep, p)
                body += r.get('extra', '')
                if r.get('no_newline'):
                    body = body.rstrip('\n')
                raw = body.encode(r.get('encoding', 'utf-8'))
                if r.get('bom'):
                    raw = b'\xef\xbb\xbf' + raw          # a byte order mark in front of the first record
                return 'robots200', _http(200, 'OK', raw, 'text/plain')
            if k == 'missing':
                return 'robots404', _http(404, 'Not Found', b'no', 'text/plain')
            if k == 'error500':
                return 'robots500', _http(500, 'Oops', b'no', 'text/plain')
            if k == 'redirect':
                return 'robots30x', _http(301, 'Moved', b'', 'text/plain', [('Location', r['location'])])
            if k == 'drop':
                return 'drop', None
            if k == 'garbage':             # not an HTTP response at all
                return 'raw', b'220 ftp.example.test ready\r\n'
        d = self.lookup(host, port, path)
        if d is None:
            return 'notfound', _http(404, 'Not Found', b'nope', 'text/plain')
        kind = d['kind']
        if kind == 'script':
            seq = d['seq']
            kind = seq[min(n_hit, len(seq) - 1)]
            d = dict(d, **(kind if isinstance(kind, dict) else {'kind': kind}))
            kind = d['kind']
        if kind == 'page':
            # ('bare': the <html> start tag is optional in HTML5, and prose may hold words like "various" or "function")
            parts = ['<!DOCTYPE html><head>' if d.get('bare') else '<html><head>']
            late = d.get('nofollow_late')
            if late:
                # the followable links come first, as <link rel="next">, and only then the declaration
                for l in d.get('links', []):
                    if not l.get('inline'):
                        parts.append('<link rel="next" href="%s">' % (l.get('spelling') or self.url_text(l['to'])))
            if d.get('base'):
                parts.append('<base href="%s">' % d['base'])        # relative links of THIS document resolve against it
            if d.get('nofollow'):
                parts.append('<meta name="robots" content="nofollow">')
            parts.append('<title>t</title></head><body>')
            if d.get('bare'):
                parts.append('<p>various functions of the variable settimeout.</p>')
            for l in d.get('links', []):
                href = l.get('spelling') or self.url_text(l['to'])
                if (late and not l.get('inline')) or l.get('implicit'):
                    continue
                if l.get('refresh'):
                    # a page that has moved: the spellings of the content attribute that browsers follow
                    form = {'plain': '0;url=%s', 'nourl': '0; %s', 'sq': "0; URL = '%s'", 'comma': '0,%s'}[l['refresh']]
                    parts.append('<meta http-equiv="refresh" content="%s">' % (form % href))
                elif l.get('css'):
                    # (attribute values of rel are ASCII case-insensitive: HTML 4.6.6)
                    parts.append(('<LINK REL="StyleSheet" HREF="%s">' if l.get('upper') else '<link rel="stylesheet" href="%s">') % href)
                elif l.get('frame'):
                    parts.append('<iframe src="%s"></iframe>' % href)
                elif l.get('srcset'):
                    # an image candidate list: white space of any kind in front of the descriptor; the URL may hold commas
                    parts.append('<img srcset="%s\n\t2x, /nowhere/%s,%s 3x">' % (href, 'w_9', 'h_9.png') if l['srcset'] == 'multi'
                                 else '<img srcset="%s\t2x">' % href)
                elif l.get('inline'):
                    parts.append('<img src="%s">' % href)
                else:
                    parts.append('<a href="%s">x</a>' % href)
            parts.append('</body>' if d.get('bare') else '</body></html>')
            return 'page', _http(200, 'OK', ''.join(parts).encode(), 'text/html')
        if kind == 'sitemap':
            locs = ''.join('<url><loc>%s</loc></url>' % (l.get('spelling') or self.url_text(l['to'])) for l in d.get('links', []))
            # ('nodecl': without the XML declaration, which is optional)
            body = (('' if d.get('nodecl') else '<?xml version="1.0" encoding="UTF-8"?>\n')
                    + '<urlset xmlns="http://www.sitemaps.org/schemas/sitemap/0.9">' + locs + '</urlset>\n')
            return 'page', _http(200, 'OK', body.encode(), 'text/xml')
        if kind == 'robotsfile':
            # ('pad': that many bytes of comments in front of the Sitemap lines, whose customary place is the end)
            body = 'User-agent: *\nDisallow:\n' + '# padding padding padding\n' * (d.get('pad', 0) // 26) + ''.join('Sitemap: %s\n' % (l.get('spelling') or self.url_text(l['to']))
                                                          for l in d.get('links', []))
            return 'page', _http(200, 'OK', body.encode(), 'text/plain')
        if kind == 'css':
            parts = []
            for l in d.get('links', []):
                href = l.get('spelling') or self.url_text(l['to'])
                if l.get('upper'):      # CSS keywords and function names are ASCII case-insensitive (css-syntax 4.3.4)
                    parts.append('@IMPORT URL("%s");' % href if l.get('imp') else '.c%d { BACKGROUND: URL("%s"); }' % (l['to'], href))
                else:
                    parts.append('@import url("%s");' % href if l.get('imp') else '.c%d { background: url("%s"); }' % (l['to'], href))
            return 'page', _http(200, 'OK', '\n'.join(parts).encode(), 'text/css')
        if kind == 'redirect':
            loc = d.get('location') or self.url_text(d['to'])
            return 'redirect', _http(d.get('code', 301), 'Moved', b'', 'text/html', [('Location', loc)])
        if kind == 'redirect_noloc':
            return 'redirect', _http(d.get('code', 302), 'Moved', b'', 'text/html')
        if kind == 'notfound':
            return 'notfound', _http(404, 'Not Found', b'nope', 'text/plain')
        if kind == 'error500':
            return 'error500', _http(500, 'Oops', b'oops', 'text/plain')
        if kind == 'unauthorized':
            return 'unauthorized', _http(401, 'Unauthorized', b'', 'text/plain',
                                         [('WWW-Authenticate', 'Basic realm="x"')])
        if kind == 'drop':
            return 'drop', None
        if kind == 'interim_forever':
            # one interim response after the other, for as long as the client reads (each one is legal; RFC 7231 6.2)
            return 'drop', ENDLESS_INTERIM
        if kind == 'raw':
            # arbitrary bytes (latin-1 text in d['data']); d.get('close') closes the connection afterwards
            return 'raw', d['data'].encode('latin-1')
        raise ValueError(kind)


ENDLESS_INTERIM = b'<endless interim responses>'


def _http(code, reason, body, ctype, extra=()):
    head = 'HTTP/1.1 %d %s\r\nContent-Type: %s\r\nContent-Length: %d\r\n' % (code, reason, ctype, len(body))
    for k, v in extra:
        head += '%s: %s\r\n' % (k, v)
    head += '\r\n'
    return head.encode('latin-1') + body


class SiteServer(fakenet.BaseServer):
    def __init__(self, run, ep):
        self.run = run
        self.buf = b''

    def on_data(self, ep, data):
        self.buf += data
        while b'\r\n\r\n' in self.buf:
            head, rest = self.buf.split(b'\r\n\r\n', 1)
            # a request with a body (--post-data): the body belongs to this request
            m = re.search(rb'(?im)^content-length:[ \t]*(\d+)[ \t]*\r?$', head)
            n = int(m.group(1)) if m else 0
            if len(rest) < n:
                return
            self.buf = rest[n:]
            self.run.on_request(ep, head)


# ------------------------------------------------------------------ run
class Runaway(BaseException):
    """The crawl keeps issuing requests / burning CPU without end: turned into a `hang` observation."""


def _alarm(signum, frame):
    raise Runaway('cpu')


class CrawlRun(object):
    def __init__(self, site, argv, concurrency=1, db_path=None, chooser=None, trace_file=None,
                 crash_at=None, run_no=1, cwd=None):
        self.site = site if isinstance(site, Site) else Site(site)
        self.argv = list(argv)
        self.concurrency = concurrency
        self.db_path = db_path
        self.chooser = chooser
        self.ev = []
        self.trace_fd = os.open(trace_file, os.O_WRONLY | os.O_CREAT | os.O_APPEND, 0o644) if trace_file else None
        self.crash_at = crash_at
        self.points = 0
        self.run_no = run_no
        self.pending = []       # (n, ep, u, host, port, path, kind)
        self.nreq = 0
        self.cwd = cwd
        self.answer_log = []
        self.task_item = {}
        self.max_requests = 400
        self.max_events = max(6000, 40 * len(self.site.desc.get('urls', ())))
        self.split_answers = False
        self.wire = {}          # URL text -> the response octets the server sent (for checks that read archives)

    # ---- logging and crash points
    def log(self, **kw):
        self.ev.append(kw)
        if len(self.ev) > self.max_events and not getattr(self, '_tripped', False):
            self._tripped = True
            raise Runaway('events')       # a crawl that keeps recording events without ever finishing
        if self.trace_fd is not None:
            os.write(self.trace_fd, (json.dumps(kw) + '\n').encode())
        self.points += 1
        if self.crash_at is not None and self.points == self.crash_at:
            if getattr(self, 'crash_kind', 'kill') == 'fatal':
                # the process dies of a fatal local error instead of a kill: the table operation that has just been
                # done reports "disk full" to its caller (client context only), the application unwinds and exits;
                # the 'crash' marker is written when it has (execute)
                if kw.get('e') == 'tx':
                    self.fatal_fired = self.points
                    if self.trace_fd is not None:
                        os.write(self.trace_fd, (json.dumps({'e': 'fatal', 'point': self.points}) + '\n').encode())
                    import sqlite3
                    raise sqlite3.OperationalError('database or disk is full')
                return
            if self.trace_fd is not None:
                os.write(self.trace_fd, (json.dumps({'e': 'crash', 'point': self.points}) + '\n').encode())
            os._exit(9)

    # ---- server side
    def on_request(self, ep, head):
        lines = head.split(b'\r\n')
        m = re.match(rb'(\w+) (\S+) HTTP/1\.[01]$', lines[0])
        host = None
        for l in lines[1:]:
            if l.lower().startswith(b'host:'):
                host = l.split(b':', 1)[1].strip().decode('latin-1')
        path = m.group(2).decode('latin-1') if m else '?'
        port = 80
        if host and ':' in host:
            host, p = host.rsplit(':', 1)
            port = int(p)
        self.nreq += 1
        if self.nreq > self.max_requests:
            raise Runaway('requests')
        if any(l.lower().startswith(b'authorization:') for l in lines[1:]):
            self.req_auth = getattr(self, 'req_auth', set()) | {self.nreq}
        for l in lines[1:]:
            mr = re.match(rb'(?i)range:\s*bytes=(\d+)-\s*$', l)
            if mr:
                self.req_range = getattr(self, 'req_range', {})
                self.req_range[self.nreq] = int(mr.group(1))
        d = self.site.lookup(host, port, path)
        owner = self.site.robots_owner(host if port == 80 else '%s:%d' % (host, port), path)
        kind = 'robots' if owner is not None else ('page' if d is not None else 'other')
        u = d['id'] if d is not None else 0
        self.pending.append((self.nreq, ep, u, host, port, path, kind))
        item = self.task_item.get(asyncio.current_task(), 0)
        # rj: the URL requested matches the reject rule every scenario runs with (--reject-regex /rej/); recorded for the
        # fetches made on behalf of robots.txt (its redirect targets are ordinary redirect targets as far as scope goes)
        self.log(e='req', n=self.nreq, u=u, kind=kind, host=host or '', h=self.hidx_of(host, port, path), port=port, path=path,
                 conn_host=self.ip_host(ep.address[0]), item=item, rj=bool(kind == 'robots' and '/rej/' in path))

    def hidx_of(self, host, port, path):
        """Origin index an exchange is accounted to: for a robots.txt fetch the origin whose control file it is (which
        differs from the origin asked when the file was redirected to another origin)."""
        owner = self.site.robots_owner(host if port == 80 else '%s:%d' % (host, port), path) if host else None
        if owner is not None:
            h, _, p = owner.partition(':')
            return self.hidx(h, int(p or 80))
        return self.hidx(host, port)

    def hidx(self, host, port=80):
        """Index of the origin (host name + port) among the site's origins (0 = unknown)."""
        labels = sorted(set(u['host'] if u.get('port', 80) == 80 else '%s:%d' % (u['host'], u['port'])
                            for u in self.site.desc['urls']))
        lab = host if port == 80 else '%s:%d' % (host, port)
        return labels.index(lab) + 1 if lab in labels else 0

    def ip_host(self, ip):
        for h, i in self.site.hosts.items():
            if i == ip:
                return h
        return ip

    def answer(self, idx):
        if self.pending[idx][6] == 'body':      # second half of a split answer
            n, ep, u, host, port, path, kind, rest = self.pending.pop(idx)
            self.log(e='respbody', n=n, u=u)
            ep.send(rest)
            return
        n, ep, u, host, port, path, kind = self.pending.pop(idx)
        key = (host, port, path)
        hit = self.site.hits.get(key, 0)
        self.site.hits[key] = hit + 1
        if self.site.desc.get('auth_all') and n not in getattr(self, 'req_auth', ()):
            # a site that is wholly behind HTTP authentication - its robots.txt included
            key_ = None
            cls, data = ('robots401' if kind == 'robots' else 'unauthorized'), _http(
                401, 'Unauthorized', b'', 'text/plain', [('WWW-Authenticate', 'Basic realm="x"')])
        else:
            key_ = key
            cls, data = self.site.respond(host, port, path, hit)
        if key_ is None:
            self.site.hits[key] = hit       # (an unauthenticated attempt is not a hit of the resource)
        self.answer_log.append(n)
        start = getattr(self, 'req_range', {}).get(n)
        ranged = (data is not None and data is not ENDLESS_INTERIM and start is not None and self.site.desc.get('honour_range')
                  and data.startswith(b'HTTP/1.1 200 ') and b'\r\n\r\n' in data)
        if ranged and start >= len(data.split(b'\r\n\r\n', 1)[1]):
            cls = 'r416'
        self.log(e='resp', n=n, u=u, cls=cls, h=self.hidx_of(host, port, path))
        if data is not None and data is not ENDLESS_INTERIM:
            self.wire['http://%s%s%s' % (host, '' if port == 80 else ':%d' % port, path)] = data
        if ranged:
            # a server that honours Range (RFC 7233): the rest of the document, or 416 when nothing is left
            head, body = data.split(b'\r\n\r\n', 1)
            fields = [x for x in head.split(b'\r\n')[1:] if not x.lower().startswith(b'content-length:')]
            if start >= len(body):
                data = (b'HTTP/1.1 416 Range Not Satisfiable\r\nContent-Range: bytes */%d\r\nContent-Length: 0\r\n\r\n'
                        % len(body))
            else:
                data = b'\r\n'.join([b'HTTP/1.1 206 Partial Content'] + fields + [
                    b'Content-Range: bytes %d-%d/%d' % (start, len(body) - 1, len(body)),
                    b'Content-Length: %d' % (len(body) - start)]) + b'\r\n\r\n' + body[start:]
        if data is None:
            ep.close()
        elif data is ENDLESS_INTERIM:
            ep.out.append(fakenet.Endless(lambda i: b'HTTP/1.1 10%d Wait\r\n\r\n' % (i % 4 if i % 4 != 1 else 0), 3000,
                                          Runaway('interim responses')))
            ep._pump_soon()
        else:
            d = self.site.lookup(host, port, path) or {}
            if self.split_answers and b'\r\n\r\n' in data and not data.endswith(b'\r\n\r\n'):
                # the head now, the body as a separate environment event (lets other answers come in between)
                head, body = data.split(b'\r\n\r\n', 1)
                ep.send(head + b'\r\n\r\n')
                self.pending.append((n, ep, u, host, port, path, 'body', body))
                return
            ep.send(data, cuts=d.get('cuts'))
            if d.get('close'):
                ep.close()

    def env_step(self):
        if not self.pending:
            return False
        idx = 0
        if self.chooser is not None:
            idx = self.chooser(self)
            if idx is None:
                return False
        self.answer(idx)
        return True

    # ---- application
    def build(self):
        from wpull.application.builder import Builder
        from wpull.application.options import AppArgumentParser
        from wpull.network.pool import ConnectionPool
        from wpull.database.sqltable import SQLiteURLTable
        run = self
        net = self.net = fakenet.FakeNet()
        for h, ip in self.site.hosts.items():
            if h in self.site.desc.get('nodns', ()):
                continue                    # the name does not resolve
            net.add_host(h, ip)
            if h in self.site.desc.get('refuse', ()):
                continue                    # nobody listens: connections are refused
            ports = set([80] + [u.get('port', 80) for u in self.site.desc['urls'] if u['host'] == h])
            for p in ports:
                net.listen(ip, p, lambda ep: SiteServer(run, ep))

        class FakePool(ConnectionPool):
            def __init__(self, *a, connection_factory=None, ssl_connection_factory=None, **kw):
                kws = dict(getattr(connection_factory, 'keywords', {}) or {})
                kws.pop('bind_host', None)
                kws.pop('bandwidth_limiter', None)
                cf = functools.partial(net.connection_factory, **kws)
                ConnectionPool.__init__(self, *a, connection_factory=cf, ssl_connection_factory=cf, **kw)

        class FakeRes(fakenet.FakeResolver):
            def __init__(self, *a, **kw):
                fakenet.FakeResolver.__init__(self, net, *a, **kw)

        class TracingMixin(object):
            def __init__(self, *a, **kw):
                import sqlalchemy.event
                import sqlalchemy.engine
                # the schema is created statement by statement while the table object is constructed: every data
                # definition statement is an event (and thereby a crash point) too
                def on_ddl(conn, cursor, statement, parameters, context, executemany):
                    head = statement.lstrip()[:6].upper()
                    if head in ('CREATE', 'ALTER ', 'DROP T', 'DROP I'):
                        run.log(e='ddl', what=' '.join(statement.split()[:3]))
                    elif getattr(run, 'stmt_points', False) and head in ('INSERT', 'UPDATE', 'DELETE'):
                        # every data-changing statement is a crash point too (inside a transaction a kill here must
                        # leave nothing behind: seen only if the transaction really is one)
                        run.log(e='ddl', what=' '.join(statement.split()[:3]))
                if not getattr(run, '_ddl_hooked', False):
                    run._ddl_hooked = True
                    run._ddl_fn = on_ddl
                    sqlalchemy.event.listen(sqlalchemy.engine.Engine, 'after_cursor_execute', on_ddl)
                self._base.__init__(self, *a, **kw)
                # every COMMIT is an event of its own (and thereby a crash point): a change that splits one
                # logical operation into several transactions shows up as additional commits
                sqlalchemy.event.listen(self._session_maker_instance, 'after_commit',
                                        lambda session: run.log(e='commit'))

            def add_many(self, new_urls):
                new_urls = tuple(new_urls)
                res = self._base.add_many(self, new_urls)
                run.log(e='tx', op='add_many', urls=[run.uid(x[0]) for x in new_urls],
                        levels=[(x[1].level if x[1] is not None and x[1].level is not None else 0) for x in new_urls],
                        inl=[(x[1].inline_level or 0) if x[1] is not None else 0 for x in new_urls],
                        new=[run.uid(x) for x in res])
                return res

            def check_out(self, filter_status, level=None):
                try:
                    rec = self._base.check_out(self, filter_status, level)
                except Exception as e:
                    run.log(e='tx', op='check_out', st=filter_status.value, u=0, found=False)
                    raise
                run.log(e='tx', op='check_out', st=filter_status.value, u=run.uid(rec.url), found=True,
                        level=rec.level or 0, inl=rec.inline_level or 0, tr=rec.try_count or 0)
                return rec

            def check_in(self, url, new_status, increment_try_count=True, url_result=None):
                self._base.check_in(self, url, new_status, increment_try_count, url_result)
                run.log(e='tx', op='check_in', u=run.uid(url), st=new_status.value, inc=bool(increment_try_count))

            def update_one(self, url, **kwargs):
                self._base.update_one(self, url, **kwargs)
                run.log(e='tx', op='update_one', u=run.uid(url), code=int(kwargs.get('status_code') or 0))

            def release(self):
                self._base.release(self)
                run.log(e='tx', op='release')

            def remove_many(self, urls):
                urls = list(urls)
                self._base.remove_many(self, urls)
                run.log(e='tx', op='remove_many', urls=[run.uid(x) for x in urls])

        from wpull.database.sqltable import GenericSQLURLTable

        class TracingTable(TracingMixin, SQLiteURLTable):
            _base = SQLiteURLTable

        class TracingGeneric(TracingMixin, GenericSQLURLTable):
            _base = GenericSQLURLTable

        # --database-uri makes DatabaseSetupTask pick GenericSQLURLTable by name at run time
        import wpull.application.tasks.database as _dbtask
        self._restore = (_dbtask, _dbtask.GenericSQLURLTable)
        _dbtask.GenericSQLURLTable = TracingGeneric

        from wpull.processor.delegate import DelegateProcessor

        class TracedProcessor(DelegateProcessor):
            @asyncio.coroutine
            def process(self, item_session):
                t = asyncio.current_task()
                u = run.uid(item_session.url_record.url)
                run.task_item[t] = u
                run.log(e='vbegin', u=u)
                try:
                    return (yield from DelegateProcessor.process(self, item_session))
                finally:
                    run.task_item.pop(t, None)
                    run.log(e='vend', u=u)

        args = AppArgumentParser().parse_args(self.argv)
        b = Builder(args)
        b.factory.class_map['Processor'] = TracedProcessor
        b.factory.class_map['ConnectionPool'] = FakePool
        b.factory.class_map['Resolver'] = FakeRes
        b.factory.class_map['URLTableImplementation'] = TracingTable
        self.builder = b
        app = b.build()
        b.factory['PipelineSeries'].concurrency = self.concurrency
        return app

    def uid(self, url):
        """Map a URL string to the site's URL id by its normalized text (0 = not a site URL)."""
        m = getattr(self, '_uidmap', None)
        if m is None:
            m = self._uidmap = {}
            for i in self.site.urls:
                m[self.site.url_text(i)] = i
        return m.get(url, 0)

    def execute(self):
        old = os.getcwd()
        if self.cwd:
            os.chdir(self.cwd)
        try:
            self.log(e='start', run=self.run_no)
            app = self.build()
            import signal
            oldsig = signal.signal(signal.SIGVTALRM, _alarm)
            signal.setitimer(signal.ITIMER_VIRTUAL, 60.0)      # CPU seconds; a crawl here takes well under one
            try:
                try:
                    kind, val = vloop.run(lambda: app.run(), self.env_step, env_before_timer=True)
                except Runaway as e:
                    kind, val = 'exc', e
            finally:
                signal.setitimer(signal.ITIMER_VIRTUAL, 0)
                signal.signal(signal.SIGVTALRM, oldsig)
            if getattr(self, 'fatal_fired', None) and kind in ('ok', 'exc'):
                # died of the injected fatal error (whatever exit status it chose): the end of run 1
                if self.trace_fd is not None:
                    os.write(self.trace_fd, (json.dumps({'e': 'crash', 'point': self.fatal_fired, 'kind': 'fatal',
                                                         'how': str(val)[:80]}) + '\n').encode())
                self.outcome = 'fatal'
                return self.ev
            if kind == 'exc' and isinstance(val, Runaway):
                kind = 'hang'
                self.log(e='hang', pending=len(self.pending), runaway=str(val))
            elif kind == 'ok':
                self.log(e='exit', code=int(val))
            elif kind == 'exc':
                self.log(e='exit', code=-1, exc='%s: %s' % (type(val).__name__, val))
            elif kind == 'hang' and not (self.ev and self.ev[-1].get('e') == 'hang'):
                self.log(e='hang', pending=len(self.pending))
            self.outcome = kind
            self.exit_code = val if kind == 'ok' else None
        finally:
            os.chdir(old)
            if getattr(self, '_ddl_fn', None) is not None:
                import sqlalchemy.event
                import sqlalchemy.engine
                try:
                    sqlalchemy.event.remove(sqlalchemy.engine.Engine, 'after_cursor_execute', self._ddl_fn)
                except Exception:
                    pass
                self._ddl_fn = None
            if getattr(self, '_restore', None):
                self._restore[0].GenericSQLURLTable = self._restore[1]
            if self.trace_fd is not None:
                os.close(self.trace_fd)
                self.trace_fd = None
        return self.ev


def read_rows(db_path, run):
    """The rows of the URL table.  Read from a COPY of the database and its side files (-wal, -shm, -journal): opening
    the original would replay and checkpoint the write-ahead log, i.e. change what the next process finds on disk."""
    import shutil
    import tempfile
    d = tempfile.mkdtemp(prefix='dbcopy_')
    try:
        cp = os.path.join(d, 'copy.db')
        for suffix in ('', '-wal', '-shm', '-journal'):
            if os.path.exists(db_path + suffix):
                shutil.copy(db_path + suffix, cp + suffix)
        con = sqlite3.connect(cp)
        try:
            cur = con.execute('select s.url, q.status, q.try_count, q.level, q.inline_level from queued_urls q '
                              'join url_strings s on s.id = q.url_string_id order by q.id')
            return [[run.uid(r[0]), r[1], r[2] or 0, r[3] or 0, r[4] or 0, r[0]] for r in cur.fetchall()]
        finally:
            con.close()
    finally:
        shutil.rmtree(d, ignore_errors=True)
