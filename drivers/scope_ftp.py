"""C02, FTP crawls - no LIST / RETR for a path outside the configured scope.

  1. design check: TLC, FtpScope.tla - the implementation-shaped model of wpull's FTP recursion (URL records with
     level / link type / root, filter check at the start of a visit, parent listing, LIST / RETR, children recorded
     with the level rules, 1 or 2 workers) never sends a command outside the declarative reference (PART A of the
     same module), exhaustively over the enumerated scenario space (trees x start URLs x options x server flavour);
     negative control: with BugGlobDirLevel = TRUE (the seeded glob-directory fault) the invariant must FAIL
  2. scenarios: the same space printed by TLC as JSON (GenSpec / GenInv) plus a hand-written catalogue, each replayed
     as one COMPLETE real crawl (Builder(args).build(); app.run()) against the scripted in-memory FTP server of
     drivers/scope_ftp_exec.py, which logs every command with its path
  3. every crawl is judged by TLC twice: FtpScopeMon (reference sets computed in TLA+ from tree + options; a command
     outside them = VIOLATION) and FtpScopeTrace (is the recording a behaviour of the model: rejection = DRIFT)

`run(chk)` adds to a harness.report.Check of property C02 and never calls chk.finish().
"""
import json
import os
import random
import re
import time
from concurrent.futures import ThreadPoolExecutor

from harness import tlc

RULES = ['Recursive', 'Level', 'Parent', 'Directory', 'Filename', 'Regex', 'Glob', 'Unreachable', 'Tries']
ACTIONS = ['DoBegin', 'DoParentCached', 'DoParentFetch', 'DoParentDone', 'DoFetchCmd', 'DoFinish']
INVS = ['TypeOK', 'CmdsInScope', 'CmdKindsOK', 'RecordsSound']
LAYER = 'ftp-crawl'


_REJ = {}


def rej_by_char():
    """Does the code under test take -R as one string (whose characters BackwardFilenameFilter then iterates over)
    or as a comma separated list?  The model describes the code as it is (constant RejByChar)."""
    if 'v' not in _REJ:
        from wpull.application.options import AppArgumentParser
        _REJ['v'] = isinstance(AppArgumentParser().parse_args(['ftp://h.test/', '-R', 'a,b']).reject, str)
    return _REJ['v']


def _consts(space, bug=False):
    return ('CONSTANTS BugGlobDirLevel = %s\nSpace = "%s"\nRejByChar = %s\n'
            % ('TRUE' if bug else 'FALSE', space, 'TRUE' if rej_by_char() else 'FALSE'))


def design_cfg(space, bug=False, invs=INVS):
    return ('SPECIFICATION Spec\n%s%sCHECK_DEADLOCK FALSE\n'
            % (_consts(space, bug), ''.join('INVARIANT %s\n' % i for i in invs)))


def mon_cfg():
    return 'SPECIFICATION MSpec\n%sCONSTRAINT Record\nPOSTCONDITION Post\nCHECK_DEADLOCK FALSE\n' % _consts('none')


def trace_cfg():
    return 'SPECIFICATION TSpec\n%sCONSTRAINT Record\nPOSTCONDITION Post\nCHECK_DEADLOCK FALSE\n' % _consts('none')


# ------------------------------------------------------------------ scenarios
def generate(space):
    """The scenario space of FtpScope.tla, printed by TLC (one JSON object per initial state)."""
    cfg = 'SPECIFICATION GenSpec\n%sINVARIANT GenInv\nCHECK_DEADLOCK FALSE\n' % _consts(space)
    res = tlc.run_tlc('FtpScope', cfg, workers=1, timeout=900)
    tlc.require_ok(res, 'FtpScope scenario generation')
    out = []
    seen = set()
    for m in re.finditer(r'<<"SCEN", "(.*?)">>\n', res['out']):
        txt = m.group(1).replace('\\"', '"').replace('\\\\', '\\')
        if txt in seen:
            continue
        seen.add(txt)
        out.append(json.loads(txt))
    if len(out) != res['distinct']:
        raise tlc.TLCError('scenario generation: %d scenarios parsed, %d initial states' % (len(out), res['distinct']))
    return out, res


def _t(*entries):
    """'pub/', 'pub/a.txt' ... -> tree entry list (a trailing slash marks a directory)."""
    out = []
    for e in entries:
        d = e.endswith('/')
        out.append({'p': [s for s in e.split('/') if s], 'k': 'd' if d else 'f'})
    return out


def _s(*urls):
    out = []
    for u in urls:
        segs = [s for s in u.split('/') if s]
        out.append({'p': segs, 'slash': u.endswith('/') or not segs})
    return out


def catalogue():
    """Hand-written scenarios outside the generated space (other trees, options and combinations)."""
    from drivers.scope_ftp_exec import norm_opt as O
    tree1 = _t('pub/', 'pub/a.txt', 'pub/b.bin', 'pub/list', 'pub/sub/', 'pub/sub/c.txt', 'pub/sub/deeper/',
               'pub/sub/deeper/d.txt', 'pub/sub/deeper/bottom/', 'pub/sub/deeper/bottom/e.txt', 'pub-old/',
               'pub-old/a.txt', 'pub2/', 'pub2/sub/', 'pub2/sub/f.txt', 'top.txt')
    tree2 = _t('data/', 'data/2020/', 'data/2020/jan.csv', 'data/2020/feb.csv', 'data/2021/', 'data/2021/jan.csv',
               'data/2021-draft/', 'data/2021-draft/x.csv', 'data/index', 'data/private/', 'data/private/key.pem',
               'database/', 'database/dump.sql')
    tree3 = _t('m/', 'm/x1', 'm/x2', 'm/xd/', 'm/xd/in', 'm/y*', 'm/[x]1', 'm/z/', 'm/z/x9')
    tree4 = _t('pub/', 'pub/docs/', 'pub/docs/ok.txt', 'pub/docs/..%2F..%2Fprivate%2Fsecret.txt', 'pub/docs/%2E%2E/',
               'pub/docs/%2e/', 'pub/docs/sub/', 'pub/docs/sub/%2E%2E%2F%2E%2E%2Ftop.txt', 'private/', 'private/secret.txt',
               'pub/top.txt')
    sc = []

    def add(tree, starts, opt, dots=False, mlsd=False, conc=1):
        sc.append({'tree': tree, 'dots': dots, 'mlsd': mlsd, 'conc': conc, 'starts': starts, 'opt': opt})
    for conc in (1, 2):
        # depth limits exactly at and beyond the tree's depth
        for lvl in (1, 2, 3, 0):
            add(tree1, _s('pub/'), O(r=True, lvl=lvl), conc=conc)
            add(tree1, _s('pub/s*'), O(r=True, lvl=lvl), conc=conc)
            add(tree1, _s('pub'), O(r=True, lvl=lvl, np=True), conc=conc, dots=True)
        # prefix-sharing siblings with directory lists, no-parent and regular expressions
        add(tree1, _s('/'), O(r=True, inc=[['pub']]), conc=conc)
        add(tree1, _s('/'), O(r=True, exc=[['pub']]), conc=conc)
        add(tree1, _s('/'), O(r=True, inc=[['pub2'], ['pub', 'sub']], rej=['txt']), conc=conc)
        add(tree1, _s('pub/', 'pub-old/', 'pub2/sub/f.txt'), O(r=True, inc=[['pub']]), conc=conc)
        add(tree1, _s('pub', 'pub-old', 'pub2'), O(r=True, lvl=1, inc=[['pub']]), conc=conc)
        add(tree1, _s('pub*'), O(r=True, inc=[['pub']]), conc=conc)
        add(tree1, _s('pub/', 'pub-old/a.txt', 'pub2/'), O(r=True, exc=[['pub']]), conc=conc)
        add(tree1, _s('pub/', 'pub2/sub/f.txt'), O(r=True, np=True, exc=[['pub', 'sub', 'deeper']]), conc=conc, dots=True)
        add(tree1, _s('pub2/'), O(r=True, np=True), conc=conc, dots=True)
        add(tree1, _s('pub/sub/'), O(r=True, np=True, lvl=2), conc=conc, dots=True)
        add(tree1, _s('pub/sub'), O(r=True, np=True, lvl=2), conc=conc, dots=True)
        add(tree1, _s('/'), O(r=True, rxr='pub-'), conc=conc)
        add(tree1, _s('/'), O(r=True, rxa='pub'), conc=conc)
        add(tree1, _s('pub/'), O(r=True, rxr='deeper', acc=['txt']), conc=conc)
        add(tree1, _s('pub/*'), O(rej=['bin']), conc=conc)
        add(tree1, _s('pub/*', 'pub2/*'), O(), conc=conc)
        add(tree1, _s('pub/*', 'pub2/*'), O(r=True, lvl=1), conc=conc)
        add(tree1, _s('pub*'), O(r=True, lvl=2, exc=[['pub-old']]), conc=conc)
        add(tree1, _s('pub/list', 'pub/sub/c.txt'), O(r=True, rej=['txt']), conc=conc)
        add(tree1, _s('pub/sub/deeper/bottom/e.txt'), O(np=True), conc=conc)
        add(tree1, _s('pub/nothing', 'nodir/x'), O(r=True), conc=conc)
        # a second tree: names extending each other (2021 / 2021-draft, data / database)
        add(tree2, _s('data/'), O(r=True, exc=[['data', '2021']]), conc=conc)
        add(tree2, _s('data/'), O(r=True, inc=[['data', '2021']]), conc=conc)
        add(tree2, _s('data/2021'), O(r=True, np=True), conc=conc, dots=True)
        add(tree2, _s('data/2021/'), O(r=True, np=True), conc=conc, dots=True)
        add(tree2, _s('data/20*'), O(), conc=conc)
        add(tree2, _s('data/20*'), O(r=True, lvl=1, rej=['csv']), conc=conc)
        add(tree2, _s('data/20*', 'database/'), O(r=True, lvl=1, acc=['csv']), conc=conc)
        add(tree2, _s('data/*'), O(r=True, exc=[['data', 'private']]), conc=conc)
        add(tree2, _s('data/*'), O(r=True, rxr='private'), conc=conc)
        add(tree2, _s('data'), O(r=True, lvl=1, rxr='draft'), conc=conc, mlsd=True)
        add(tree2, _s('data/'), O(r=True, lvl=2, acc=['csv'], exc=[['data', '2020']]), conc=conc, mlsd=True, dots=True)
        add(tree2, _s('da*'), O(r=True, lvl=2), conc=conc)
        add(tree2, _s('da*'), O(), conc=conc, dots=True)
        # entry names that turn into OTHER paths when percent-decoded (the client sends the decoded path)
        add(tree4, _s('pub/docs/'), O(r=True, np=True), conc=conc)
        add(tree4, _s('pub/docs/'), O(r=True, exc=[['private']]), conc=conc)
        add(tree4, _s('pub/docs/'), O(r=True, inc=[['pub', 'docs']]), conc=conc, mlsd=True)
        # names with glob characters
        add(tree3, _s('m/'), O(r=True), conc=conc)
        add(tree3, _s('m/x*'), O(), conc=conc)
        add(tree3, _s('m/x*'), O(r=True, lvl=1), conc=conc)
        add(tree3, _s('m/x*'), O(glob=False), conc=conc)
        add(tree3, _s('m/[x]1'), O(), conc=conc)
        add(tree3, _s('m/[x]1'), O(glob=False), conc=conc)
        add(tree3, _s('m/y*'), O(r=True, glob=False), conc=conc)
        add(tree3, _s('m/*'), O(r=True, lvl=1, exc=[['m', 'z']]), conc=conc, dots=True)
    return sc


def pick(scens, n, rng):
    """A sample of n generated scenarios that keeps every (start shape, option shape) class present."""
    if n >= len(scens):
        return list(scens)
    groups = {}
    for s in scens:
        o = s['opt']
        key = (json.dumps(s['starts']), o['r'], o['lvl'], o['np'], o['glob'], bool(o['acc']), bool(o['rej']), bool(o['inc']),
               bool(o['exc']), bool(o['rxa']), bool(o['rxr']))
        groups.setdefault(key, []).append(s)
    keys = sorted(groups)
    rng.shuffle(keys)
    out = []
    i = 0
    while len(out) < n and keys:
        k = keys[i % len(keys)]
        g = groups[k]
        out.append(g.pop(rng.randrange(len(g))))
        if not g:
            keys.remove(k)
        else:
            i += 1
    return out


# ------------------------------------------------------------------ running the real application
def _one(scen):
    from drivers.scope_ftp_exec import run_scenario
    c = run_scenario(scen)
    return {'ev': c.ev, 'outcome': c.outcome, 'code': c.exit_code, 'exc': c.exc}


def _worker_init():
    from harness import wpull_compat  # noqa: F401


class Crawlers(object):
    """A few forked worker processes that run crawls (each crawl needs its own event loop, signal watchdog and
    working directory).  Created BEFORE any thread is started; falls back to in-process execution."""
    def __init__(self, procs):
        self.pool = None
        if procs > 1:
            try:
                import multiprocessing
                self.pool = multiprocessing.get_context('fork').Pool(procs, initializer=_worker_init)
            except Exception:       # noqa
                self.pool = None

    def run(self, scens):
        if self.pool is None or len(scens) < 8:
            return [_one(s) for s in scens]
        n = len(scens)
        res = self.pool.map_async(_one, scens, chunksize=max(1, min(16, n // 24 or 1)))
        try:
            return res.get(timeout=120 + 2 * n)
        except Exception as e:      # noqa
            self.close(True)
            raise tlc.TLCError('FTP crawl workers failed: %r' % (e,))

    def close(self, kill=False):
        if self.pool is not None:
            if kill:
                self.pool.terminate()
            else:
                self.pool.close()
            self.pool.join()
            self.pool = None


def header_of(scen):
    return {'tree': scen['tree'], 'dots': bool(scen['dots']), 'mlsd': bool(scen['mlsd']), 'conc': int(scen['conc']),
            'starts': scen['starts'], 'opt': scen['opt']}


def mon_trace(scen, rec):
    ev = [{'e': 'cmd', 'c': e['c'], 'p': e['p']} for e in rec['ev'] if e['e'] == 'cmd']
    ev.append({'e': 'end', 'c': '', 'p': []})
    return {'hdr': header_of(scen), 'ev': ev}


def strict_trace(scen, rec):
    """begin / cmd (LIST, RETR) / fin (check-in + the children it recorded) events for FtpScopeTrace."""
    out = []
    evs = rec['ev']
    mlsd = bool(scen['mlsd'])
    i = 0
    while i < len(evs):
        e = evs[i]
        if e['e'] == 'begin':
            out.append({'e': 'begin', 'u': e['u'], 'lvl': e['lvl'], 'lt': e['lt']})
        elif e['e'] == 'cmd':
            c = e['c']
            if c == 'SIZE' or (c == 'MLSD' and not mlsd):
                pass
            else:
                out.append({'e': 'cmd', 'c': 'LIST' if c == 'MLSD' else c, 'p': e['p'], 'u': e['item']})
        elif e['e'] == 'in':
            kids = []
            if i + 1 < len(evs) and evs[i + 1]['e'] == 'add' and not evs[i + 1]['seed'] and evs[i + 1]['item'] == e['u']:
                kids = [{'u': k['u'], 'lvl': k['lvl'], 'lt': k['lt']} for k in evs[i + 1]['kids'] if k['new']]
                i += 1
            out.append({'e': 'fin', 'u': e['u'], 'st': e['st'], 'kids': kids})
        elif e['e'] == 'add' and not e['seed'] and i + 1 < len(evs) and evs[i + 1]['e'] == 'in' and evs[i + 1]['u'] == e['item']:
            # the children are stored first, then the status of the listing (one "fin" step of the model either way)
            kids = [{'u': k['u'], 'lvl': k['lvl'], 'lt': k['lt']} for k in e['kids'] if k['new']]
            out.append({'e': 'fin', 'u': e['item'], 'st': evs[i + 1]['st'], 'kids': kids})
            i += 1
        elif e['e'] == 'add' and not e['seed']:
            out.append({'e': 'orphan-add', 'u': e['item'], 'kids': []})
        i += 1
    return {'hdr': header_of(scen), 'ev': out}


def path_text(p):
    return '/' + '/'.join(p)


def opt_text(o):
    bits = []
    if o['r']:
        bits.append('-r')
    if o['lvl'] != 5:
        bits.append('-l %s' % ('inf' if o['lvl'] == 0 else o['lvl']))
    if o['np']:
        bits.append('--no-parent')
    if not o['glob']:
        bits.append('--no-glob')
    for k, f in (('acc', '-A'), ('rej', '-R')):
        if o[k]:
            bits.append('%s %s' % (f, ','.join(o[k])))
    for k, f in (('inc', '-I'), ('exc', '-X')):
        if o[k]:
            bits.append('%s %s' % (f, ','.join(path_text(d) for d in o[k])))
    if o['rxa']:
        bits.append('--accept-regex %s' % o['rxa'])
    if o['rxr']:
        bits.append('--reject-regex %s' % o['rxr'])
    return ' '.join(bits) or '(no options)'


def start_text(scen):
    from drivers.scope_ftp_exec import url_of
    return ' '.join(url_of(s) for s in scen['starts'])


def validate(chk, items, tag, nchunk=4):
    """items: list of (origin, scenario, record); items[0] is the base of the binding self-tests.
    Monitor + strict validation, verdict bookkeeping."""
    mtr = [mon_trace(s, r) for (_, s, r) in items]
    strr = [strict_trace(s, r) for (_, s, r) in items]
    bad, inj = control_traces(items[0][1], items[0][2])
    n_items = len(items)
    strr += [t for (_, t) in bad]
    mtr += [t for (_, _, _, t) in inj]
    size = (max(len(mtr), len(strr)) + nchunk - 1) // nchunk

    def run_mon(part):
        return tlc.validate_batch('FtpScopeMon', mon_cfg(), part, timeout=1500)

    def run_strict(part):
        return tlc.validate_batch('FtpScopeTrace', trace_cfg(), part, timeout=1500)
    jobs = []
    with ThreadPoolExecutor(max_workers=8) as ex:
        for off in range(0, len(mtr), size):
            jobs.append(('m', off, ex.submit(run_mon, mtr[off:off + size])))
        for off in range(0, len(strr), size):
            jobs.append(('s', off, ex.submit(run_strict, strr[off:off + size])))
        mv = [None] * len(mtr)
        sv = [None] * len(strr)
        for kind, off, fut in jobs:
            v, st = fut.result()
            chk.trace_stats(st)
            for j, x in enumerate(v):
                (mv if kind == 'm' else sv)[off + j] = x
    chk.extra['ftp_binding_selftest'] = judge_controls(sv[0]['accepted'], bad, inj, sv[n_items:], mv[n_items:])
    for (origin, scen, rec), m, s, mt, stt in zip(items, mv, sv, mtr, strr):
        chk.validated(1)
        cmds = [e for e in rec['ev'] if e['e'] == 'cmd']
        summary = '%s %s conc=%d%s%s' % (start_text(scen), opt_text(scen['opt']), scen['conc'],
                                          ' dots' if scen['dots'] else '', ' mlsd' if scen['mlsd'] else '')
        if m['matched'] < m['len']:
            raise tlc.TLCError('FtpScopeMon did not consume a trace (%d of %d events): %s' % (m['matched'], m['len'], summary))
        mask = m['bad'] % 1000
        kind_mismatch = (m['bad'] // 1000) % 2 == 1
        if m['bad'] // 2000 and rec['outcome'] == 'ok':
            less = chk.extra.setdefault('ftp_asked_for_less_than_reference', {'crawls': 0, 'examples': []})
            less['crawls'] += 1
            if len(less['examples']) < 8 and summary.split(' conc=')[0] not in [x.split(' conc=')[0] for x in less['examples']]:
                less['examples'].append(summary)
        replay_obj = {'scenario': scen, 'origin': origin, 'commands': [[e['c'], e['raw']] for e in cmds]}
        if rec['outcome'] == 'hang':
            # termination is not C02's subject (C13 / C18): an endless crawl is judged by the commands it sent
            chk.drifted('the FTP crawl did not finish (%s): %s' % (rec['exc'], summary), None)
        elif rec['outcome'] == 'exc':
            chk.drifted('the FTP crawl ended with an exception (%s): %s' % (rec['exc'], summary), None)
        if mask:
            bad = mt['ev'][m['badline'] - 1] if 0 < m['badline'] <= len(mt['ev']) else {}
            for bit, rule in enumerate(RULES):
                if mask & (1 << bit):
                    chk.violation({'clause': 'RetrievedAgain' if rule == 'Tries' else 'CommandOutOfScope', 'layer': LAYER,
                                   'rule': rule},
                                  'the server received a command for a path outside the reference sets computed from '
                                  'the tree and the options (first: %s %s; rule failed: %s).  Crawl: %s.  Commands: %s'
                                  % (bad.get('c'), path_text(bad.get('p', [])), rule, summary,
                                     ' '.join('%s %s' % (e['c'], e['raw']) for e in cmds if e['c'] not in ('MLSD', 'SIZE'))[:600]),
                                  replay_obj)
        else:
            if kind_mismatch:
                chk.drifted('a path inside the scope was asked for with the other kind of command (LIST vs RETR): '
                            + summary, None)
            # names with percent escapes that decode to other paths are outside the vocabulary of the model (monitored only)
            odd = any('%' in seg for ent in scen['tree'] for seg in ent['p'])
            if not s['accepted'] and not odd:
                nxt = stt['ev'][s['matched']] if s['matched'] < len(stt['ev']) else None
                chk.drifted('strict FtpScope.tla rejects event %d %s of: %s' % (s['matched'], json.dumps(nxt), summary),
                            {'origin': origin})
        key = json.dumps([header_of(scen), [[e['c'], e['raw']] for e in cmds]], sort_keys=True)
        chk.case(key=key)
        if sum(1 for x in chk.samples if isinstance(x, dict) and x.get('layer') == LAYER) < 2 and origin == tag \
                and 6 < len(cmds) < 30:
            chk.samples.append({'origin': origin, 'layer': LAYER, 'crawl': summary,
                                'commands': ['%s %s' % (e['c'], e['raw']) for e in cmds]})


def control_traces(scen, rec):
    """Binding self-tests, run with every check: (a) recordings with one corrupted field, which the strict spec must
    reject; (b) recordings with one injected out-of-scope command, which the monitor must flag with the right rule.
    `scen` must be the crawl  ftp://h.test/pub/ -r -l 1  of the catalogue's first tree."""
    import copy
    base = strict_trace(scen, rec)
    bad = []

    def corrupt(what, fn):
        t = copy.deepcopy(base)
        fn(t['ev'])
        bad.append((what, t))
    fins = [i for i, e in enumerate(base['ev']) if e['e'] == 'fin' and e['kids']]
    cmds = [i for i, e in enumerate(base['ev']) if e['e'] == 'cmd']
    begins = [i for i, e in enumerate(base['ev']) if e['e'] == 'begin']
    if fins and cmds and begins:
        corrupt('child level + 1', lambda ev: ev[fins[0]]['kids'][0].__setitem__('lvl', ev[fins[0]]['kids'][0]['lvl'] + 1))
        corrupt('command path', lambda ev: ev[cmds[-1]].__setitem__('p', ['pub-old']))
        corrupt('command kind', lambda ev: ev[cmds[0]].__setitem__('c', 'RETR'))
        corrupt('begin level', lambda ev: ev[begins[-1]].__setitem__('lvl', 0))
        corrupt('check-in status', lambda ev: ev[fins[0]].__setitem__('st', 'done'))
        corrupt('child dropped', lambda ev: ev[fins[0]]['kids'].pop())
    inj = []
    for c, p, rule in (('RETR', ['pub-old', 'a.txt'], 'Unreachable'), ('LIST', ['pub', 'sub', 'deeper'], 'Level'),
                       ('LIST', [], 'Unreachable'), ('SIZE', ['pub', 'sub', 'deeper', 'd.txt'], 'Level'),
                       ('RETR', ['pub', 'a.txt'], 'Tries')):
        t = mon_trace(scen, rec)
        t['ev'].insert(len(t['ev']) - 1, {'e': 'cmd', 'c': c, 'p': p})
        inj.append((c, p, rule, t))
    return bad, inj


def judge_controls(base_ok, bad, inj, sv, mv):
    if not base_ok:
        return 'skipped: the base recording is itself rejected (drift)'
    for (what, _), x in zip(bad, sv):
        if x['accepted']:
            raise tlc.TLCError('binding self-test: FtpScopeTrace accepts a recording with a corrupted field (%s)' % what)
    for (c, p, rule, _), x in zip(inj, mv):
        if x['bad'] % 1000 != 1 << RULES.index(rule):   # (the flags above 1000 are not part of the rule mask)
            raise tlc.TLCError('monitor self-test: injected %s %s gives mask %d, expected rule %s'
                               % (c, path_text(p), x['bad'], rule))
    return '%d corrupted recordings rejected by FtpScopeTrace, %d injected commands flagged by FtpScopeMon' % (len(bad), len(inj))


# ------------------------------------------------------------------ entry points
def run(chk):
    quick = chk.tier == 'quick'
    rng = random.Random(chk.seed + 202)
    space = 'quick' if quick else 'full'
    t0 = time.time()
    crawlers = Crawlers(4 if quick else 6)
    try:
        with ThreadPoolExecutor(max_workers=3) as ex:
            f_design = ex.submit(tlc.run_tlc, 'FtpScope', design_cfg(space), workers=4 if quick else 6, timeout=1500,
                                 coverage=True, heap='3g')
            f_bug = ex.submit(tlc.run_tlc, 'FtpScope', design_cfg('quick', bug=True, invs=['CmdsInScope']), workers=2,
                              timeout=600)
            f_gen = ex.submit(generate, space)
            # the catalogue does not need TLC's output: run it while TLC works
            cat = catalogue()
            cat_recs = crawlers.run(cat)
            t_cat = time.time() - t0
            gen, gres = f_gen.result()
            n_gen = 110 if quick else 8000     # thorough: the whole generated space (5760 scenarios)
            sample = pick(gen, n_gen, rng)
            gen_recs = crawlers.run(sample)
            t_gen = time.time() - t0
            design = f_design.result()
            bug = f_bug.result()
            t_tlc = time.time() - t0
    finally:
        crawlers.close()
    name = 'FtpScope[%s]' % space
    chk.design(name, design, constants={'Space': space, 'BugGlobDirLevel': False, 'RejByChar': rej_by_char(),
                                        'scenarios': len(gen)},
               expect_actions=ACTIONS)
    if bug['violated'] != 'invariant:CmdsInScope':
        raise tlc.TLCError('negative control: FtpScope.tla with BugGlobDirLevel = TRUE does not violate CmdsInScope (%s)'
                           % bug['violated'])
    chk.extra['ftp_negative_control'] = 'BugGlobDirLevel = TRUE violates CmdsInScope in the model, as required'
    items = [('catalogue', s, r) for s, r in zip(cat, cat_recs)] + [('tlc-generated', s, r) for s, r in zip(sample, gen_recs)]
    validate(chk, items, 'tlc-generated', nchunk=2 if quick else 4)
    chk.extra['ftp_crawls'] = {'catalogue': len(cat), 'tlc_generated_space': len(gen), 'tlc_generated_run': len(sample),
                               'commands_observed': sum(1 for (_, _, r) in items for e in r['ev'] if e['e'] == 'cmd'),
                               'wall_s': round(time.time() - t0, 1),
                               'phases_s': {'catalogue_crawls': round(t_cat, 1), 'generated_crawls': round(t_gen, 1),
                                            'design_checks_done': round(t_tlc, 1)}}
    chk.extra['ftp_interpretation'] = [
        'depth: start URLs 0, entries of a listed directory +1, files matched by a glob URL keep its depth, directories '
        'matched by a glob URL are one level deeper',
        'lenient: -A/-R judge files only; a directory start URL written without trailing slash may be judged in either '
        'spelling by the regular expressions; a glob URL is judged by its directory (against -X and --reject-regex only)',
        'documented exception: the parent directory of a start URL written without trailing slash may be listed when '
        'the start URL itself passes the rules',
        'LIST vs RETR on a path that is in scope is not a scope question (drift at most)',
    ]


def replay(chk, path):
    from harness import wpull_compat  # noqa: F401
    rp = json.load(open(path))['replay']
    scen = rp['scenario']
    rec = _one(scen)
    print('crawl:', start_text(scen), opt_text(scen['opt']), 'conc=%d dots=%s mlsd=%s' % (scen['conc'], scen['dots'], scen['mlsd']))
    for e in rec['ev']:
        if e['e'] == 'cmd':
            print('  %-4s %-28s while visiting %s' % (e['c'], e['raw'], path_text(e['item']['p']) + ('/' if e['item']['slash'] else '')))
    print('outcome', rec['outcome'], rec['code'], rec['exc'])
    v, _ = tlc.validate_batch('FtpScopeMon', mon_cfg(), [mon_trace(scen, rec)])
    mask = v[0]['bad'] % 1000
    print('monitor:', 'OutOfScope rules=%s first at event %d' % ([r for b, r in enumerate(RULES) if mask & (1 << b)], v[0]['badline'])
          if mask else 'in scope')
    return 1 if mask else 0


# ------------------------------------------------------------------ development aids (python -m drivers.scope_ftp ...)
MUTANTS = [
    # (name, file, old text, new text)
    ('glob-dir-level (the seeded fault)', 'wpull/processor/ftp.py',
     'self._item_session.add_child_url(linked_url_info.url, link_type=LinkType.directory)',
     'self._item_session.add_child_url(linked_url_info.url, link_type=LinkType.directory, level=level)'),
    ('filters not consulted at check-out', 'wpull/processor/ftp.py',
     "        if not verdict:\n            self._item_session.skip()\n            return\n\n        self._add_request_password(request)",
     "        if not verdict and False:\n            self._item_session.skip()\n            return\n\n        self._add_request_password(request)"),
    ('glob match inverted', 'wpull/processor/ftp.py',
     'not fnmatch.fnmatchcase(file_entry.name, self._glob_pattern):', 'fnmatch.fnmatchcase(file_entry.name, self._glob_pattern):'),
    ('--no-glob ignored', 'wpull/processor/ftp.py',
     'if self._processor.fetch_params.glob and frozenset(filename) & GLOB_CHARS:', 'if frozenset(filename) & GLOB_CHARS:'),
    ('RecursiveFilter level <= 1', 'wpull/urlfilter.py',
     '        if url_table_record.level == 0:\n            return True\n        if url_table_record.inline_level:',
     '        if url_table_record.level <= 1:\n            return True\n        if url_table_record.inline_level:'),
    ('LevelFilter off by one', 'wpull/urlfilter.py',
     'return url_table_record.level <= self._depth\n', 'return url_table_record.level <= self._depth + 1\n'),
    ('ParentFilter always true', 'wpull/urlfilter.py',
     "            return is_subdir(top_url_info.path, url_info.path,\n                             trailing_slash=True)",
     "            return True or is_subdir(top_url_info.path, url_info.path,\n                             trailing_slash=True)"),
    ('DirectoryFilter reject list ignored', 'wpull/urlfilter.py',
     'if self._rejected and self._is_rejected(url_info):', 'if self._rejected and not self._rejected:'),
    ('DirectoryFilter accept list matches string prefixes', 'wpull/urlfilter.py',
     "            if is_subdir(dirname, url_info.path, wildcards=True):\n                return True\n\n    def _is_rejected",
     "            if url_info.path.startswith(dirname):\n                return True\n\n    def _is_rejected"),
    ('FilenameFilter reject list ignored', 'wpull/urlfilter.py',
     'elif self._rejected and self.match(self._rejected, test_filename):\n            return False',
     'elif self._rejected and self.match(self._rejected, test_filename):\n            return True'),
    ('FilenameFilter accept list ignored', 'wpull/urlfilter.py',
     '            else:\n                return self.match(self._accepted, test_filename)\n',
     '            else:\n                return True\n'),
    ('RegexFilter reject ignored', 'wpull/urlfilter.py',
     'if self._rejected and re.search(self._rejected, url_info.url):\n            return False',
     'if self._rejected and re.search(self._rejected, url_info.url):\n            return True'),
    ('RegexFilter accept ignored', 'wpull/urlfilter.py',
     'if self._accepted and not re.search(self._accepted, url_info.url):\n            return False',
     'if self._accepted and not re.search(self._accepted, url_info.url):\n            return True'),
    ('Demux verdict tolerates one failing filter', 'wpull/urlfilter.py',
     "'verdict': len(failed) == 0,", "'verdict': len(failed) <= 1,"),
    ('consult_filters ignores the verdict', 'wpull/processor/rule.py',
     "        verdict = test_info['verdict']\n\n        if verdict:\n            reason = 'filters'",
     "        verdict = True\n\n        if verdict:\n            reason = 'filters'"),
    ('check_generic_request: redirect waiver for every request', 'wpull/processor/rule.py',
     "        verdict, reason, test_info = self.consult_filters(\n            item_session.request.url_info,\n            item_session.url_record)\n\n        verdict, reason = self.consult_hook(item_session, verdict,\n                                            reason, test_info)\n\n        return verdict, reason\n\n    check_ftp_request",
     "        verdict, reason, test_info = self.consult_filters(\n            item_session.request.url_info,\n            item_session.url_record)\n\n        verdict, reason = self.consult_hook(item_session, True,\n                                            reason, test_info)\n\n        return verdict, reason\n\n    check_ftp_request"),
]


def _standalone(tier):
    """One private run of this part (evidence and replays go to a scratch directory); prints the signatures."""
    import tempfile
    import harness.report as R
    R.EVIDENCE = tempfile.mkdtemp(prefix='c02ftp_ev_')
    R.REPLAYS = tempfile.mkdtemp(prefix='c02ftp_rp_')
    chk = R.Check('C02', tier, int(os.environ.get('VERIF_SEED') or 0))
    t0 = time.time()
    run(chk)
    for v in chk.violations:
        print('SIG ' + v['sig'] + ' x%d' % v['count'])
    print('RESULT violations=%d drift=%d traces=%d wall=%.1fs' % (len(chk.violations), len(chk.drift), chk.traces, time.time() - t0))
    for d in chk.drift[:5]:
        print('DRIFT ' + d['what'][:300])
    import shutil
    shutil.rmtree(R.EVIDENCE, ignore_errors=True)
    shutil.rmtree(R.REPLAYS, ignore_errors=True)


def _mutants(names=None):
    import subprocess
    import shutil
    repo = os.environ.get('VERIF_REPO', '/repo')
    here = os.path.dirname(os.path.dirname(os.path.abspath(__file__)))
    for i, (name, fn, old, new) in enumerate(MUTANTS):
        if names and not any(n in name for n in names):
            continue
        wt = '/tmp/wt_c02ftp_m%d' % i
        subprocess.run(['git', '-C', repo, 'worktree', 'remove', '--force', wt], capture_output=True)
        subprocess.run(['git', '-C', repo, 'worktree', 'add', '--detach', wt, 'HEAD'], capture_output=True, check=True)
        try:
            path = os.path.join(wt, fn)
            src = open(path).read()
            if src.count(old) != 1:
                print('MUTANT %-55s NOT APPLICABLE (%d matches)' % (name, src.count(old)))
                continue
            open(path, 'w').write(src.replace(old, new))
            env = dict(os.environ, VERIF_REPO=wt, PYTHONPATH=here + ':' + wt, PYTHONHASHSEED='0')
            p = subprocess.run(['/venv/bin/python', '-W', 'ignore', '-m', 'drivers.scope_ftp', 'check', 'quick'], cwd=here,
                               env=env, capture_output=True, text=True)
            sigs = [l[4:] for l in p.stdout.splitlines() if l.startswith('SIG ')]
            res = [l for l in p.stdout.splitlines() if l.startswith('RESULT ')]
            rules = sorted(set(json.loads(s.rsplit(' x', 1)[0]).get('rule', json.loads(s.rsplit(' x', 1)[0])['clause']) for s in sigs))
            print('MUTANT %-55s %s rules=%s %s' % (name, 'CAUGHT' if sigs else 'MISSED', ','.join(rules), res[0] if res else p.stderr[-400:]))
        finally:
            subprocess.run(['git', '-C', repo, 'worktree', 'remove', '--force', wt], capture_output=True)
            shutil.rmtree(wt, ignore_errors=True)


if __name__ == '__main__':
    import sys
    from harness import wpull_compat  # noqa: F401
    if sys.argv[1] == 'check':
        _standalone(sys.argv[2] if len(sys.argv) > 2 else 'quick')
    elif sys.argv[1] == 'mutants':
        _mutants(sys.argv[2:])
