"""C05 / C07 on archives written by COMPLETE CRAWLS: the real application (Builder -> Application.run) crawls a scripted
site with --warc-file/--warc-cdx, concurrency 1..3 (overlapping sessions, rollover while a fetch is in flight); the files
are read by the independent reader of drivers/warcwriter_reader.py and judged by WarcWriterMon like any other execution."""
import json
import os
import random
import shutil
import tempfile

from harness import tlc
from drivers import crawl_scen as cs
from drivers import warcwriter_exec as wx
from drivers import warcwriter_reader as rd


def scenarios(quick):
    U = cs.U
    site = [U(1, links=[2, 3, 4, dict(to=5, inline=1)]), U(2, links=[6, 7]), U(3, kind='redirect', rto=6),
            U(4, links=[dict(to=8, inline=1), 1]), U(5), U(6, links=[9]), U(7, kind='notfound'), U(8), U(9)]
    out = []
    for n, wargs in ((1, []), (2, []), (3, ['--no-warc-compression']), (2, ['--warc-max-size', '1500']),
                     (3, ['--warc-max-size', '900', '--no-warc-compression'])):
        out.append((cs.scenario('warc-crawl-N%d%s' % (n, '-'.join(wargs)), site, dict(pagereq=1), N=n), wargs))
    if not quick:
        wide = [U(1, links=list(range(2, 14)))] + [U(i, links=[1, (i % 12) + 2]) for i in range(2, 14)]
        for n in (2, 4):
            out.append((cs.scenario('warc-wide-N%d' % n, wide, N=n), ['--warc-max-size', '3000']))
    return out


def one(scn, wargs, seed):
    from drivers.crawl_exec import CrawlRun
    base = tempfile.mkdtemp(prefix='cw_')
    try:
        for d in ('w', 'tmp', 'moved', 'dl'):
            os.makedirs(os.path.join(base, d))
        db = os.path.join(base, 't.db')
        argv = cs.argv(scn, db, os.path.join(base, 'dl')) + ['--warc-file', os.path.join(base, 'w', 'a'), '--warc-cdx',
                                                              '--warc-tempdir', os.path.join(base, 'tmp')] + wargs
        rng = random.Random(seed)
        r = CrawlRun(cs.site_desc(scn), argv, concurrency=scn['N'], db_path=db,
                     chooser=lambda run: rng.randrange(len(run.pending)), cwd=base)
        r.execute()
        x = wx.Exec({'params': {}, 'runs': []}, base=base)
        for url, data in r.wire.items():
            head, _, body = data.partition(b'\r\n\r\n')
            hl = len(head) + 4
            first = head.split(b'\r\n', 1)[0].split()
            mime = '-'
            for ln in head.split(b'\r\n')[1:]:
                if ln.lower().startswith(b'content-type:'):
                    mime = ln.split(b':', 1)[1].split(b';')[0].strip().decode('latin-1').lower()
            x.wire[url] = {'hl': hl, 'bd': rd.b32sha1(body), 'status': int(first[1]), 'mime': mime, 'shape': 'canon',
                           'k': 'http', 'body': 'text', 'hdrclass': 'over4k' if hl > 4096 else 'short'}
        ch, _ = x.delta()
        full = x.full_projection()
        nresp = sum(1 for f in full['files'] for m in f['m'] if m.get('t') == 'response')
        return {'ev': [{'e': 'end', 'how': 'closed', 'run': 0, 'ch': ch, 'hasfull': True, 'full': full}]}, r.outcome, nresp
    finally:
        shutil.rmtree(base, ignore_errors=True)


def run(chk, prop, clauses, mon_cfg, quick):
    traces, meta = [], []
    for scn, wargs in scenarios(quick):
        for k in range(2 if quick else 6):
            t, outcome, nresp = one(scn, wargs, chk.seed * 1000 + k)
            if outcome != 'ok' or nresp == 0:
                raise tlc.TLCError('crawl with WARC output did not complete (%s, %d response records) for %s'
                                   % (outcome, nresp, scn['name']))
            traces.append(t)
            meta.append((scn, wargs, k, nresp))
    verdicts, stats = tlc.validate_batch('WarcWriterMon', mon_cfg % prop, traces)
    chk.trace_stats(stats)
    for (scn, wargs, k, nresp), v in zip(meta, verdicts):
        chk.case()
        chk.validated(1)
        chk.distinct.add('crawl:%s:%d' % (scn['name'], k))
        if v['matched'] < v['len']:
            raise tlc.TLCError('monitor did not consume a crawl trace: %r' % (v,))
        if v['bad']:
            for b in [i + 1 for i in range(14) if (v['bad'] >> i) & 1]:
                chk.violation({'clause': clauses[prop][b], 'via': 'crawl'},
                              '%s is false on the archive written by a complete crawl (%s, warc options %s, answer order %d)'
                              % (clauses[prop][b], scn['name'], wargs, k),
                              {'scenario': scn, 'warc_args': wargs, 'order_seed': k})
    chk.extra['crawl_archives'] = {'crawls': len(traces), 'response_records': sum(m[3] for m in meta)}
