"""Seeded random operation histories over ARBITRARY url strings and property values (code -> spec direction).

The history is generated while it is executed (the generator looks at the table contents read back after the
previous call, only to aim calls at interesting rows: in-progress URLs for check_in, stored URLs for re-adds ...);
it is a pure function of the seed.  The concrete history and its string dictionary are kept for the replay file.
"""
import random

from drivers.urltable_exec import Runner, Strings

STATUSES = ['todo', 'in_progress', 'done', 'error', 'skipped']
LINK_TYPES = ['html', 'css', 'javascript', 'media', 'sitemap', 'file', 'directory']

_HOSTS = ['example.com', 'a.example', 'EXAMPLE.com', 'xn--tda.example', '\u00fc.example', '[::1]', '127.0.0.1',
          'user:pw@h.example', 'h.example:8080', 'a.b.c.d.example', 'ex-ample.co.uk', '\u4f8b\u3048.jp']
_PATHS = ['', '/', '/a', '/A', '/a/', '/a b', '/a%20b', '/%zz%', '/%41', '/%', "/it's", '/"q"', '/?', '/?a=1?b=2',
          '/?q=\u00e9&r=e\u0301', '/#frag', '/a#', "/'; DROP TABLE queued_urls;--", '/%_like', '/\\back', '/tab\there',
          '/\U0001F600', '/\u202eabc', '/x' * 40, '/index.html ', '/index.html', '//double//', '/..', '/a/../b',
          '/;p=1', '/*', '/[x]', '/{y}', '/|', '/\u00a0nbsp']
_SCHEMES = ['http://', 'https://', 'HTTP://', 'ftp://', '//', '']
_NOHOST = ['mailto:someone@example.com', 'javascript:void(0)', 'file:///etc/passwd', 'data:text/plain,hi', 'about:blank',
           'tel:+1-555']
_BAD = ['', ' ', '?', '#', 'http://', 'http://[bad/', 'http://exa mple.com/', 'http://:80/', 'http://h:99999/',
        'http://a/\x00b', 'http://a/\nb', 'http://%41/', 'http://a\\b/', '\t', 'http://\u200b/']
_OTHER = ['', ' ', 'x', 'a=b&c=d', 'dir/file.html', 'C:\\dir\\f', "o'clock", '"', '%', '\u00e9t\u00e9', 'e\u0301',
          '<urn:uuid:12345678-1234-1234-1234-123456789abc>', 'sha1:AAAAAAAAAAAAAAAAAAAAAAAAAAAAAAAA', 'NULL', 'None',
          '0', '\U0001F4A9', 'line1\nline2', ' lead', 'trail ', ';--', 'y' * 300]


def make_url(rng):
    r = rng.random()
    if r < 0.12:
        return rng.choice(_BAD)
    if r < 0.20:
        return rng.choice(_NOHOST) + rng.choice(['', '?x', '#y'])
    u = rng.choice(_SCHEMES) + rng.choice(_HOSTS) + rng.choice(_PATHS)
    if rng.random() < 0.08:
        u += '/' + 'L' * rng.choice([2000, 9000, 40000])      # very long
    if rng.random() < 0.15:
        u += '?' + rng.choice(['', 'a=1', 'a=1&a=2', '%3F', '?', 'x=' + 'z' * 50])
    return u


def make_int(rng, small, nullable=False):
    r = rng.random()
    if nullable and r < 0.35:
        return -1
    if r < 0.85:
        return rng.randrange(small)
    return rng.choice([small, 1000, 65536, 10 ** 6, 2 ** 30])


class Generator(object):
    def __init__(self, seed, nops, mode):
        self.rng = random.Random(seed)
        self.nops = nops
        self.S = Strings()
        self.R = Runner(self.S, mode)
        rng = self.rng
        nurl = rng.randrange(10, 21)
        urls = []
        while len(urls) < nurl:
            t = self.S.tok(make_url(rng))
            if t not in urls and t != 0:
                urls.append(t)
        self.urls = urls
        self.other = [self.S.tok(s) for s in rng.sample(_OTHER, 8)]
        self.history = []
        self.last_fid = 1

    # ---------------------------------------------------------------- argument makers
    def any_url(self):
        return self.rng.choice(self.urls)

    def stored(self):
        return list(self.R.prev)

    def with_status(self, st):
        return [u for u, r in self.R.prev.items() if r['st'] == st]

    def ostr(self, none=0.3):
        return 0 if self.rng.random() < none else self.rng.choice(self.other)

    def entry(self):
        rng = self.rng
        e = {'u': self.any_url(), 'hp': rng.random() < 0.6, 'par': 0, 'root': 0, 'st': 'none', 'try': -1, 'lv': -1,
             'il': -1, 'lt': 'none', 'pr': -1, 'post': self.ostr(0.7)}
        if e['hp']:
            r = rng.random()
            if r < 0.7:
                e['par'] = self.any_url()
                e['root'] = self.any_url()
            elif r < 0.8:
                e['par'] = rng.choice([0, 1, self.any_url(), rng.choice(self.other)])
                e['root'] = rng.choice([0, 1, self.any_url(), rng.choice(self.other)])
            e['st'] = rng.choice(['none', 'none', 'none'] + STATUSES)
            e['try'] = make_int(rng, 4, True)
            e['lv'] = make_int(rng, 6, True)
            e['il'] = make_int(rng, 3, True)
            e['lt'] = rng.choice(['none', 'none'] + LINK_TYPES)
            e['pr'] = make_int(rng, 5, True)
        return e

    def next_op(self):
        rng = self.rng
        r = rng.random()
        if r < 0.24 or not self.R.prev and r < 0.6:
            k = rng.choice([0, 1, 1, 1, 2, 2, 3, 5, 8])
            batch = [self.entry() for _ in range(k)]
            if batch and rng.random() < 0.4:               # internal duplicate, different properties
                d = self.entry()
                d['u'] = rng.choice(batch)['u']
                batch.insert(rng.randrange(len(batch) + 1), d)
            if batch and rng.random() < 0.3 and self.stored():   # re-add of a stored URL
                d = self.entry()
                d['u'] = rng.choice(self.stored())
                batch.insert(rng.randrange(len(batch) + 1), d)
            return {'op': 'add_many', 'batch': batch}
        if r < 0.40:
            lv = -1 if rng.random() < 0.5 else make_int(rng, 7)
            return {'op': 'check_out', 'st': rng.choice(['todo', 'todo', 'todo', 'error', 'error'] + STATUSES), 'lv': lv}
        if r < 0.60:
            cand = self.with_status('in_progress')
            u = rng.choice(cand) if cand and rng.random() < 0.7 else self.any_url()
            hr = rng.random() < 0.6
            o = {'op': 'check_in', 'u': u, 'st': rng.choice(['done', 'done', 'error', 'skipped'] + STATUSES),
                 'inc': rng.random() < 0.6, 'hr': hr, 'fn': self.ostr(0.4) if hr else 0,
                 'code': make_int(rng, 600, True) if hr else -1, 'dflt': rng.random() < 0.5}
            return o
        if r < 0.65:
            kv = {'st': 'absent', 'try': -2, 'lv': -2, 'il': -2, 'lt': 'absent', 'pr': -2, 'post': -2, 'code': -2, 'fn': -2}
            for key in rng.sample(sorted(kv), rng.randrange(1, 4)):
                if key == 'st':
                    kv[key] = rng.choice(STATUSES)
                elif key == 'lt':
                    kv[key] = rng.choice(['none'] + LINK_TYPES)
                elif key in ('post', 'fn'):
                    kv[key] = self.ostr(0.3)
                elif key in ('il', 'code'):
                    kv[key] = make_int(rng, 5, True)
                else:
                    kv[key] = make_int(rng, 6)
            return {'op': 'update_one', 'u': self.any_url(), 'kv': kv}
        if r < 0.69:
            return {'op': 'release'}
        if r < 0.76:
            k = rng.choice([0, 1, 1, 1, 2, 3])
            st = self.stored()
            urls = [rng.choice(st) if st and rng.random() < 0.7 else self.any_url() for _ in range(k)]
            return {'op': 'remove_many', 'urls': urls}
        if r < 0.80:
            return {'op': 'reopen'}
        if r < 0.84:
            return {'op': 'add_visits', 'vs': [[self.any_url(), rng.choice(self.other), rng.choice(self.other[:3])]
                                               for _ in range(rng.choice([0, 1, 2, 3]))]}
        if r < 0.88:
            return {'op': 'get_revisit_id', 'u': self.any_url(), 'dg': rng.choice(self.other[:3])}
        if r < 0.95:
            k = rng.choice(['count', 'get_all', 'get_hostnames', 'root_todo', 'get_one', 'get_one', 'contains'])
            o = {'op': k}
            if k in ('get_one', 'contains'):
                o['u'] = self.any_url()
            return o
        if r < 0.98:
            return {'op': 'convert_check_out'}
        return {'op': 'convert_check_in', 'fid': rng.choice([self.last_fid, 1, 2, 3]), 'st': rng.choice(STATUSES)}

    def run(self):
        try:
            while len(self.history) < self.nops:
                o = self.next_op()
                ev = self.R.step(o)
                if ev is None:
                    continue        # reopen on an in-memory table: not applicable
                self.history.append(o)
                if o['op'] == 'convert_check_out' and ev['res']['k'] == 'ok':
                    self.last_fid = ev['res']['n']
        finally:
            self.R.close()
        return {'ev': self.R.events, 'host': self.S.hosts(), 'mode': self.R.mode, 'strings': self.S.strings,
                'history': self.history}
