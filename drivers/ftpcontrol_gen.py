"""Scenario sources for C17: TLC-generated server strategies (FtpControlGen.tla) and the systematic enumerators
(URL alphabet x position, reply shape x step x cut).  A scenario is the dict described in ftpcontrol_exec.py."""
import itertools
import json
import re

from harness import tlc

ALL_SHAPES = ['single', 'multi', 'multi_sp', 'multi_dig', 'lf', 'multi_lf', 'cr_in', 'cr_code', 'other']
ALPHABET = {'P': 97, 'CR': 13, 'LF': 10, 'NUL': 0, 'SP': 32, 'PCT': 37}
A1 = b'(10,0,0,1,4,1)'
A2 = b'(10,0,0,1,4,2)'


def constants(reject, arglen, shapes, maxodd, cut, sess, maxdata, drops, modes):
    return ('CONSTANTS RejectCtl = %s ArgLen = %d Shapes = {%s} MaxOdd = %d CutMode = "%s" MaxSess = %d MaxData = %d '
            'Drops = %s Modes = {%s}\n'
            % ('TRUE' if reject else 'FALSE', arglen, ', '.join('"%s"' % x for x in shapes), maxodd, cut, sess, maxdata,
               'TRUE' if drops else 'FALSE', ', '.join('"%s"' % x for x in modes)))


def shape_bytes(code, text, shape):
    """Must agree with ShapeBytes of FtpControl.tla (checked by the strict trace spec only through behaviour)."""
    d = b'%03d' % code
    t = bytes(text)
    return {
        'single': d + b' ' + t + b'\r\n',
        'multi': d + b'-x\r\n' + d + b' ' + t + b'\r\n',
        'multi_sp': d + b'-x\r\n y\r\n' + d + b' ' + t + b'\r\n',
        'multi_dig': d + b'-x\r\n' + d + b'9\r\n' + d + b'-z\r\n' + d + b' ' + t + b'\r\n',
        'lf': d + b' ' + t + b'\n',
        'multi_lf': d + b'-x\n' + d + b' ' + t + b'\n',
        'cr_in': d + b' q\r' + t + b'\r\n',
        'cr_code': d + b' q\r' + d + b' ' + t + b'\r\n',
        'other': d + b'-x\r\n299 w\r\n' + d + b' ' + t + b'\r\n',
        # (driver-only shapes: not in the TLA+ Shapes vocabulary, used by the systematic enumerators)
        # a continuation line that is blank-padded and then looks like a final line ("DDD text" after white space)
        'multi_padcode': d + b'-x\r\n 226 y\r\n\t' + d + b' z\r\n' + d + b' ' + t + b'\r\n',
        # characters that str.splitlines() treats as line ends, inside a line of a multi-line reply and followed by
        # what would look like a final line: the only line ends of the control connection are CR LF / LF
        'multi_ff': d + b'-x\x0c226 y\r\n' + d + b' ' + t + b'\r\n',
        'multi_vt': d + b'-x\x0b226 y\r\n' + d + b' ' + t + b'\r\n',
        'multi_fs': d + b'-x\x1c226 y\x1d226 z\x1e226 w\r\n' + d + b' ' + t + b'\r\n',
        'multi_nel': d + b'-x\xc2\x85226 y\r\n' + d + b' ' + t + b'\r\n',
        'multi_ls': d + b'-x\xe2\x80\xa8226 y\xe2\x80\xa9226 z\r\n' + d + b' ' + t + b'\r\n',
        'single_ff': d + b' a\x0c226 y\r\n' if False else d + b' ' + t + b'\x0cz\r\n',
        # a line inside a multi-line reply that starts with three non-ASCII decimal digits and a space
        'multi_arabic': d + b'-x\r\n' + '\u0662\u0662\u0666 y'.encode('utf-8') + b'\r\n' + d + b' ' + t + b'\r\n',
        'multi_fullwidth': d + b'-x\r\n' + '\uff12\uff12\uff16 y'.encode('utf-8') + b'\r\n' + d + b' ' + t + b'\r\n',
    }[shape]


EXTRA_SHAPES = ['multi_padcode', 'multi_ff', 'multi_vt', 'multi_fs', 'multi_nel', 'multi_ls', 'single_ff', 'multi_arabic', 'multi_fullwidth']


# ---------------------------------------------------------------------- TLC -> scenario
def hist_to_scenario(hist):
    sc = {'sessions': [], 'replies': [], 'xfers': [], 'cuts': []}
    cur = None
    for h in hist:
        k = h['k']
        if k == 'session':
            sc['sessions'].append({'mode': h['mode'], 'restart': bool(h['restart']), 'user': list(h['user']),
                                   'pass': list(h['pass']), 'path': list(h['path'])})
            cur = None
        elif k == 'reply':
            sc['replies'].append({'b': list(h['b']), 'xfer': bool(h['xfer']), 'drop': bool(h['drop'])})
            if h['xfer']:
                cur = {'eager_final': False, 'moves': []}
                sc['xfers'].append(cur)
        elif k == 'cut':
            sc['cuts'].append(int(h['n']))
        elif k == 'final':
            if cur is not None:
                cur['moves'].append(['final', list(h['b'])] + ([True] if h.get('drop') else []))
                if h.get('eager'):
                    cur['eager_final'] = True
        elif k == 'data':
            if cur is not None:
                cur['moves'].append(['data', int(h['n'])])
        elif k == 'close':
            if cur is not None:
                cur['moves'].append(['close'])
    return sc


def tlc_scenarios(reject, arglen, shapes, maxodd, cut, sess, maxdata, drops, modes, simulate=None, seed=0, timeout=900,
                  workers=4):
    cfg = ('SPECIFICATION GSpec\n' + constants(reject, arglen, shapes, maxodd, cut, sess, maxdata, drops, modes)
           + 'CONSTANTS Bias = %s\nCONSTRAINT Emit\nCHECK_DEADLOCK FALSE\n' % ('TRUE' if simulate else 'FALSE'))
    if simulate:
        res = tlc.run_tlc('FtpControlGen', cfg, workers=1, simulate=simulate, depth=400, seed=seed, timeout=timeout)
    else:
        res = tlc.run_tlc('FtpControlGen', cfg, workers=workers, timeout=timeout, heap='3g')
    out = []
    seen = set()
    for m in re.finditer(r'<<"SCRIPT", "(.*?)">>', res['out']):
        sc = hist_to_scenario(json.loads(m.group(1).replace('\\"', '"')))
        key = json.dumps(sc, sort_keys=True)
        if key not in seen:
            seen.add(key)
            out.append(sc)
    out.sort(key=lambda s: json.dumps(s, sort_keys=True))
    return out, res


# ---------------------------------------------------------------------- systematic enumerators
def happy_replies(mode, restart, login='331', fallback=False):
    """[(step name, code, text)] of a conversation in which everything succeeds."""
    r = [('welcome', 220, b'ok'), ('user', 331 if login == '331' else 230, b'ok')]
    if login == '331':
        r.append(('pass', 230, b'ok'))
    if mode == 'file':
        r.append(('size', 213, b'7'))
        if restart:
            r.append(('rest', 350, b'ok'))
    r += [('type', 200, b'ok'), ('pasv', 227, A1)]
    if mode == 'listing' and fallback:
        r.append(('mlsd', 502, b'ok'))
    r.append(('begin', 150, b'ok'))
    return r


def happy_scenario(sess, shapes=None, final_shape='single', fallback=False, cuts=(), login='331'):
    """One session, everything succeeds; shapes: {step index: shape}."""
    steps = happy_replies(sess['mode'], sess.get('restart'), login=login, fallback=fallback)
    shapes = shapes or {}
    replies = []
    for i, (name, code, text) in enumerate(steps):
        replies.append({'b': list(shape_bytes(code, text, shapes.get(i, 'single'))), 'xfer': name == 'begin', 'drop': False})
    return {'sessions': [sess], 'replies': replies,
            'xfers': [{'eager_final': False,
                       'moves': [['data', 2], ['close'], ['final', list(shape_bytes(226, b'ok', final_shape))]]}],
            'cuts': list(cuts)}


def strings(alphabet, maxlen):
    for n in range(0, maxlen + 1):
        for t in itertools.product(alphabet, repeat=n):
            yield list(t)


def url_scenarios(maxlen):
    """Every alphabet string up to maxlen in user / password / path position, in a conversation that succeeds."""
    alpha = [ALPHABET[k] for k in ('P', 'CR', 'LF', 'NUL', 'SP', 'PCT')]
    for arg in strings(alpha, maxlen):
        for pos in ('user', 'pass', 'path'):
            for mode, restart, fb in (('file', True, False), ('listing', False, True)):
                sess = {'mode': mode, 'restart': restart, 'user': [], 'pass': [], 'path': [97]}
                if pos == 'pass':
                    sess['user'] = [117]
                sess[pos] = list(arg)
                sc = happy_scenario(sess, fallback=fb)
                sc['origin_detail'] = {'pos': pos}
                yield sc
    # the example of the property statement: CR LF and a second command in every position at once
    inj = list(b'a\r\nDELE x')
    yield happy_scenario({'mode': 'file', 'restart': False, 'user': list(b'us\rer'), 'pass': list(b'pa\nss'), 'path': inj})
    yield happy_scenario({'mode': 'listing', 'restart': False, 'user': inj, 'pass': inj, 'path': inj}, fallback=True)


def compositions(n):
    """All ways to cut n bytes into pieces (lists of piece lengths)."""
    for mask in range(1 << (n - 1)):
        out = []
        run = 1
        for i in range(n - 1):
            if mask >> i & 1:
                out.append(run)
                run = 1
            else:
                run += 1
        out.append(run)
        yield out


def cut_scenarios(shapes, steps_of, all_compositions_upto=0):
    """A conversation that succeeds, with one reply in a non-trivial shape, delivered with every two-piece cut,
    byte by byte, and (short replies) in every composition."""
    bases = [({'mode': 'file', 'restart': True, 'user': [], 'pass': [], 'path': [97]}, False),
             ({'mode': 'listing', 'restart': False, 'user': [117], 'pass': [112], 'path': []}, True)]
    for sess, fb in bases:
        steps = happy_replies(sess['mode'], sess.get('restart'), fallback=fb)
        nsteps = len(steps) + 1          # + the closing reply
        for shape in shapes:
            for i in steps_of(nsteps):
                if i < len(steps):
                    base = happy_scenario(sess, shapes={i: shape}, fallback=fb)
                    n = len(base['replies'][i]['b'])
                    before = sum(len(r['b']) for r in base['replies'][:i])
                else:
                    base = happy_scenario(sess, final_shape=shape, fallback=fb)
                    n = len(base['xfers'][0]['moves'][-1][1])
                    before = sum(len(r['b']) for r in base['replies'])
                lead = [len(r['b']) for r in base['replies'][:i]] if i < len(steps) else [len(r['b']) for r in base['replies']]
                variants = [[k, n - k] for k in range(1, n)] + [[1] * n]
                if n <= all_compositions_upto:
                    variants = list(compositions(n))
                for v in variants:
                    sc = json.loads(json.dumps(base))
                    sc['cuts'] = lead + v
                    yield sc


def long_line_scenarios(limit=256):
    """A multi-line reply whose continuation line is longer than the stream reader's line limit (scaled down from
    asyncio's 64 KiB to `limit`), delivered whole and cut at several places inside and around the long line.  The
    client may refuse such a reply (protocol error) - but what it does must not depend on where the stream is cut."""
    sess = {'mode': 'file', 'restart': False, 'user': [], 'pass': [], 'path': [97]}
    steps = happy_replies(sess['mode'], sess.get('restart'))
    for i in (0, len(steps) - 1):
        name, code, text = steps[i]
        d = b'%03d' % code
        long_reply = d + b'-x\r\n' + b'y' * (limit + 44) + b'\r\n' + d + b' ' + bytes(text) + b'\r\n'
        base = happy_scenario(sess)
        base['replies'][i]['b'] = list(long_reply)
        base['reader_limit'] = limit
        n = len(long_reply)
        lead = [len(r['b']) for r in base['replies'][:i]]
        for v in [[n]] + [[k, n - k] for k in (3, 7, 8, 100, limit - 1, limit, limit + 1, limit + 30, n - 12, n - 7)] + [[1] * n]:
            sc = json.loads(json.dumps(base))
            sc['cuts'] = lead + v
            yield sc


def torn_scenarios():
    """The control connection ends in the middle of a reply: the reply of step i (or the closing reply of the
    transfer) lacks its last k bytes (1: the LF, 2: CR LF, 3: part of the text too) and nothing follows."""
    bases = [({'mode': 'file', 'restart': True, 'user': [], 'pass': [], 'path': [97]}, False),
             ({'mode': 'listing', 'restart': False, 'user': [117], 'pass': [112], 'path': []}, True)]
    for sess, fb in bases:
        steps = happy_replies(sess['mode'], sess.get('restart'), fallback=fb)
        for k in (1, 2, 3):
            for i in range(len(steps)):
                sc = happy_scenario(sess, fallback=fb)
                sc['replies'] = sc['replies'][:i + 1]
                sc['replies'][i] = dict(sc['replies'][i], b=sc['replies'][i]['b'][:-k], drop=True, xfer=False)
                sc['xfers'] = []
                yield sc
            for order in ('after', 'before', 'eager'):
                sc = happy_scenario(sess, fallback=fb)
                fin = ['final', list(shape_bytes(226, b'ok', 'single'))[:-k], True]
                if order == 'after':
                    moves = [['data', 2], ['close'], fin]
                else:
                    moves = [fin, ['data', 2], ['close']]
                sc['xfers'] = [{'eager_final': order == 'eager', 'moves': moves}]
                yield sc


def stall_scenarios():
    """The data connection stalls (the server neither sends the rest nor closes) while the client has a read time-out;
    the closing reply is already on the control connection, or comes later, or never.  However the client ends the
    wait, it must not report the transfer complete: the server never ended the data connection."""
    bases = [({'mode': 'file', 'restart': False, 'user': [], 'pass': [], 'path': [97]}, False),
             ({'mode': 'listing', 'restart': False, 'user': [117], 'pass': [112], 'path': []}, True)]
    for sess, fb in bases:
        for moves, eager in (([['final', list(shape_bytes(226, b'ok', 'single'))], ['data', 1]], True),
                             ([['data', 1], ['final', list(shape_bytes(226, b'ok', 'single'))]], False),
                             ([['data', 2]], False),
                             ([['final', list(shape_bytes(226, b'ok', 'single'))]], True)):
            sc = happy_scenario(sess, fallback=fb)
            sc['xfers'] = [{'eager_final': eager, 'moves': moves}]
            sc['read_timeout'] = 5
            yield sc


def timing_pairs():
    """The same server strategy - data, close of the data connection, the complete closing reply, close of the control
    connection - with the closing reply (and the control close) arriving BEFORE the data has been read, or after.
    What the client makes of the reply must not depend on when it reads it.  -> [(reference scenario, scenario)]"""
    bases = [({'mode': 'file', 'restart': False, 'user': [], 'pass': [], 'path': [97]}, False),
             ({'mode': 'listing', 'restart': False, 'user': [117], 'pass': [112], 'path': []}, True)]
    fin = ['final', list(shape_bytes(226, b'ok', 'single')), True]       # complete line, then the control connection closes
    for sess, fb in bases:
        late = happy_scenario(sess, fallback=fb)
        late['xfers'] = [{'eager_final': False, 'moves': [['data', 2], ['close'], fin]}]
        for moves, eager in (([fin, ['data', 2], ['close']], True), ([['data', 1], fin, ['data', 1], ['close']], False)):
            for ee in (False, True):
                early = happy_scenario(sess, fallback=fb)
                early['xfers'] = [{'eager_final': eager, 'moves': moves}]
                early['eager_eof'] = ee          # the control connection's end is known together with its last octets
                yield late, early


def strip_cuts(sc):
    c = {k: v for k, v in sc.items() if k not in ('cuts', 'origin_detail')}
    return c
