"""Seeded mutants for C14 (vacuity guard of the property clauses).  Not part of any verdict.

    cd /verif && /venv/bin/python drivers/urltable_mutants.py [name ...]

Each mutant is a one-line patch applied to a scratch git worktree of the code under test (never to /repo); the
quick check is run against it (VERIF_REPO, light mode: no design checks) and the signatures of its VIOLATION
lines are compared with those of the unmodified tree.  evidence/C14.json and replays/C14 are restored afterwards.
"""
import json
import os
import re
import shutil
import subprocess
import sys
import tempfile

HERE = os.path.dirname(os.path.dirname(os.path.abspath(__file__)))
REPO = os.environ.get('VERIF_REPO', '/repo')
T, M, W, B = 'wpull/database/sqltable.py', 'wpull/database/sqlmodel.py', 'wpull/database/wrap.py', 'wpull/database/base.py'

MUTANTS = [
    ('insert-or-replace', T, "query = insert(QueuedURL).prefix_with('OR IGNORE').values(bind_values)",
     "query = insert(QueuedURL).prefix_with('OR REPLACE').values(bind_values)", 'ReAddIsNoop'),
    ('release-touches-error', T, ".where(QueuedURL.status==Status.in_progress.value)",
     ".where(QueuedURL.status.in_([Status.in_progress.value, Status.error.value]))", 'ReleaseExact'),
    ('checkout-level-le', T, "QueuedURL.level < level,", "QueuedURL.level <= level,", 'CheckOutMarks'),
    ('checkout-ignores-level', T, "            if level is None:\n", "            if True:\n", 'CheckOutMarks'),
    ('checkout-not-marked', T, "            url_record.status = Status.in_progress.value\n", "", 'CheckOutMarks'),
    ('try-count-twice', T, "values[QueuedURL.try_count] = QueuedURL.try_count + 1",
     "values[QueuedURL.try_count] = QueuedURL.try_count + 2", 'CheckInStatusTry'),
    ('checkin-skipped-as-done', T, "                QueuedURL.status: new_status.value\n",
     "                QueuedURL.status: 'done' if new_status == Status.skipped else new_status.value\n", 'CheckInStatusTry'),
    ('remove-only-first', T, "                query = delete(QueuedURL).where(QueuedURL.url_string_id == url_str_id)\n"
                             "                session.execute(query)\n",
     "                query = delete(QueuedURL).where(QueuedURL.url_string_id == url_str_id)\n"
     "                session.execute(query)\n                break\n", 'RemoveExact'),
    ('inserted-ge', M, "and_(QueuedURL.id > last_primary_key,", "and_(QueuedURL.id >= last_primary_key,",
     'AddManyReportsExactlyNew'),
    ('revisit-ignores-digest', M, "                WARCVisit.payload_digest == payload_digest\n",
     "                WARCVisit.payload_digest != None\n", 'VisitSound'),
    ('count-url-strings', T, "return session.query(QueuedURL).count()", "return session.query(URLString).count()",
     'ReadAgree'),
    ('get-all-hides-skipped', T, "for item in session.query(QueuedURL):",
     "for item in session.query(QueuedURL).filter(QueuedURL.status != 'skipped'):", 'ReadAgree'),
    ('reopen-loses-file', T, "'sqlite:///{0}'.format(escaped_path), poolclass=SingletonThreadPool)",
     "'sqlite://', poolclass=SingletonThreadPool)", 'ReopenIdentity'),
    ('wrapper-drops-level', W, "url_record = self.url_table.check_out(filter_status, filter_level)",
     "url_record = self.url_table.check_out(filter_status)", 'CheckOutMarks'),
    ('wrapper-drops-increment', W, "increment_try_count=increment_try_count, url_result=url_result)",
     "url_result=url_result)", 'CheckInStatusTry'),
    ('wrapper-drops-result', W, "increment_try_count=increment_try_count, url_result=url_result)",
     "increment_try_count=increment_try_count)", 'CheckInResult'),
    ('wrapper-truncates-batch', W, "added_urls = tuple(self.url_table.add_many(urls))",
     "added_urls = tuple(self.url_table.add_many(list(urls)[:2]))", 'AddManyReportsExactlyNew'),
    ('contains-always-true', B, "        except NotFound:\n            return False", "        except NotFound:\n            return True",
     'ReadAgree'),
    ('update-also-resets-try', T, "            for key, value in kwargs.items():\n                values[getattr(QueuedURL, key)] = value\n",
     "            for key, value in kwargs.items():\n                values[getattr(QueuedURL, key)] = value\n"
     "            values.setdefault(QueuedURL.try_count, 0)\n", 'UpdateExact'),
    ('add-ignores-level', T, "                convert_dict_enum_values(row_values)\n",
     "                convert_dict_enum_values(row_values)\n                row_values.pop('level', None)\n", 'NewRowAsGiven'),
    ('checkin-updates-all-rows', T, "            query = update(QueuedURL).values(values)\\\n                .where(QueuedURL.url_string_id == subquery)\n\n"
                                    "            session.execute(query)\n\n            if new_status == Status.done",
     "            query = update(QueuedURL).values(values)\n\n"
     "            session.execute(query)\n\n            if new_status == Status.done", 'CheckInOthersSame'),
    ('failed-call-commits', T, "        except:\n            session.rollback()\n", "        except:\n            session.commit()\n",
     'FailureAtomic'),
    ('url-not-unique', M, "        nullable=False, unique=True, index=True,\n        doc='Target URL to fetch'",
     "        nullable=False, index=True,\n        doc='Target URL to fetch'", 'StoredOnce'),
    # model-only differences: must give MODEL-DRIFT, not VIOLATION
    ('DRIFT-checkout-highest-id', T, "                    status=filter_status.value).first()",
     "                    status=filter_status.value).order_by(QueuedURL.id.desc()).first()", None),
    ('DRIFT-no-default-root', T, "                    row_values['root_url'] = url\n", "                    row_values['root_url'] = None\n", None),
]

_RE_SIG = re.compile(r'^  signature=(\{.*?\}) count=(\d+)', re.M)


def run_check(repo):
    env = dict(os.environ, VERIF_REPO=repo, VERIF_C14_LIGHT='1')
    p = subprocess.run([os.path.join(HERE, 'check'), 'C14', '--tier', 'quick'], cwd=HERE, env=env,
                       stdout=subprocess.PIPE, stderr=subprocess.STDOUT)
    out = p.stdout.decode('utf-8', 'replace')
    sigs = {m.group(1): int(m.group(2)) for m in _RE_SIG.finditer(out)}
    drift = len(re.findall(r'^MODEL-DRIFT', out, re.M))
    return p.returncode, sigs, drift, out


def main():
    only = set(sys.argv[1:])
    keep = tempfile.mkdtemp(prefix='c14_keep_')
    wt = tempfile.mkdtemp(prefix='wt_c14_')
    os.rmdir(wt)
    ev = os.path.join(HERE, 'evidence', 'C14.json')
    rp = os.path.join(HERE, 'replays', 'C14')
    if os.path.exists(ev):
        shutil.copy(ev, keep)
    if os.path.isdir(rp):
        shutil.copytree(rp, os.path.join(keep, 'replays'))
    subprocess.check_call(['git', '-C', REPO, 'worktree', 'add', '--detach', wt, 'HEAD'], stdout=subprocess.DEVNULL,
                          stderr=subprocess.DEVNULL)
    results = []
    try:
        rc, base, bdrift, out = run_check(wt)
        if rc == 2:
            print(out[-3000:])
            raise SystemExit('baseline run failed')
        print('baseline: rc=%d drift=%d signatures=%s' % (rc, bdrift, sorted(base)))
        for name, path, old, new, expect in MUTANTS:
            if only and name not in only:
                continue
            f = os.path.join(wt, path)
            src = open(f).read()
            if src.count(old) != 1:
                print('%-28s PATCH DOES NOT APPLY (%d matches)' % (name, src.count(old)))
                results.append((name, 'not-applied'))
                continue
            open(f, 'w').write(src.replace(old, new))
            try:
                rc, sigs, drift, out = run_check(wt)
            finally:
                open(f, 'w').write(src)
            new_sigs = sorted(s for s in sigs if s not in base)
            clauses = sorted({json.loads(s)['clause'] for s in new_sigs})
            if rc == 2:
                verdict = 'MACHINERY-FAILURE'
                print(out[-1500:])
            elif expect is None:
                verdict = 'drift-only' if not new_sigs and drift > bdrift else ('VIOLATION(unexpected)' if new_sigs else 'missed')
            else:
                verdict = 'caught' if new_sigs else ('drift-only' if drift > bdrift else 'MISSED')
            print('%-28s %-10s expected=%s new clauses=%s drift=%d' % (name, verdict, expect, clauses, drift))
            for s in new_sigs[:6]:
                print('      VIOLATION %s x%d' % (s, sigs[s]))
            results.append((name, verdict))
    finally:
        subprocess.call(['git', '-C', REPO, 'worktree', 'remove', '--force', wt], stdout=subprocess.DEVNULL,
                        stderr=subprocess.DEVNULL)
        if os.path.exists(os.path.join(keep, 'C14.json')):
            shutil.copy(os.path.join(keep, 'C14.json'), ev)
        if os.path.isdir(os.path.join(keep, 'replays')):
            shutil.rmtree(rp, ignore_errors=True)
            shutil.copytree(os.path.join(keep, 'replays'), rp)
        shutil.rmtree(keep, ignore_errors=True)
    print(json.dumps(results))


if __name__ == '__main__':
    main()
