"""C19 - streaming content decoding equals one-shot decoding for every split.

1. design check (TLC, Decoder.tla, structural profiles): the model of the code AS IT IS satisfies C19 except in
   exactly the two known ways (AsIs* invariants); the model of the proposed repair satisfies it except for a
   stated residue.
2. spec -> code: real zlib-produced bodies (gzip / zlib / raw deflate / identity; several payloads and levels;
   every truncation; single-byte corruptions; crafted raw bodies that pass the zlib header check) are measured by
   a reference probe; DecoderGen.tla instantiated with these profiles makes TLC enumerate EVERY composition of
   each body (bodies <= FullN bytes; longer ones: every cut set in the leading Zone + at most MaxPieces pieces);
   each behaviour is replayed into the real GzipDecompressor / DeflateDecompressor and through the real
   Stream.read_body over fakenet (each piece = one read).
3. code -> spec: every recorded run is validated by TLC twice: DecoderMon (C19's clauses on the observed bytes and
   error against the one-shot reference: decides VIOLATION) and DecoderTrace (is it a behaviour of Decoder.tla
   with the measured profile: decides DRIFT).
"""
import json
import os
import random
import re
import tempfile
from concurrent.futures import ThreadPoolExecutor

from harness import tlc
from drivers import decoder_exec as X

CLAUSES = {1: 'NoSpuriousError', 2: 'OutputEqual', 3: 'ErrorReported', 4: 'ErrorClass', 5: 'WholeBodyFed',
           6: 'WellFormed'}
DECODER = {'gzip': 'GzipDecompressor', 'deflate': 'DeflateDecompressor', 'none': 'none'}

# Decoder.tla describes the code as it is; flip when the corresponding repair has been committed to /repo
FIX_FALLBACK = os.environ.get('VERIF_C19_FIX_FALLBACK', 'TRUE')
FIX_EOF = os.environ.get('VERIF_C19_FIX_EOF', 'TRUE')


def design_cfg(fix_fallback, fix_eof, maxp, invs):
    return ('SPECIFICATION Spec\nCONSTANTS FixFallback = %s FixEof = %s StrictTrailer = FALSE MaxP = %d\n%s'
            'CHECK_DEADLOCK FALSE\n' % (fix_fallback, fix_eof, maxp, ''.join('INVARIANT %s\n' % i for i in invs)))


def generate(bodies, full_n, zone, max_pieces):
    """TLC enumerates the behaviours of Decoder.tla on the measured profiles."""
    tf = tempfile.NamedTemporaryFile('w', suffix='.json', delete=False)
    try:
        json.dump([{'prof': b.prof, 'dec': b.dec} for b in bodies], tf)
        tf.close()
        cfg = ('SPECIFICATION GSpec\nCONSTANTS FixFallback = %s FixEof = %s StrictTrailer = FALSE MaxP = 1 '
               'FullN = %d Zone = %d MaxPieces = %d\nCONSTRAINT Emit\nCHECK_DEADLOCK FALSE\n'
               % (FIX_FALLBACK, FIX_EOF, full_n, zone, max_pieces))
        res = tlc.run_tlc('DecoderGen', cfg, workers=4, timeout=1200, env={'BODIES_FILE': tf.name}, heap='3g')
    finally:
        os.unlink(tf.name)
    tlc.require_ok(res, 'scenario generation DecoderGen')
    scripts = []
    for m in re.finditer(r'<<"SCRIPT", "(.*?)">>', res['out']):
        d = json.loads(m.group(1).replace('\\"', '"'))
        scripts.append((d['b'] - 1, d['p'], d['o']))
    scripts.sort(key=lambda s: (s[0], s[1]))
    return scripts, res


def trace_of(b, path, ev):
    return {'dec': b.dec, 'path': 'stream' if path != 'class' else 'class', 'n': len(b.data), 'quirk1f': b.quirk1f,
            'ref': b.ref, 'prof': b.prof, 'ev': ev}


def rle(data):
    """Run-length encoding in normal form (adjacent runs differ): [[octet, count], ...]."""
    out = []
    for m in re.finditer(rb'(.)\1*', bytes(data), re.S):
        out.append([m.group(1)[0], len(m.group(0))])
    return out


def big_trace(b, path, ev):
    t = trace_of(b, path, ev)
    t = {k: v for k, v in t.items() if k != 'prof'}
    t['big'] = True
    t['ref'] = dict(t['ref'], out=rle(bytes(t['ref']['out'])))
    t['ev'] = [dict({k: v for k, v in e.items() if k not in ('out', 'total')}, out=[],
                    **({'total': rle(bytes(e['total']))} if 'total' in e else {})) for e in t['ev']]
    return t


def validate(traces):
    mon_cfg = 'SPECIFICATION MSpec\nCONSTANTS StrictTrailer = FALSE\nCONSTRAINT Record\nPOSTCONDITION Post\nCHECK_DEADLOCK FALSE\n'
    str_cfg = ('SPECIFICATION TSpec\nCONSTANTS FixFallback = %s FixEof = %s StrictTrailer = FALSE MaxP = 1\n'
               'CONSTRAINT Record\nPOSTCONDITION Post\nCHECK_DEADLOCK FALSE\n' % (FIX_FALLBACK, FIX_EOF))
    slim = [{k: v for k, v in t.items() if k != 'prof'} for t in traces]
    traces = [dict({k: v for k, v in t.items() if k not in ('ref', 'quirk1f', 'n')},
                   ev=[{k: v for k, v in e.items() if k not in ('out', 'total')} for e in t['ev']]) for t in traces]
    chunks = [(i, min(i + 4000, len(traces))) for i in range(0, len(traces), 4000)]

    def job(args):
        kind, (a, z) = args
        if kind == 'mon':
            return tlc.validate_batch('DecoderMon', mon_cfg, slim[a:z])
        return tlc.validate_batch('DecoderTrace', str_cfg, traces[a:z])

    jobs = [('mon', c) for c in chunks] + [('strict', c) for c in chunks]
    with ThreadPoolExecutor(max_workers=6) as ex:
        results = list(ex.map(job, jobs))
    mv, sv, stats = [], [], []
    for (kind, _), (v, st) in zip(jobs, results):
        (mv if kind == 'mon' else sv).extend(v)
        stats.append(st)
    return mv, sv, stats


def execute(b, pieces, path):
    # a generated script stops at the call the model expects to fail: the rest of the body stays available
    if sum(pieces) < len(b.data):
        pieces = list(pieces) + [len(b.data) - sum(pieces)]
    if path == 'class':
        return X.run_class(b.dec, b.data, pieces)
    if path.startswith('after-'):
        ev, content, delivered = X.run_stream(b.dec, b.data, pieces, 'length', prior=path[6:])
    else:
        ev, content, delivered = X.run_stream(b.dec, b.data, pieces, path)
    return ev


def random_cases(rng, n):
    """Larger bodies, random cuts (code -> spec only)."""
    out = []
    for i in range(n):
        ln = rng.choice([0, 1, 2, 5, 17, 60, 200, 700])
        alpha = rng.choice([b'ab', b'abcdefgh \n', bytes(range(256))])
        p = bytes(rng.choice(alpha) for _ in range(ln))
        fmt = rng.choice(X.MODES)
        data = X.compress(p, rng.choice([0, 1, 6, 9]), fmt)
        cls = 'intact'
        r = rng.random()
        if r < 0.25 and len(data) > 1:
            data = data[:rng.randrange(1, len(data))]
            cls = 'trunc'
        elif r < 0.4:
            bad = bytearray(data)
            bad[rng.randrange(len(bad))] ^= 1 << rng.randrange(8)
            data, cls, p = bytes(bad), 'corrupt', None
        b = X.Body('random%d/%s' % (i, fmt), X.DEC_OF[fmt], fmt, data, p, cls)
        k = rng.choice([0, 1, 2, 3, 6, 12])
        cuts = sorted(set(rng.randrange(1, len(data)) for _ in range(k))) if len(data) > 1 else []
        if rng.random() < 0.5 and len(data) > 2:
            cuts = sorted(set(cuts) | {rng.choice([1, 2])})
        edges = [0] + cuts + [len(data)]
        out.append((b, [edges[j + 1] - edges[j] for j in range(len(edges) - 1)]))
    return out


def run(chk):
    quick = chk.tier == 'quick'
    rng = random.Random(chk.seed)
    # ---------------- 1. design checks
    acts = ['FeedAny', 'Flush']
    designs = [('as-is', 'FALSE', 'FALSE', 3 if quick else 4, ['TypeOK', 'AsIsNoSpuriousError', 'AsIsFlushed']),
               ('repaired', 'TRUE', 'TRUE', 3 if quick else 4,
                ['TypeOK', 'AsIsNoSpuriousError', 'OutputEqual', 'ErrorReported'])]
    if not quick:
        designs += [('fallback-repaired', 'TRUE', 'FALSE', 3, ['TypeOK', 'AsIsNoSpuriousError', 'AsIsFlushed']),
                    ('eof-repaired', 'FALSE', 'TRUE', 3, ['TypeOK', 'AsIsNoSpuriousError', 'OutputEqual', 'ErrorReported'])]
    for name, ff, fe, maxp, invs in designs:
        res = tlc.run_tlc('Decoder', design_cfg(ff, fe, maxp, invs), workers=4, coverage=True, timeout=600)
        chk.design('Decoder[%s,MaxP=%d]' % (name, maxp), res,
                   constants=dict(FixFallback=ff, FixEof=fe, MaxP=maxp, StrictTrailer=False, invariants=invs),
                   expect_actions=acts)
    # ---------------- 2. bodies, TLC-generated behaviours
    full_n, zone, max_pieces = (7, 6, 2) if quick else (11, 10, 3)
    bodies = X.make_bodies(chk.tier, full_n)
    import time
    t0 = time.time()
    scripts, gres = generate(bodies, full_n, zone, max_pieces)
    chk.extra['gen_wall_s'] = round(time.time() - t0, 1)
    t0 = time.time()
    chk.states += gres['distinct']
    chk.transitions += gres['states']
    paths = ['class', 'length', 'close'] if quick else ['class', 'length', 'close', 'chunked']
    runs = []    # (body, pieces, path, events, origin)
    for si, (bi, pieces, predicted) in enumerate(scripts):
        b = bodies[bi]
        for path in paths:
            if quick and path == 'length' and b.dec != 'none' and si % 2:
                continue
            if path == 'class' and b.dec == 'none':
                continue
            if path == 'close' and quick and len(b.data) > 6:
                continue
            if path in ('close', 'chunked') and not quick and len(b.data) > 7:
                continue
            runs.append((b, pieces, path, execute(b, pieces, path), 'tlc'))
        # the same Stream has already read a response with another (or the same) content coding
        if si % (5 if quick else 2) == 0:
            for prior in ('gzip', 'deflate', 'none'):
                runs.append((b, pieces, 'after-' + prior, execute(b, pieces, 'after-' + prior), 'tlc'))
    # bodies whose output is megabytes for a few kilobytes of input: any bound on what one call may produce must not
    # lose data (recorded run-length encoded; validated by the monitor only)
    big_runs = []
    for fmt in X.MODES:
        payload = b'\x00' * (3 * 1024 * 1024) + b'tail' + b'\x01' * 70000
        data = X.compress(payload, 6, fmt)
        bb = X.Body('big/%s' % fmt, X.DEC_OF[fmt], fmt, data, payload, 'intact')
        n = len(data)
        cuts = [[n // 2, n - n // 2], [n - 9, 9], [n], [1024] * (n // 1024) + ([n % 1024] if n % 1024 else []),
                [1, n - 1], [n // 3, n // 3, n - 2 * (n // 3)]]
        for pieces in (cuts[:3] if quick else cuts):
            for path in (('length',) if quick else ('length', 'chunked')):
                big_runs.append((bb, pieces, path, execute(bb, pieces, path), 'big'))
    for (b, pieces) in random_cases(rng, 150 if quick else 4000):
        for path in ('class', 'length'):
            runs.append((b, pieces, path, execute(b, pieces, path), 'random'))
    # ---------------- 3. validation by TLC
    chk.extra['exec_wall_s'] = round(time.time() - t0, 1)
    t0 = time.time()
    traces = [trace_of(b, path, ev) for (b, pieces, path, ev, origin) in runs]
    mv, sv, stats = validate(traces)
    if big_runs:
        bt = [big_trace(b, path, ev) for (b, pieces, path, ev, origin) in big_runs]
        bmv, _ = tlc.validate_batch('DecoderMon', 'SPECIFICATION MSpec\nCONSTANTS StrictTrailer = FALSE\nCONSTRAINT Record\n'
                                    'POSTCONDITION Post\nCHECK_DEADLOCK FALSE\n', bt)
        runs += big_runs
        traces += bt
        mv += bmv
        sv += [{'matched': 0, 'len': 0, 'accepted': True, 'bad': 0}] * len(big_runs)
    chk.extra['validate_wall_s'] = round(time.time() - t0, 1)
    for st in stats:
        chk.trace_stats(st)
    ndrift = 0
    for (b, pieces, path, ev, origin), t, m, s in zip(runs, traces, mv, sv):
        chk.case(key=(b.dec, b.data, tuple(pieces), path))
        chk.validated(1)
        if len(chk.samples) < 4 and origin == 'tlc' and len(pieces) >= 3 and len(b.data) >= 7:
            chk.samples.append({'body': b.descr(), 'pieces': pieces, 'path': path, 'reference': b.ref, 'events': ev})
        if m['matched'] < m['len'] and m['bad'] == 0:
            raise tlc.TLCError('monitor did not consume a trace: %r' % (m,))
        if m['bad']:
            clause = CLAUSES.get(m['bad'], str(m['bad']))
            sig = {'clause': clause, 'decoder': DECODER[b.dec], 'input': b.input_class}
            if clause == 'ErrorClass':
                sig['err'] = ([e['err'] for e in ev if e['err'] != 'none'] or ['?'])[0]
            chk.violation(sig, '%s violated: body %s (%s, %s) cut into %s via %s: observed %s; one-shot reference %s'
                          % (clause, b.data.hex(), b.name, b.input_class, pieces, path,
                             json.dumps([{k: e[k] for k in ('e', 'outn', 'err')} for e in ev]),
                             json.dumps({k: (bytes(v).hex() if k == 'out' else v) for k, v in b.ref.items()})),
                          {'dec': b.dec, 'fmt': b.fmt, 'hex': b.data.hex(), 'payload_hex': b.payload.hex() if b.payload is not None else None,
                           'cls': b.cls, 'name': b.name, 'pieces': pieces, 'path': path})
        elif s['matched'] < s['len']:
            ndrift += 1
            nxt = ev[s['matched']] if s['matched'] < len(ev) else None
            chk.drifted('strict Decoder.tla rejects event %d %s (body %s %s pieces %s path %s)'
                        % (s['matched'], json.dumps({k: v for k, v in (nxt or {}).items() if k != 'out'}), b.name,
                           b.data.hex(), pieces, path), {'model_clause': s['bad']})
    chk.rule = ('every composition (TLC-enumerated from Decoder.tla on measured profiles) of every body <= %d bytes; '
                'longer bodies: every cut set within the first %d bytes and every composition into <= %d pieces; '
                'x decoder class / Stream.read_body (Content-Length, close%s); + seeded random larger bodies; '
                'distinct = distinct (decoder, body, pieces, path)' % (full_n, zone, max_pieces, '' if quick else ', chunked'))
    chk.exhaustive = False
    chk.constants = {'FullN': full_n, 'Zone': zone, 'MaxPieces': max_pieces, 'bodies': len(bodies),
                     'max_body_len': max(len(b.data) for b in bodies), 'FixFallback': FIX_FALLBACK, 'FixEof': FIX_EOF,
                     'StrictTrailer': False}
    chk.extra['tlc_generated_behaviours'] = len(scripts)
    chk.extra['gen_states'] = gres['distinct']
    chk.extra['body_classes'] = _count((b.dec, b.fmt, b.cls, b.input_class) for b in bodies)
    chk.extra['runs_by_path'] = _count(r[2] for r in runs)
    chk.extra['strict_rejections'] = ndrift
    chk.extra['interpretation'] = ('empty pieces excluded; an empty body decodes to nothing; a stream cut inside its '
                                   'trailer/end marker after all content was produced may end either way (lenient); '
                                   'identity body starting with 0x1f under gzip: pass-through or error both accepted')


def _count(it):
    d = {}
    for k in it:
        k = '/'.join(k) if isinstance(k, tuple) else k
        d[k] = d.get(k, 0) + 1
    return d


def replay(chk, path):
    rp = json.load(open(path))['replay']
    data = bytes.fromhex(rp['hex'])
    payload = bytes.fromhex(rp['payload_hex']) if rp.get('payload_hex') is not None else None
    b = X.Body(rp['name'], rp['dec'], rp['fmt'], data, payload, rp['cls'])
    ev = execute(b, rp['pieces'], rp['path'])
    print('body', data.hex(), 'pieces', rp['pieces'], 'path', rp['path'])
    print('reference', b.ref)
    for e in ev:
        print(json.dumps(e))
    mv, sv, _ = validate([trace_of(b, rp['path'], ev)])
    print('monitor verdict', mv[0], CLAUSES.get(mv[0]['bad']))
    print('strict verdict', sv[0])
    return 1 if mv[0]['bad'] else 0


def selftest(chk):
    """Binding self-test: corrupting one logged field makes the strict trace spec reject (and only that)."""
    b = X.Body('selftest', 'deflate', 'zlib', X.compress(b'hello', 6, 'zlib'), b'hello', 'intact')
    ev = X.run_class('deflate', b.data, [3, 4, 6])
    good = trace_of(b, 'class', ev)
    bad1 = json.loads(json.dumps(good)); bad1['ev'][1]['outn'] += 1
    bad2 = json.loads(json.dumps(good)); bad2['ev'][0]['mode'] = 'raw'
    bad3 = json.loads(json.dumps(good)); bad3['ev'][2]['err'] = 'zlib'
    bad4 = json.loads(json.dumps(good)); bad4['ev'][1]['out'][0] ^= 1
    mv, sv, _ = validate([good, bad1, bad2, bad3, bad4])
    print('strict accepted:', [s['accepted'] for s in sv], 'monitor bad clause:', [m['bad'] for m in mv])
    ok = [s['accepted'] for s in sv] == [True, False, False, False, True] and [m['bad'] for m in mv] == [0, 0, 0, 1, 2]
    print('SELFTEST', 'ok' if ok else 'FAILED')
    return 0 if ok else 2
