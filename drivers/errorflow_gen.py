"""C09: bytes for the cases enumerated by specs/ErrorFlowGen.tla.

  wire(cls, seg)      -> dict describing what the hostile server does for malformation class `cls`
  REFS / layouts()    -> reference responses as lists of (part, bytes); every byte offset is a cut case
  doc(fmt, toks, cs)  -> (url path, content type, body bytes) of a mutated document
The class / token NAMES are owned by the TLA+ module (which also says what the model expects of each); this file only
knows how a name looks on the wire.  check_names() makes sure the two sides list the same names.
"""
import gzip
import zlib

CRLF = b'\r\n'
BODY = b'<html><body>hello</body></html>'


def resp(body=BODY, status=b'HTTP/1.1 200 OK', ct=b'text/html', headers=(), cl=True, close_hdr=True, sep=CRLF):
    lines = [status]
    if ct is not None:
        lines.append(b'Content-Type: ' + ct)
    if cl is True:
        lines.append(b'Content-Length: ' + str(len(body)).encode())
    elif cl not in (False, None):
        lines.append(b'Content-Length: ' + cl)
    if close_hdr:
        lines.append(b'Connection: close')
    lines.extend(headers)
    return sep.join(lines) + sep + sep + body


def chunked(chunks_bytes, headers=(), ct=b'text/html'):
    return resp(b'', ct=ct, cl=False, headers=(b'Transfer-Encoding: chunked',) + tuple(headers)) + chunks_bytes


GZ = gzip.compress(BODY)
ZL = zlib.compress(BODY)
RAWDEFLATE = zlib.compress(BODY)[2:-4]
ROBOTS_OK = b'User-agent: *\nDisallow: /private\n'
SITEMAP = b'<?xml version="1.0"?><urlset><url><loc>http://a.test/p3</loc></url></urlset>'

# ------------------------------------------------------------------ HTTP page classes
# value: dict(data=bytes, close=True, fail=None, path='/h', argv=[...])


def _p(data, close=True, fail=None, path='/h', argv=(), prefiles=None):
    return dict(data=data, close=close, fail=fail, path=path, argv=list(argv), prefiles=prefiles)


def page_classes():
    big = b'a' * 70000
    c = {}
    # ---- status line
    c['st_bad_version'] = _p(resp(status=b'HTP/1.1 200 OK'))
    c['st_no_code'] = _p(resp(status=b'HTTP/1.1 OK'))
    c['st_code_alpha'] = _p(resp(status=b'HTTP/1.1 xxx OK'))
    c['st_code_negative'] = _p(resp(status=b'HTTP/1.1 -200 OK'))
    c['st_space_prefix'] = _p(resp(status=b' HTTP/1.1 200 OK'))
    c['st_empty_line'] = _p(CRLF + resp())
    c['st_code_4digit'] = _p(resp(status=b'HTTP/1.1 2000 OK'))
    c['st_nul_reason'] = _p(resp(status=b'HTTP/1.1 200 O\x00K\x01\xff'))
    c['st_lf_only'] = _p(resp(sep=b'\n'))
    c['st_version_big'] = _p(resp(status=b'HTTP/11111.99999 200 OK'))
    c['st_no_reason'] = _p(resp(status=b'HTTP/1.1 200'))
    c['st_huge_reason'] = _p(resp(status=b'HTTP/1.1 200 ' + big))
    c['st_http09'] = _p(b'<html>just a document, no status line, no newline</html>')
    c['st_only_cr'] = _p(b'HTTP/1.1 200 OK\r')
    c['st_binary_line'] = _p(bytes(range(0, 10)) + bytes(range(11, 256)) + CRLF + CRLF)
    c['st_binary_no_newline'] = _p(bytes(range(0, 10)) + bytes(range(11, 256)))
    # ---- header block
    c['hd_no_end'] = _p(b'HTTP/1.1 200 OK\r\nContent-Type: text/html\r\nX-A: b\r\n')
    c['hd_oversize_line'] = _p(resp(headers=(b'X-Big: ' + big,)))
    c['hd_oversize_line_nonl'] = _p(b'HTTP/1.1 200 OK\r\nX-Big: ' + big + big)
    c['hd_oversize_total'] = _p(resp(headers=tuple(b'X-%d: ' % i + b'a' * 1000 for i in range(40))))
    c['hd_no_colon'] = _p(resp(headers=(b'this line has no colon', b'neither has this')))
    c['hd_nul'] = _p(resp(headers=(b'X-\x00N\x00: \x00v\x00',)))
    c['hd_high_bytes'] = _p(resp(headers=(b'X-\xff\xfe: \xc3\x28\xa0\xa1',)))
    c['hd_fold_first'] = _p(b'HTTP/1.1 200 OK\r\n folded before any field\r\n' + resp().split(CRLF, 1)[1])
    c['hd_dup_content_length'] = _p(resp(headers=(b'Content-Length: 3', b'Content-Length: 999')))
    c['hd_empty_name'] = _p(resp(headers=(b': value without a name', b':')))
    c['hd_many'] = _p(resp(headers=tuple(b'X-%d: v' % i for i in range(1500))))
    c['hd_bare_cr'] = _p(b'HTTP/1.1 200 OK\rX-A: b\rContent-Type: text/html\r\nConnection: close\r\n\r\n' + BODY)
    c['hd_utf8_bom'] = _p(b'\xef\xbb\xbf' + resp())
    # ---- cookies: more than the per-domain limit (50) in one answer, the last ones for paths / domains not seen yet
    flood = tuple(b'Set-Cookie: n%d=v; Path=/a' % i for i in range(52))
    c['ck_flood_new_path'] = _p(resp(headers=flood + (b'Set-Cookie: last=1; Path=/b', b'Set-Cookie: nopath=1')))
    c['ck_flood_same_path'] = _p(resp(headers=tuple(b'Set-Cookie: n%d=v' % i for i in range(120))))
    c['ck_odd'] = _p(resp(headers=(b'Set-Cookie: =novalue', b'Set-Cookie: ;;;', b'Set-Cookie: a=b; Domain=.test; Path=//',
                                   b'Set-Cookie: a=b; Max-Age=abc; Expires=never', b'Set-Cookie: ' + b'x' * 9000 + b'=1',
                                   b'Set-Cookie: a=b; Domain=other.example', b'Set-Cookie2: a=b; Version=x',
                                   b'Set-Cookie: \xff\xfe=\x00; Port="abc"')))
    # ---- Content-Length
    for name, v in (('cl_negative', b'-5'), ('cl_alpha', b'abc'), ('cl_empty', b''), ('cl_float', b'31.0'),
                    ('cl_hex', b'0x1f'), ('cl_huge_digits', b'9' * 5000), ('cl_plus', b'+%d' % len(BODY)),
                    ('cl_spaces', b'   %d   ' % len(BODY))):
        c[name] = _p(resp(cl=v))
    c['cl_overrun'] = _p(resp(cl=b'5'))
    c['cl_short_body'] = _p(resp(cl=b'%d' % (len(BODY) + 10)))
    # ---- chunked
    ok_chunks = b'5\r\nhello\r\n0\r\n\r\n'
    c['ch_size_nonhex'] = _p(chunked(b'zz\r\nhello\r\n0\r\n\r\n'))
    c['ch_size_negative'] = _p(chunked(b'-5\r\nhello\r\n0\r\n\r\n'))
    c['ch_size_empty'] = _p(chunked(b'\r\nhello\r\n0\r\n\r\n'))
    c['ch_size_huge'] = _p(chunked(b'f' * 5000 + b'\r\nhello\r\n0\r\n\r\n'))
    c['ch_size_ext_garbage'] = _p(chunked(b'5;\x00\xff=;;;"\r\nhello\r\n0;x\r\n\r\n'))
    c['ch_overrun'] = _p(chunked(b'3\r\nhello\r\n0\r\n\r\n'))
    c['ch_no_final'] = _p(chunked(b'5\r\nhello\r\n'))
    c['ch_size_line_oversize'] = _p(chunked(b'5;' + big + b'\r\nhello\r\n0\r\n\r\n'))
    c['ch_nl_oversize'] = _p(chunked(b'5\r\nhello' + big + b'\r\n0\r\n\r\n'))
    c['ch_trailer_oversize'] = _p(chunked(b'5\r\nhello\r\n0\r\nX-T: ' + big + b'\r\n\r\n'))
    c['ch_trailer_no_colon'] = _p(chunked(b'5\r\nhello\r\n0\r\nno colon here\r\n\r\n'))
    c['ch_trailer_nul'] = _p(chunked(b'5\r\nhello\r\n0\r\nX-\x00: \x00\xff\r\n\r\n'))
    c['ch_te_capital'] = _p(resp(ok_chunks, cl=False, headers=(b'Transfer-Encoding: Chunked',)))
    # a Transfer-Encoding field without any coding in it
    c['ch_te_empty'] = _p(resp(BODY, headers=(b'Transfer-Encoding:',)))
    c['ch_te_commas'] = _p(resp(BODY, headers=(b'Transfer-Encoding: , ,',)))
    c['ch_te_trailing_comma'] = _p(resp(ok_chunks, cl=False, headers=(b'Transfer-Encoding: chunked,',)))
    c['ch_zero_only'] = _p(chunked(b'0\r\n\r\n'))
    # ---- codings
    c['gz_corrupt_header'] = _p(resp(b'\x1f\x8b\xff\xff' + GZ[4:], headers=(b'Content-Encoding: gzip',)))
    c['gz_corrupt_body'] = _p(resp(GZ[:12] + b'\xff' * 12 + GZ[24:], headers=(b'Content-Encoding: gzip',)))
    c['gz_truncated'] = _p(resp(GZ[:-12], headers=(b'Content-Encoding: gzip',)))
    c['gz_trailing_garbage'] = _p(resp(GZ + b'trailing garbage', headers=(b'Content-Encoding: gzip',)))
    c['gz_empty'] = _p(resp(b'', headers=(b'Content-Encoding: gzip',)))
    c['gz_not_gzip'] = _p(resp(BODY, headers=(b'Content-Encoding: gzip',)))
    c['gz_bomb_small'] = _p(resp(gzip.compress(b'\0' * 2000000), headers=(b'Content-Encoding: gzip',)))
    bad = b'\x1f\x8b\x08\x00' + b'\xff' * 20
    c['gz_chunked_corrupt'] = _p(chunked(b'%x\r\n' % len(bad) + bad + b'\r\n0\r\n\r\n', headers=(b'Content-Encoding: gzip',)))
    c['df_corrupt'] = _p(resp(ZL[:4] + b'\xff' * 10 + ZL[14:], headers=(b'Content-Encoding: deflate',)))
    c['df_truncated'] = _p(resp(ZL[:-6], headers=(b'Content-Encoding: deflate',)))
    c['df_raw'] = _p(resp(RAWDEFLATE, headers=(b'Content-Encoding: deflate',)))
    c['enc_unknown'] = _p(resp(headers=(b'Content-Encoding: br, zstd, \x00',)))
    # ---- whole response
    c['ms_empty_response'] = _p(b'')
    c['ms_only_crlf'] = _p(CRLF + CRLF)
    c['ms_nul_body'] = _p(resp(b'\0' * 5000))
    c['ms_204_with_body'] = _p(resp(status=b'HTTP/1.1 204 No Content'))
    c['ms_garbage_after_headers'] = _p(resp(bytes(range(256)) * 8, ct=b'text/html'))
    head = b'HTTP/1.1 200 OK\r\nContent-Type: text/html\r\n'
    c['ms_reset_in_header'] = _p(head, close=False, fail='OSError')
    c['ms_reset_in_body'] = _p(resp(cl=b'100'), close=False, fail='OSError')
    c['ms_stall_in_header'] = _p(head, close=False)
    c['ms_stall_in_body'] = _p(resp(cl=b'100'), close=False)
    # ---- redirects, cookies, header-borne data

    def redirect(loc, code=b'302'):
        return resp(b'', status=b'HTTP/1.1 ' + code + b' Found', headers=(b'Location: ' + loc,) if loc is not None else ())
    c['rd_ipv6'] = _p(redirect(b'http://[/'))
    c['rd_empty'] = _p(redirect(b''))
    c['rd_nul'] = _p(redirect(b'http://b.test/\x00\x01'))
    c['rd_port_big'] = _p(redirect(b'http://b.test:99999/'))
    c['rd_port_alpha'] = _p(redirect(b'http://b.test:http/'))
    c['rd_idna_long'] = _p(redirect(b'http://' + b'a' * 70 + b'.test/'))
    c['rd_loop'] = _p(redirect(b'http://b.test/h'))
    c['rd_unresolvable'] = _p(redirect(b'http://\xff\xfe.nowhere/'))
    # a request WITH A BODY (--post-data) answered with a redirect: 307 / 308 replay the request, 302 turns it into a GET
    for code in (b'302', b'307', b'308'):
        c['rd_%s_post' % code.decode()] = _p(redirect(b'http://a.test/p3', code), argv=['--post-data', 'x=1'])
    # ordinary answers under output options that change how documents are written
    c['ok_save_headers'] = _p(resp(), argv=['--save-headers'])
    c['ok_output_document'] = _p(resp(), argv=['-O', 'all.html'])
    c['ok_adjust_extension'] = _p(resp(), argv=['-E'], path='/h.php')
    c['ok_no_directories'] = _p(resp(), argv=['-nd'])
    c['ok_timestamping'] = _p(resp(headers=(b'Last-Modified: Mon, 01 Jan 2024 00:00:00 GMT',)), argv=['-N'])
    c['ok_no_clobber'] = _p(resp(), argv=['-nc'])
    c['ok_convert_links'] = _p(resp(b'<html><body><a href="http://a.test/p3">x</a><img src="i.png"></body></html>'), argv=['-k', '-K'])
    # page requisites whose link type comes from the document: <object codebase=X> where X is the name of an attribute
    c['ok_object_codebase_attrname'] = _p(resp(b'<html><body><object codebase="data" data="foo.bin"></object>'
                                               b'<embed codebase="src" src="q.swf"></body></html>'), argv=['-p'])
    c['ok_page_requisites_convert'] = _p(resp(b'<html><body><img src="http://a.test/p3"></body></html>'), argv=['-k', '-p'])
    # a request with a body answered with 401 (credentials given): the retry carries the body again
    c['au_401_post'] = _p(resp(b'', status=b'HTTP/1.1 401 Unauthorized', headers=(b'WWW-Authenticate: Basic realm="x"',)),
                          argv=['--post-data', 'x=1', '--http-user', 'u', '--http-password', 'p'])
    # through an HTTP proxy that drops its idle connections (see errorflow_exec: ProxyServer)
    c['px_idle_close'] = _p(resp(close_hdr=False), argv=['--http-proxy', 'proxy.test:3128', '--wait', '1'])
    # the download directory (-P) does not exist yet when the first answer - a redirect, nothing to save - arrives
    c['rd_new_directory'] = _p(redirect(b'http://a.test/p3'), argv=['-P', 'new/dir'])
    c['ok_new_directory'] = _p(resp(), argv=['-P', 'new/dir2', '--delete-after'])
    # redirects to URLs that no HTTP client can fetch
    c['rd_mailto'] = _p(redirect(b'mailto:webmaster@b.test'))
    c['rd_data_url'] = _p(redirect(b'data:text/html,hello'))
    c['ck_garbage'] = _p(resp(headers=(b'Set-Cookie: \x00=\xff; expires=garbage; max-age=abc; domain=..; path=\x00',
                                       b'Set-Cookie: =', b'Set-Cookie: ;;;=;', b'Set-Cookie2: x')))
    c['ck_huge'] = _p(resp(headers=(b'Set-Cookie: a=' + b'x' * 20000,)))
    c['ck_port_garbage'] = _p(resp(headers=(b'Set-Cookie2: a=b; Version=1; Port="abc,80"; Max-Age=-1',)))
    c['ct_garbage'] = _p(resp(ct=b'\x00\xff;;;charset=;;=;"'))
    c['cs_unknown'] = _p(resp(ct=b'text/html; charset=klingon'))
    c['cs_nul'] = _p(resp(ct=b'text/html; charset=\x00utf\x008'))
    c['cs_nontext_codec'] = _p(resp(ct=b'text/html; charset=hex'))
    c['cs_meta_nontext_codec'] = _p(resp(b'<html><head><meta charset="rot13"></head><body>x</body></html>'))
    c['cs_css_nontext_codec'] = _p(resp(b'a{background:url(x.png)}', ct=b'text/css; charset=base64'), path='/h.css')
    c['lm_garbage'] = _p(resp(headers=(b'Last-Modified: yesterday',)))
    c['lm_out_of_range'] = _p(resp(headers=(b'Last-Modified: Mon, 32 Foo 2020 25:61:61 GMT',)))
    # well-formed dates no clock can hold
    c['lm_year_overflow'] = _p(resp(headers=(b'Last-Modified: Thu, 01 Jan 2147483648 00:00:00 GMT',)))
    c['lm_year_0'] = _p(resp(headers=(b'Last-Modified: Mon, 01 Jan 0000 00:00:00 GMT',)))
    c['lm_before_epoch'] = _p(resp(headers=(b'Last-Modified: Sun, 01 Jan 1600 00:00:00 GMT',)))
    c['lm_year_9999'] = _p(resp(headers=(b'Last-Modified: Fri, 31 Dec 9999 23:59:59 GMT',)))
    c['lm_empty'] = _p(resp(headers=(b'Last-Modified: ',)))
    c['lm_year_big'] = _p(resp(headers=(b'Last-Modified: Mon, 01 Jan 99999 00:00:00 GMT',)))
    c['rf_refresh_ipv6'] = _p(resp(headers=(b'Refresh: 0; url=http://[',)))
    # ---- names reaching the file writer
    c['fn_deep_dirs'] = _p(resp(), path='/' + 'a/' * 1100 + 'x')
    c['fn_long_total'] = _p(resp(), path='/' + ('a' * 150 + '/') * 30 + 'x')
    c['fn_long_component'] = _p(resp(), path='/' + 'a' * 300)
    c['fn_win_trailing_dot'] = _p(resp(), path='/name.', argv=['--restrict-file-names', 'windows'])
    c['cd_win_trailing_dot'] = _p(resp(headers=(b'Content-Disposition: attachment; filename="x."',)),
                                  argv=['--content-disposition', '--restrict-file-names', 'windows'])
    c['cd_garbage'] = _p(resp(headers=(b'Content-Disposition: attachment; filename="\x00../../x\xff"; filename*=\xff',)),
                         argv=['--content-disposition'])
    # a Content-Disposition that names a directory the crawl has made already; a NUL in it with control characters
    # allowed in file names; --adjust-extension when NAME.html is a directory
    c['cd_names_directory'] = _p(resp(headers=(b'Content-Disposition: attachment; filename=sub',)),
                                 argv=['--content-disposition'], prefiles={'b.test/sub/keep.txt': 'k'})
    c['cd_nul_nocontrol'] = _p(resp(headers=(b'Content-Disposition: attachment; filename="a\x00b"',)),
                               argv=['--content-disposition', '--restrict-file-names=nocontrol'])
    c['fn_adjust_extension_directory'] = _p(resp(), argv=['--adjust-extension'], prefiles={'b.test/h.html/keep.txt': 'k'})
    # ---- sitemaps
    sm = dict(path='/sitemap.xml/x', argv=['--sitemaps'])
    c['sm_gzip_garbage'] = _p(resp(b'\x1f\x8b' + b'garbage' * 5, ct=b'text/xml'), **sm)
    c['sm_gzip_truncated'] = _p(resp(gzip.compress(SITEMAP + b' ' * 5000)[:-20], ct=b'text/xml'), **sm)
    c['sm_gzip_ok'] = _p(resp(gzip.compress(SITEMAP), ct=b'text/xml'), **sm)
    return c


def robots_classes():
    big = b'a' * 70000
    c = {}
    c['rb_binary'] = _p(resp(bytes(range(256)) * 40, ct=b'text/plain'))
    c['rb_huge'] = _p(resp(b'User-agent: *\nDisallow: /' + b'x' * 2000000 + b'\n' + b'Disallow: /y\n' * 20000, ct=b'text/plain'))
    c['rb_utf16'] = _p(resp('User-agent: *\nDisallow: /nothing\n'.encode('utf-16'), ct=b'text/plain; charset=utf-16'))
    c['rb_directives_garbage'] = _p(resp(b'User-agent: *\nCrawl-delay: abc\nRequest-rate: 1/0\nDisallow: [\nAllow: *?*$$$\n'
                                         b'Sitemap: http://[\n: :\nUser-agent\nDisallow\n', ct=b'text/plain'))
    c['rb_nul'] = _p(resp(b'User-agent: *\x00\nDisallow: /\x00x\n\x00\x00\x00', ct=b'text/plain'))
    c['rb_garbage_response'] = _p(b'\x00\x01 this is not http\r\n\r\n')
    c['rb_500'] = _p(resp(b'', status=b'HTTP/1.1 500 Oops'))
    # status codes outside the classes a client expects: still "not a usable robots.txt", never an escape
    c['rb_status_999'] = _p(resp(b'denied', status=b'HTTP/1.1 999 Request denied', ct=b'text/plain'))
    c['rb_status_600'] = _p(resp(b'x', status=b'HTTP/1.1 600 Strange', ct=b'text/plain'))
    c['rb_status_000'] = _p(resp(b'x', status=b'HTTP/1.1 000 Zero', ct=b'text/plain'))
    c['rb_status_299'] = _p(resp(b'User-agent: *\nDisallow:\n', status=b'HTTP/1.1 299 Odd', ct=b'text/plain'))
    c['rb_redirect_bad'] = _p(resp(b'', status=b'HTTP/1.1 302 Found', headers=(b'Location: http://[',)))
    c['rb_close_immediately'] = _p(b'')
    # the control file "moved" to something that is not an HTTP URL: nothing to fetch, no rules
    c['rb_redirect_mailto'] = _p(resp(b'', status=b'HTTP/1.1 302 Found', headers=(b'Location: mailto:webmaster@b.test',)))
    c['rb_redirect_data'] = _p(resp(b'', status=b'HTTP/1.1 301 Moved', headers=(b'Location: data:text/plain,User-agent:%20*',)))
    c['rb_redirect_ftp'] = _p(resp(b'', status=b'HTTP/1.1 302 Found', headers=(b'Location: ftp://b.test/robots.txt',)))
    # a rule with a run of wildcards (each becomes ".*" in the parser's regular expression)
    c['rb_star_run'] = _p(resp(b'User-agent: *\nDisallow: /' + b'*' * 40 + b'x\n', ct=b'text/plain'), path='/h' + 'a' * 60)
    c['rb_gzip_bad'] = _p(resp(b'\x1f\x8b\x08\x00' + b'\xff' * 20, ct=b'text/plain', headers=(b'Content-Encoding: gzip',)))
    c['rb_oversize_line'] = _p(b'HTTP/1.1 200 OK\r\nX-Big: ' + big + big)
    c['rb_chunk_nl_oversize'] = _p(chunked(b'5\r\nhello' + big + b'\r\n0\r\n\r\n', ct=b'text/plain'))
    c['rb_trailer_no_colon'] = _p(chunked(b'5\r\nhello\r\n0\r\nno colon\r\n\r\n', ct=b'text/plain'))
    c['rb_cl_short'] = _p(resp(ROBOTS_OK, ct=b'text/plain', cl=b'500'))
    c['rb_reset_in_body'] = _p(resp(ROBOTS_OK, ct=b'text/plain', cl=b'500'), close=False, fail='OSError')
    return c


# ------------------------------------------------------------------ FTP classes
def _f(at, do, when='target'):
    return dict(hostile=dict(at=at, do=do, when=when))


def ftp_classes():
    big = b'x' * 70000
    c = {}
    c['ft_begin_bad_code'] = _f('RETR', ('reply', b'999 what is this\r\n'))
    c['ft_begin_nocode_stall'] = _f('RETR', ('reply', b'no code at all\r\n'))
    c['ft_begin_close'] = _f('RETR', ('close',))
    c['ft_begin_oversize'] = _f('RETR', ('reply', b'150 ' + big + b'\r\n'))
    c['ft_begin_two_finals'] = _f('RETR', ('reply', b'150-first\r\n150 second\r150 third\r\n'))
    c['ft_begin_high_bytes'] = _f('RETR', ('reply', b'150 \xff\xfe\x00\x01 here it comes\r\n', None, 'continue'))
    c['ft_begin_multiline'] = _f('RETR', ('reply', b'150-one\r\n two\r\n three 999\r\n150 done\r\n', None, 'continue'))
    c['ft_begin_reset'] = _f('RETR', ('fail', 'OSError'))
    c['ft_type_bad_code'] = _f('TYPE', ('reply', b'500 no binary for you\r\n'))
    c['ft_pasv_garbage'] = _f('PASV', ('reply', b'227 Entering Passive Mode (garbage)\r\n'))
    c['ft_pasv_big_numbers'] = _f('PASV', ('reply', b'227 Entering Passive Mode (999,999,999,999,999,999)\r\n'))
    c['ft_pasv_refused'] = _f('PASV', ('refuse_data',))
    c['ft_pasv_port_overflow'] = _f('PASV', ('reply', b'227 Entering Passive Mode (10,0,0,3,999,999)\r\n'))
    c['ft_pasv_wrong_code'] = _f('PASV', ('reply', b'200 (10,0,0,3,4,1)\r\n'))
    c['ft_size_garbage'] = _f('SIZE', ('reply', b'213 abc\r\n', None, 'continue'))
    c['ft_size_huge'] = _f('SIZE', ('reply', b'213 ' + b'9' * 5000 + b'\r\n', None, 'continue'))
    c['ft_size_error'] = _f('SIZE', ('reply', b'550 no size\r\n', None, 'continue'))
    c['ft_data_close_no_final'] = _f('data', ('dataclose',))
    c['ft_data_reset'] = _f('data', ('datafail', 'OSError'))
    c['ft_end_bad_code'] = _f('end', ('reply', b'451 aborted\r\n'))
    c['ft_end_close'] = _f('end', ('close',))
    c['ft_end_oversize'] = _f('end', ('reply', b'226 ' + big + b'\r\n'))
    return c


def ftp_listing_classes():
    c = {}
    c['ls_binary'] = bytes(range(256)) * 4
    c['ls_empty'] = b''
    c['ls_names_weird'] = (b'-rw-r--r-- 1 ftp ftp 10 Jan 01  2020 a\x00b\xff.txt\r\n'
                           b'-rw-r--r-- 1 ftp ftp 10 Jan 01  2020 http://[\r\n'
                           b'-rw-r--r-- 1 ftp ftp 10 Jan 01  2020 ../../up\r\n'
                           b'drwxr-xr-x 1 ftp ftp 10 Jan 01  2020 .\r\n'
                           b'-rw-r--r-- 1 ftp ftp 10 Jan 01  2020  \r\n')
    c['ls_symlink_escape'] = b'lrwxrwxrwx 1 ftp ftp 10 Jan 01  2020 link -> ../../../etc/passwd\r\n'
    c['ls_huge_line'] = b'-rw-r--r-- 1 ftp ftp 10 Jan 01  2020 ' + b'n' * 200000 + b'\r\n'
    c['ls_msdos_short'] = b'2012\r\n'
    c['ls_msdos_3fields'] = b'01-01-20  10:00AM <DIR>\r\n'
    c['ls_unix_bad_date'] = b'-rw-r--r-- 1 ftp ftp 10 Feb 31  2020 a.txt\r\n'
    c['ls_unix_no_size'] = b'-rw-r--r-- Jan 01  2020 a.txt\r\n'
    c['ls_unix_no_date'] = b'-rw-r--r-- 1 ftp ftp 10 a.txt\r\n'
    c['ls_msdos_bad_date'] = b'99-99-99  99:99PM <DIR> x\r\n01-01-20  10:00AM <DIR> y\r\n'
    # machine listings (MLSD, RFC 3659): facts of every odd shape; a row that cannot be converted is kept raw
    ok = b'type=file;size=3;modify=20200101000000; a.txt\r\n'
    c['ml_ok'] = ok + b'type=dir;modify=20200101000000; d\r\ntype=cdir; .\r\ntype=pdir; ..\r\n'
    c['ml_fraction_short'] = b'type=file;size=3;modify=20240102030405.5; a.txt\r\n'
    c['ml_fraction_7'] = b'type=file;size=3;modify=20240102030405.1234567; a.txt\r\n'
    c['ml_fraction_long'] = b'type=file;size=12;modify=20240102030405.12345678901; a.txt\r\n' + ok
    c['ml_fraction_huge'] = b'type=file;modify=20240102030405.' + b'9' * 5000 + b'; a.txt\r\n'
    c['ml_bad_date'] = b'type=file;modify=99999999999999; a.txt\r\ntype=file;modify=2020; b.txt\r\ntype=file;modify=00000000000000; c.txt\r\n'
    c['ml_date_nondigit'] = b'type=file;modify=2020010100000x; a.txt\r\ntype=file;modify=\xff\xfe; b.txt\r\n'
    c['ml_size_garbage'] = b'type=file;size=abc; a.txt\r\ntype=file;size=-1; b.txt\r\ntype=file;size=1e3; c.txt\r\ntype=file;size=; d.txt\r\n'
    c['ml_size_huge'] = b'type=file;size=' + b'9' * 6000 + b'; a.txt\r\n'
    c['ml_no_name'] = b'type=file;size=3;\r\ntype=file;size=3\r\n;;;\r\n=;=; x\r\n'
    c['ml_binary'] = bytes(range(256)) * 4
    c['ml_names_weird'] = (b'type=file; a\x00b\xff.txt\r\ntype=file; http://[\r\ntype=file; ../../up\r\ntype=dir; .\r\n'
                           b'type=file;  \r\ntype=OS.unix=slink:/etc/passwd; link\r\n')
    c['ml_dup_facts'] = b'type=file;type=dir;size=1;size=2;Type=FILE;SIZE=x; a.txt\r\n'
    c['ml_empty'] = b''
    return c


def ftp_parent_classes():
    c = {}
    c['fp_data_refused'] = _f('PASV', ('refuse_data',))
    c['fp_list_close'] = _f('LIST', ('close',))
    c['fp_list_550'] = _f('LIST', ('reply', b'550 no listing\r\n'))
    c['fp_listing_msdos_short'] = dict(listing=b'2012\r\n')
    c['fp_listing_bad_date'] = dict(listing=b'-rw-r--r-- 1 ftp ftp 10 Feb 31  2020 h.txt\r\n')
    c['fp_pasv_garbage'] = _f('PASV', ('reply', b'227 Entering Passive Mode (garbage)\r\n'))
    c['fp_end_bad_code'] = _f('end', ('reply', b'451 aborted\r\n'))
    c['fp_ok'] = dict()
    c['fp_pasv_port_overflow'] = _f('PASV', ('reply', b'227 Entering Passive Mode (10,0,0,3,999,999)\r\n'))
    return c


# ------------------------------------------------------------------ segmentation
def cuts_for(data, seg):
    """Piece lengths for `data` under segmentation `seg` (None = one piece)."""
    n = len(data)
    if seg == 'whole' or n == 0:
        return None
    if seg == 'bytes1':
        if n <= 600:
            return 1
        return [1] * 400 + [997] * ((n - 400) // 997 + 1)
    if seg == 'lines':
        # a piece ends right after every CR: the LF opens the next piece
        out = []
        last = 0
        limit = min(n, 20000)
        i = data.find(b'\r', 0, limit)
        while i != -1:
            out.append(i + 1 - last)
            last = i + 1
            i = data.find(b'\r', last, limit)
        return out or None
    raise ValueError(seg)


# ------------------------------------------------------------------ reference responses for the cut cases
def refs():
    head = [('status', b'HTTP/1.1 200 OK\r\n'), ('header', b'Content-Type: text/html\r\nConnection: close\r\n')]
    r = {}
    r['length'] = head + [('header', b'Content-Length: %d\r\n' % len(BODY)), ('blank', CRLF), ('body_len', BODY)]
    r['close'] = head + [('blank', CRLF), ('body_close', BODY)]
    r['chunked'] = head + [('header', b'Transfer-Encoding: chunked\r\n'), ('blank', CRLF),
                           ('chunk_hdr', b'5\r\n'), ('chunk_data', b'<html'), ('chunk_nl', CRLF),
                           ('chunk_hdr', b'1a;ext=1\r\n'), ('chunk_data', BODY[5:]), ('chunk_nl', CRLF),
                           ('last_chunk', b'0\r\n'),
                           # the first byte of the trailer not yet sent: nothing of it arrived; then the name
                           # without its colon; then the rest
                           ('trailer', b'X'), ('trailer_name', b'-T:'), ('trailer', b' v\r\n\r\n')]
    r['gzip_length'] = head + [('header', b'Content-Encoding: gzip\r\nContent-Length: %d\r\n' % len(GZ)), ('blank', CRLF),
                               ('body_len', GZ)]
    rh = [('r_status', b'HTTP/1.1 200 OK\r\n'), ('r_header', b'Content-Type: text/plain\r\nConnection: close\r\n')]
    r['robots_length'] = rh + [('r_header', b'Content-Length: %d\r\n' % len(ROBOTS_OK)), ('r_blank', CRLF),
                               ('r_body_len', ROBOTS_OK)]
    return r


def layouts_tla():
    """MCLayouts == [...] for the generated MC module."""
    parts = []
    for name, segs in sorted(refs().items()):
        parts.append('%s |-> <<%s>>' % (name, ', '.join('[part |-> "%s", len |-> %d]' % (p, len(b)) for p, b in segs)))
    return '[' + ', '.join(parts) + ']'


def ref_bytes(name):
    return b''.join(b for _, b in refs()[name])


# ------------------------------------------------------------------ documents
HUGE = b'A' * 100000

TOKENS = {
    'html': {
        'a_open': b'<a href="', 'a_href_rel': b'<a href="x/y.html">t</a>', 'a_href_ipv6': b'<a href="http://[/x">t</a>',
        'a_href_nul': b'<a href="\x00/y\x00">\x00</a>', 'a_href_badport': b'<a href="http://a.test:99999999999/">p</a>',
        'a_href_surrogate_ref': b'<a href="/&#xD800;y&#x110000;&#0;&#xFFFFFFFFFF;">s</a>',
        'a_href_huge': b'<a href="' + HUGE + b'">h</a>', 'a_href_js': b'<a href="javascript:%ff%fe\'%00x.html\'">j</a>',
        'img_srcset_broken': b'<img srcset=", ,,  , x 1x,, http://[ 2x, \x00">',
        'base_ipv6': b'<base href="http://[/">', 'base_ok': b'<base href="/base/">',
        'meta_refresh_ipv6': b'<meta http-equiv="refresh" content="0;url=\'http://[">',
        'meta_refresh_empty': b'<meta http-equiv="refresh" content="0;url=">',
        'meta_charset_klingon': b'<meta charset="klingon">', 'style_url_open': b'<style>a{background:url(',
        'style_attr_url_open': b'<p style="background:url(\'x', 'script_str_soup': b'<script>var a="\\ud800.html",b="\\x.html",c="http://[x.html"</script>',
        'script_open': b'<script>var u = "', 'comment_open': b'<!-- ', 'cdata_open': b'<![CDATA[ ', 'lt': b'<', 'nul': b'\x00',
        'amp_soup': b'&amp;&#;&#x;&;&#99999999999999999999;&nosuch;', 'invalid_utf8': b'\xc3\x28\xa0\xa1\xff\xfe',
        'lone_surrogate_utf8': b'\xed\xa0\x80\xed\xbf\xbf', 'bom_utf16': b'\xff\xfe', 'deep_nesting': b'<div>' * 3000,
        'quote': b'"', 'gt': b'>', 'link_text_ipv6': b'<link>http://[x</link><url>\x00</url>',
        'object_codebase_ipv6': b'<object codebase="http://[" data="x" archive="a b  c"></object>',
        # (a codebase value that is the NAME of another attribute of the element)
        'object_codebase_attrname': b'<object codebase="data" data="foo.bin"></object><embed codebase="src" src="q.swf">',
        'onclick_js': b'<a onclick="\'\\u\\x\\ud800.html\'" onmouseover="\'/x/\'">o</a>',
        'data_attr': b'<div data-src="/d.png" data-x="http://[/">', 'attr_dup': b'<a href=x href=y href>',
        'tag_nul': b'<\x00a href=x><a\x00 href=y>',
    },
    'css': {
        'url_open': b'a{background:url(', 'url_ok': b'a{background:url("x.png")}', 'url_ipv6': b'a{background:url(http://[/x)}',
        'url_huge': b'a{background:url(' + b'x' * 600 + b')}', 'import_unclosed': b'@import "', 'import_ok': b'@import url(y.css);',
        'esc_surrogate': b'a{background:url(\\d800 x.png)}', 'esc_big': b'a{background:url(\\110000 \\ffffffff x.png)}',
        'esc_eof': b'\\', 'quote': b'"', 'nul': b'\x00', 'invalid_utf8': b'\xc3\x28\xa0\xa1\xff\xfe', 'bom_utf16': b'\xff\xfe',
        'charset_rule_klingon': b'@charset "klingon";', 'comment_open': b'/* ', 'paren_close': b')',
    },
    'js': {
        'str_rel': b'var a = "x/y.html";', 'str_abs': b"var b = 'http://a.test/z.png';", 'str_ipv6': b'var c = "http://[::1/x.html";',
        'str_bad_escape': b'var d = "\\u00zz.html", e = "\\x.html";', 'str_surrogate_escape': b'var f = "/\\ud800/";',
        'str_nul': b'var g = "\x00.html";', 'str_huge': b'var h = "' + b'x' * 600 + b'.html";', 'quote': b'"', 'squote': b"'",
        'backslash': b'\\', 'invalid_utf8': b'\xc3\x28\xa0\xa1\xff\xfe', 'bom_utf16': b'\xff\xfe', 'slashes': b'"//[/x.html"',
        'regex_soup': b'/["\']+\\/x\\.html/g', 'str_newline': b'"a\nb.html"',
    },
    'sitemap': {
        'xml_decl': b'<?xml version="1.0" encoding="UTF-8"?>', 'urlset_open': b'<urlset xmlns="http://www.sitemaps.org/schemas/sitemap/0.9">',
        'loc_ok': b'<url><loc>http://a.test/p3</loc></url>', 'loc_ipv6': b'<url><loc>http://[</loc></url>', 'loc_empty': b'<url><loc></loc></url>',
        'loc_unclosed': b'<url><loc>http://a.test/', 'doctype_entities': b'<!DOCTYPE x [<!ENTITY a "aaaa"><!ENTITY b "&a;&a;&a;">]>',
        'entity_bomb_small': b'<!DOCTYPE l [<!ENTITY l0 "ha"><!ENTITY l1 "&l0;&l0;&l0;&l0;"><!ENTITY l2 "&l1;&l1;&l1;&l1;">]><urlset><url><loc>&l2;</loc></url></urlset>',
        'cdata_loc': b'<url><loc><![CDATA[http://a.test/p3]]></loc></url>', 'nul': b'\x00', 'invalid_utf8': b'\xc3\x28\xa0\xa1\xff\xfe',
        'bom_utf16': b'\xff\xfe', 'lt': b'<', 'urlset_close': b'</urlset>', 'robots_sitemap_line': b'Sitemap: http://[\nSitemap:\nSitemap: \xff\xfe\n',
        'robots_garbage': b'User-agent: *\nDisallow: /\x00\nCrawl-delay: x\n',
    },
}

FMT = {'html': ('/h.html', b'text/html'), 'css': ('/h.css', b'text/css'), 'js': ('/h.js', b'application/javascript'),
       'sitemap': ('/sitemap.xml/x', b'text/xml')}

CHARSET = {'none': None, 'utf-8': b'utf-8', 'utf-16': b'utf-16', 'utf-7': b'utf-7', 'klingon': b'klingon', 'empty': b'',
           'latin-1': b'latin-1'}


def doc(fmt, toks, cs):
    path, ct = FMT[fmt]
    body = b''.join(TOKENS[fmt][t] for t in toks)
    if CHARSET[cs] is not None:
        ct = ct + b'; charset=' + CHARSET[cs]
    return path, ct, body


def ftp_perm_classes():
    """--preserve-permissions: hostile behaviour during the listing made AFTER the file was saved (when='after_retr')."""
    c = {}
    c['pm_ok'] = dict()
    c['pm_data_refused'] = _f('PASV', ('refuse_data',), 'after_retr')
    c['pm_list_close'] = _f('LIST', ('close',), 'after_retr')
    c['pm_list_550'] = _f('LIST', ('reply', b'550 no listing\r\n'), 'after_retr')
    c['pm_listing_unknown'] = dict(hostile=dict(at='data', when='after_retr',
                                                do=('data', b'???? what is this\r\nnot a listing at all\r\n')))
    c['pm_listing_bad_date'] = dict(hostile=dict(at='data', when='after_retr',
                                                 do=('data', b'-rw-r--r-- 1 ftp ftp 10 Feb 31  2020 h.txt\r\n')))
    c['pm_pasv_garbage'] = _f('PASV', ('reply', b'227 Entering Passive Mode (garbage)\r\n'), 'after_retr')
    c['pm_end_bad_code'] = _f('end', ('reply', b'451 aborted\r\n'), 'after_retr')
    return c


def ftp_symlink_classes():
    """--retr-symlinks=off: LIST payloads of /sub/ with symbolic-link lines."""
    f = b'-rw-r--r-- 1 ftp ftp 3 Jan 01  2020 a.txt\r\n'
    ln = b'lrwxrwxrwx 1 ftp ftp 5 Jan 01  2020 '
    c = {}
    c['sl_ok'] = ln + b'good -> a.txt\r\n' + f
    c['sl_no_target'] = ln + b'latest\r\n' + f
    c['sl_twice'] = ln + b'l -> a.txt\r\n' + ln + b'l -> a.txt\r\n' + f
    c['sl_missing_dir'] = ln + b'nodir/deeper/x -> a.txt\r\n' + f
    c['sl_nul'] = ln + b'a\x00b -> a.txt\r\n' + f
    return c


def ftp_option_classes():
    """Ordinary FTP conversations under options that change what is done with the answers."""
    c = {}
    # MLSD knows symbolic links but has no field for their target
    c['fo_mlsd_symlink'] = dict(mlsd={'/sub/': b'type=symlink; lnk\r\ntype=OS.unix=slink:/etc/passwd; lnk2\r\ntype=file;size=3; a.txt\r\n'},
                                argv=['--retr-symlinks=off'], run_as='ftplist')
    # --timestamping with the local copy already there (a second run of the same mirror job)
    # (-N selects the timestamping writer only without -r: the plain "keep these files up to date" call)
    c['fo_timestamping_second_run'] = dict(argv=['-N'], prefiles={'f.test/h.txt': 'hhh'}, run_as='ftpparent', norec=True)
    # -P DIR, DIR not existing yet, a file URL given directly (its parent is listed into a temporary file first)
    c['fo_new_directory_file_url'] = dict(argv=['-P', 'new/dir'], run_as='ftpparent', norec=True, only_file=True)
    c['fo_no_remove_listing'] = dict(argv=['--no-remove-listing'])
    c['fo_no_glob'] = dict(argv=['--no-glob'])
    c['fo_save_headers'] = dict(argv=['--save-headers'])     # an option of the HTTP writer met by an FTP response
    return c


def ftp_continue_classes():
    """--continue with a partial local copy of the target: what the server says to REST."""
    c = {}
    c['fc_ok'] = dict()
    c['fc_rest_502'] = _f('REST', ('reply', b'502 Command REST not implemented\r\n', None, 'continue'))
    c['fc_rest_multiline_501'] = _f('REST', ('reply', b'501-Syntax error\r\n501 in parameters\r\n', None, 'continue'))
    return c


def http_continue_classes():
    """--continue with a partial local copy of the page: what the server says to the Range request."""
    c = {}
    c['hc_206'] = _p(resp(BODY[6:], status=b'HTTP/1.1 206 Partial Content',
                          headers=(b'Content-Range: bytes 6-%d/%d' % (len(BODY) - 1, len(BODY)),)))
    c['hc_200_range_ignored'] = _p(resp())
    c['hc_416'] = _p(resp(b'', status=b'HTTP/1.1 416 Range Not Satisfiable', headers=(b'Content-Range: bytes */%d' % len(BODY),)))
    return c


def ftp_warc_classes():
    """The FTP fetch with --warc-file: the recorder's FTP session sees every step of the conversation, also the ones
    that never happen (a connection that is refused has no control conversation to record)."""
    c = {}
    c['fw_ok'] = dict()
    c['fw_connect_refused'] = dict(fault=dict(site='f_connect', kind='OSConnRefused'), run_as='ftproot')
    c['fw_connect_timeout'] = dict(fault=dict(site='f_connect', kind='TimeoutError'), run_as='ftproot')
    c['fw_retr_550'] = _f('RETR', ('reply', b'550 no such file\r\n'))
    c['fw_data_reset'] = _f('data', ('datafail', 'OSError'))
    c['fw_greeting_421'] = dict(hostile=dict(at='greet', do=('reply', b'421 too many users\r\n'), when='always'), run_as='ftproot')
    return c


def http_warc_classes():
    c = {}
    c['hw_ok'] = _p(resp())
    c['hw_connect_refused'] = dict(_p(resp()), fault=dict(site='h_connect', kind='OSConnRefused'))
    c['hw_reset_in_header'] = _p(b'HTTP/1.1 200 OK\r\nContent-Ty', close=False, fail='OSError')
    c['hw_garbage'] = _p(b'\x00\x01 this is not http\r\n\r\n')
    return c


def check_names(tla_wire_names, tla_tokens=None):
    """Both sides must list the same class names."""
    mine = set(page_classes()) | set(robots_classes()) | set(ftp_classes()) | set(ftp_listing_classes()) | set(ftp_parent_classes())
    mine |= set(ftp_perm_classes()) | set(ftp_symlink_classes()) | set(ftp_continue_classes()) | set(http_continue_classes())
    mine |= set(ftp_warc_classes()) | set(http_warc_classes()) | set(ftp_option_classes())
    theirs = set(tla_wire_names)
    if mine != theirs:
        raise AssertionError('wire classes differ: only in python %s; only in TLA+ %s'
                             % (sorted(mine - theirs), sorted(theirs - mine)))
