"""Execute the real wpull Pipeline under the virtual loop with an environment script.

Environment events (the only nondeterminism):
  ['body', i, j]    the body of task j on item i finishes
  ['braise', i, j]  ... raises
  ['stop']          Pipeline.stop() from outside
  ['setc', c]       Pipeline.concurrency = c
  ['sraise']        the next get_item() raises   (armed; fires at the next source call)
The source is synchronous (as wpull's own sources are).

Returns the recorded event trace (list of dicts, see DESIGN appendix B) and the final outcome.
"""
import asyncio
import signal

from harness import vloop
from wpull.pipeline.pipeline import Pipeline, ItemSource, ItemTask, ItemQueue, Worker, POISON_PILL


class FalseItem(int):
    """A work item whose truth value is false (get_item() -> Optional[item]: only None means "nothing"); it is an int
    in every other respect (identity of the item in the trace)."""
    def __bool__(self):
        return False


def work_item(n):
    """Item number n as the source hands it out: every other one is a false object."""
    return FalseItem(n) if n % 2 == 1 else n


class BoomTask(Exception):
    pass


class BoomSourceRuntime(RuntimeError):
    """A source failure of a class the runtime itself uses (NotImplementedError, RecursionError are RuntimeErrors)."""


class BoomSourceLookup(KeyError):
    pass


class BoomSource(Exception):
    pass


class Livelock(BaseException):
    """The code under test kept the CPU without ever yielding to the event loop."""


def _alarm(signum, frame):
    raise Livelock()


class Run(object):
    def __init__(self, K, T, C0, script, fallback=True, max_steps=10000, timed=None, src_async=False):
        self.K, self.T, self.C0 = K, T, C0
        self.script = [list(e) for e in script]
        self.script0 = [list(e) for e in script]
        self.timed0 = dict(timed or {})
        self.fallback = fallback
        self.ev = []
        self.pending = {}       # (i, j) -> future
        self.pending_order = []
        self.wids = {}
        self.arm_sraise = False
        self.skipped = 0
        self.fired = []
        self.max_steps = max_steps
        self.steps = 0
        self.nworkers = 0
        self.src_async = src_async      # True: get_item() suspends until the environment fires ['src']
        self.src_fut = None
        self.timed = dict(timed or {})   # loop iteration number -> environment event
        self.ticks = 0
        self.choice_log = []             # (number of pending bodies) at each quiescent point
        self.chooser = None
        self.n_stop = self.n_conc = self.n_raise = 0
        self.used = False                # True: the Pipeline object has already completed one (empty) run
        self.prerun = False

    def tick(self):
        self.ticks += 1
        e = self.timed.pop(self.ticks, None)
        if e is not None:
            self.fire(list(e))

    frozen = False

    max_events = 3000

    def log(self, **kw):
        if not self.frozen:
            self.ev.append(kw)
            if len(self.ev) > self.max_events and not getattr(self, '_tripped', False):
                self._tripped = True
                self.frozen = True
                del self.ev[400:]    # the verdict is "never finishes": a prefix is enough (and keeps the batch small)
                raise Livelock()     # the code under test keeps producing events without ever finishing

    def _freeze(self):
        self.frozen = True

    def wid(self):
        t = asyncio.current_task()
        return self.wids.get(t, 0)

    # ------------------------------------------------------------------ doubles
    def build(self):
        run = self

        class Src(ItemSource):
            def __init__(self):
                self.n = 0

            @asyncio.coroutine
            def get_item(self):
                if run.prerun:
                    return None
                if run.src_async:
                    run.src_fut = asyncio.get_event_loop().create_future()
                    try:
                        yield from run.src_fut
                    finally:
                        run.src_fut = None
                if run.arm_sraise:
                    run.arm_sraise = False
                    run.log(e='src', v=-1)
                    # the class of the failure varies with the schedule (deterministically): whatever it is, it surfaces
                    raise (BoomSource, BoomSourceRuntime, BoomSourceLookup)[len(run.fired) % 3]()
                if self.n < run.K:
                    self.n += 1
                    run.log(e='src', v=self.n)
                    return work_item(self.n)
                run.log(e='src', v=0)
                return None

        class Tk(ItemTask):
            def __init__(self, j):
                self.j = j

            @asyncio.coroutine
            def process(self, item):
                if not isinstance(item, int) or isinstance(item, bool):
                    item = 0            # not something the source supplied (e.g. the queue's own marker object)
                run.log(e='begin', w=run.wid(), j=self.j, i=item)
                fut = asyncio.get_event_loop().create_future()
                run.pending[(item, self.j)] = fut
                run.pending_order.append((item, self.j))
                try:
                    yield from fut
                except BoomTask:
                    run.log(e='end', w=run.wid(), j=self.j, i=item, ok=False)
                    raise
                run.log(e='end', w=run.wid(), j=self.j, i=item, ok=True)

        class TQ(ItemQueue):
            @asyncio.coroutine
            def put_item(self, item):
                yield from ItemQueue.put_item(self, item)
                run.log(e='put', i=item, qs=self._queue.qsize(), unf=self.unfinished_items)

            @asyncio.coroutine
            def get(self):
                item = yield from ItemQueue.get(self)
                if item is POISON_PILL:
                    run.log(e='pill', w=run.wid())
                return item

            @asyncio.coroutine
            def item_done(self):
                yield from ItemQueue.item_done(self)
                run.log(e='done', w=run.wid(), unf=self.unfinished_items)

        class TW(Worker):
            @asyncio.coroutine
            def process(self):
                run.nworkers += 1
                run.wids[asyncio.current_task()] = run.nworkers
                yield from Worker.process(self)

        class TP(Pipeline):
            def stop(self):
                run.log(e='stop', ext=bool(run._ext_stop), running=(self._state.value == 'running'))
                Pipeline.stop(self)

        self._ext_stop = False
        tq = TQ()
        p = TP(Src(), [Tk(j + 1) for j in range(self.T)], tq)
        p._worker = TW(tq, p._tasks)
        p.concurrency = self.C0
        self.p = p
        return p

    # ------------------------------------------------------------------ environment
    def enabled(self, e):
        k = e[0]
        if k in ('body', 'braise'):
            return (e[1], e[2]) in self.pending
        if k == 'src':
            return self.src_fut is not None and not self.src_fut.done()
        if k == 'batch':
            return all(self.enabled(x) for x in e[1])
        return True

    def fire(self, e):
        k = e[0]
        if k == 'batch':
            # several commands delivered within ONE step of the event loop (e.g. resume and stop from one callback)
            self.fired.append([k, [list(x) for x in e[1]]])      # (recorded as one command: a replay delivers it as one)
            self._in_batch = True
            try:
                for x in e[1]:
                    self.fire(list(x))
            finally:
                self._in_batch = False
            return
        if k in ('stop', 'setc') and self.p._producer_task is None:
            return    # process() has not started yet: not "while running" (DESIGN 7)
        if k == 'setc' and e[1] == self.p.concurrency:
            return    # no change: not an event
        if not getattr(self, '_in_batch', False):
            self.fired.append(e)
        if k == 'src':
            self.src_fut.set_result(None)
        elif k == 'body':
            self.pending_order.remove((e[1], e[2]))
            self.pending.pop((e[1], e[2])).set_result(None)
        elif k == 'braise':
            self.n_raise += 1
            self.pending_order.remove((e[1], e[2]))
            self.pending.pop((e[1], e[2])).set_exception(BoomTask())
        elif k == 'stop':
            self.n_stop += 1
            self._ext_stop = True
            try:
                self.p.stop()
            finally:
                self._ext_stop = False
        elif k == 'setc':
            self.n_conc += 1
            self.log(e='setc', c=e[1])
            self.p.concurrency = e[1]
        elif k == 'sraise':
            self.n_raise += 1
            self.arm_sraise = True

    def enabled_list(self, budgets=None):
        """All environment events enabled now.  budgets: dict(stop, conc, raise_, cmax) remaining."""
        out = [['body', i, j] for (i, j) in self.pending_order]
        if self.src_fut is not None and not self.src_fut.done():
            out.append(['src'])
        b = budgets or {}
        if b.get('stop', 0) > self.n_stop:
            out.append(['stop'])
        if b.get('conc', 0) > self.n_conc:
            for c in range(0, b.get('cmax', 0) + 1):
                if c != self.p.concurrency:
                    out.append(['setc', c])
        if b.get('batch') and b.get('stop', 0) > self.n_stop and b.get('conc', 0) > self.n_conc and self.p.concurrency == 0:
            # paused: a resume and a stop request arriving together, in both orders
            for c in range(1, b.get('cmax', 0) + 1):
                out.append(['batch', [['setc', c], ['stop']]])
                out.append(['batch', [['stop'], ['setc', c]]])
        if b.get('raise_', 0) > self.n_raise:
            out += [['braise', i, j] for (i, j) in self.pending_order]
            if not self.arm_sraise:
                out.append(['sraise'])
        return out

    def env_step(self):
        self.steps += 1
        if self.steps > self.max_steps:
            return False
        self.choice_log.append(list(self.pending_order))
        if self.chooser is not None:
            e = self.chooser(self)
            if e is None:
                return False
            self.fire(e)
            return True
        while self.script:
            e = self.script.pop(0)
            if self.enabled(e):
                self.fire(e)
                return True
            self.skipped += 1
        if self.fallback and self.src_fut is not None and not self.src_fut.done():
            self.fire(['src'])
            return True
        if self.fallback and self.pending_order:
            i, j = self.pending_order[0]
            self.fire(['body', i, j])
            return True
        if self.timed:
            k = min(self.timed)
            self.fire(list(self.timed.pop(k)))
            return True
        return False

    def _prerun(self, p):
        """The same Pipeline object is run once before the recorded execution: its source says "nothing" at once,
        the run ends in the ordinary way, nothing of it is recorded.  What the object carries over (state, events,
        queue, worker set) is then part of the recorded run (seeded change C13-r5v1: a stale 'unpaused' event)."""
        saved = (self.ev, self.steps, self.ticks, self.timed)
        self.ev, self.timed, self.prerun = [], {}, True
        p.concurrency = 1
        try:
            kind, val = vloop.run(lambda: p.process(), lambda: False)
        finally:
            self.prerun = False
            self.ev, self.steps, self.ticks, self.timed = saved
            self.nworkers, self.wids, self._ext_stop = 0, {}, False
        if kind != 'ok':
            raise RuntimeError('pre-run of an empty pipeline did not finish: %r %r' % (kind, val))
        p.concurrency = self.C0

    def execute(self):
        p = self.build()
        if self.used:
            self._prerun(p)
        old = signal.signal(signal.SIGVTALRM, _alarm)
        signal.setitimer(signal.ITIMER_VIRTUAL, self.watchdog_s)
        try:
            kind, val = self._execute(p)
        finally:
            signal.setitimer(signal.ITIMER_VIRTUAL, 0)
            signal.signal(signal.SIGVTALRM, old)
        self._classify(p, kind, val)
        return self.ev

    watchdog_s = 0.5   # CPU seconds without finishing: a run normally takes milliseconds

    def _execute(self, p):
        try:
            return self._execute2(p)
        except Livelock:
            return ('livelock', None)

    def _execute2(self, p):
        return vloop.run(lambda: p.process(), self.env_step, tick_hook=self.tick if self.timed else None,
                              before_cleanup=self._freeze)

    def _classify(self, p, kind, val):
        self.frozen = False
        if kind == 'exc' and isinstance(val, Livelock):
            kind = 'livelock'
        if kind == 'ok':
            self.log(e='ret', v='ok')
            self.outcome = 'ok'
        elif kind == 'exc':
            if isinstance(val, (BoomTask, BoomSource, BoomSourceRuntime, BoomSourceLookup)):
                self.log(e='ret', v='error')
                self.outcome = 'error'
            else:
                self.log(e='ret', v='crash:' + type(val).__name__)
                self.outcome = 'crash:%s:%s' % (type(val).__name__, val)
        else:
            q = p._item_queue
            self.log(e='hang', busy=(kind == 'livelock'), conc=p.concurrency, state=p._state.value, qs=q._queue.qsize(),
                     unf=q.unfinished_items, prod_done=bool(p._producer_task and p._producer_task.done()))
            self.outcome = 'hang' if kind == 'hang' else 'livelock'

    def enabled_now(self):
        """For stateless exploration: environment events enabled at the current quiescent point."""
        return [['body', i, j] for (i, j) in self.pending_order]


def confirm_livelock(r):
    """A CPU-time watchdog can be tripped by a garbage-collection pause on a loaded machine.  The executions are
    deterministic, so a verdict `livelock` is only kept if the same schedule does it again with a generous limit."""
    if r.outcome != 'livelock':
        return r
    if r.chooser is not None:
        # (the events fired so far, then the default environment: the watchdog cut the schedule short, so the
        # recorded prefix alone would leave the run waiting for an environment that never answers - not a hang)
        again = Run(r.K, r.T, r.C0, r.fired, fallback=True, src_async=r.src_async)
    else:
        again = Run(r.K, r.T, r.C0, r.script0, fallback=r.fallback, timed=r.timed0, src_async=r.src_async)
    again.watchdog_s = 20.0
    again.used = r.used
    again.execute()
    return again


def run_script(K, T, C0, script, fallback=True, timed=None):
    r = Run(K, T, C0, script, fallback, timed=timed)
    ev = r.execute()
    return r, ev
