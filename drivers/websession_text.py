"""C16, URL-text dimension: URL texts (user-info, IDN / IPv4 / IPv6 hosts, ports, encoded delimiters, %0D%0A, spaces,
non-ASCII, dot segments) rendered from component classes enumerated by TLC (WebSessionGen.tla, TextSpec), fed to the
real code three ways: as the start URL of a visit, as the Location of a 302 and as the Location of a 307.
What is expected on the wire comes from a table written against RFC 3986 / 7230, not from wpull's normalizer.
"""
import base64
import json
import re
import urllib.parse

from harness import tlc
from drivers import websession_exec as X

# listeners for the extra host forms
X.HOSTS.update({'hi': ('xn--bcher-kva.test', '10.0.1.1'), 'h4': ('10.0.1.2', '10.0.1.2'), 'h6': ('::1', '::1'),
                # a host whose name merely ends in another host's name (a sub-domain of h1, and a look-alike)
                'hs': ('sub.h1.test', '10.0.1.3'), 'hx': ('xh1.test', '10.0.1.4'),
                # two hosts given as address literals that end alike (an address has no domain hierarchy)
                'ia': ('10.0.2.7', '10.0.2.7'), 'ib': ('10.9.2.7', '10.9.2.7'),
                # host names without a dot, and one under ".local" (http.cookiejar's "effective request-host")
                'na': ('intranet', '10.0.3.1'), 'nb': ('otherhost', '10.0.3.2'), 'nl': ('printer.local', '10.0.3.3'),
                # the "effective request-host" of `intranet`, as a host of its own; hosts written with the root dot
                'nm': ('intranet.local', '10.0.3.4'), 'da': ('shop.test.', '10.0.3.5'), 'db': ('bank.test.', '10.0.3.6')})

UI = {'none': ('', None), 'user': ('user@', None), 'userpw': ('user:pw@', ('user', 'pw')),
      'enc': ('us%40er:p%3Aw@', ('us@er', 'p:w')), 'crlf': ('u%0d%0a:p%0d%0a@', ('u\r\n', 'p\r\n')),
      'emptypw': ('user:@', None),
      # credentials longer than one base64 output line (57 octets)
      'long': ('u' * 30 + ':' + 'p' * 64 + '@', ('u' * 30, 'p' * 64))}
HOST = {'plain': ('h1.test', 'h1', 'h1.test'), 'upper': ('H1.TEST', 'h1', 'h1.test'),
        'idn': ('bücher.test', 'hi', 'xn--bcher-kva.test'), 'ip4': ('10.0.1.2', 'h4', '10.0.1.2'),
        'ip6': ('[::1]', 'h6', '[::1]'), 'ip6long': ('[0:0:0:0:0:0:0:1]', 'h6', '[::1]'),
        # percent-escapes in the host are not decoded: such a URL is refused (if it were fetched, the escapes would have
        # to stay escapes)
        'pctcrlf': ('h1%0d%0aX-Evil:1.test', 'h1', 'h1%0d%0ax-evil:1.test'),
        'pcttab': ('h1%09x.test', 'h1', 'h1%09x.test')}
# 'xdef': an explicit port that is the default of ANOTHER scheme (must still be named in Host)
PORT = {'none': ('', 'def'), 'default': (':80', 'def'), 'other': (':8080', 'alt'), 'padded': (':080', 'def'),
        'xdef': (':443', 'alt'),
        # port 0 is a port like any other in a URL (nothing listens there): not a spelling of the default port
        'zero': (':0', 'zero')}
# text -> acceptable spellings on the wire
PATH = {'p': ('/p', ['/p']), 'empty': ('', ['/']), 'slash': ('/', ['/']), 'space': ('/a b', ['/a%20b']),
        'crlf': ('/a%0D%0Ab', ['/a%0D%0Ab', '/a%0d%0ab']), 'delims': ('/%2F%3F%23', ['/%2F%3F%23', '/%2f%3f%23']),
        'uni': ('/ü', ['/%C3%BC', '/%c3%bc']), 'dots': ('/a/../b/./c', ['/b/c', '/a/../b/./c']),
        'pct': ('/100%', ['/100%25', '/100%']), 'bslash': ('/a\\b', ['/a%5Cb', '/a%5cb', '/a\\b']),
        'semi': ('/a;b=c', ['/a;b=c', '/a%3Bb=c', '/a%3Bb%3Dc']),
        # an "@" after the authority (the host is still the one before the first "/")
        'at': ('/u/@h2.test/x', ['/u/@h2.test/x', '/u/%40h2.test/x'])}
QUERY = {'none': ('', ['']), 'kv': ('?k=v', ['?k=v']), 'space': ('?k=a b', ['?k=a%20b', '?k=a+b']),
         'crlf': ('?k=%0D%0Ax', ['?k=%0D%0Ax', '?k=%0d%0ax']), 'uni': ('?ä=ö', ['?%C3%A4=%C3%B6', '?%c3%a4=%c3%b6']),
         'amp': ('?a=b&&c', ['?a=b&&c']), 'qmark': ('?a=b?c', ['?a=b?c', '?a=b%3Fc']), 'hashenc': ('?a=%23', ['?a=%23'])}
FRAG = {'none': '', 'f': '#f', 'spacef': '# x'}


def render(c):
    return 'http://' + UI[c['ui']][0] + HOST[c['host']][0] + PORT[c['port']][0] + PATH[c['path']][0] + QUERY[c['query']][0] + FRAG[c['frag']]


def expect(c):
    host = HOST[c['host']]
    pc = PORT[c['port']][1]
    auth = host[2] + (PORT[c['port']][0] if pc in ('alt', 'zero') else '')
    targets = [p + q for p in PATH[c['path']][1] for q in QUERY[c['query']][1]]
    if c['path'] == 'empty' and c['query'] != 'none':
        targets = ['/' + q for q in QUERY[c['query']][1]]
    return {'host': host[1], 'scheme': 'http', 'port': pc, 'targets': targets, 'authority': auth,
            'absolutes': ['http://' + auth + t for t in targets]}


def expected_plain():
    from drivers.websession import expected
    return expected({'scheme': 'http', 'host': 'h2', 'port': 'def', 'path': 'a', 'creds': False})


def text_class(c):
    odd = [k for k, plain in (('ui', 'none'), ('host', 'plain'), ('port', 'none'), ('path', 'p'), ('query', 'none'),
                              ('frag', 'none')) if c[k] != plain]
    return '+'.join('%s=%s' % (k, c[k]) for k in odd) or 'plain'


def enumerate_cases(max_odd):
    cfg = ('SPECIFICATION TextSpec\nCONSTANTS Hosts = {"h1"} Paths = {"a"} Schemes = {"http"} PortsC = {"def"} MaxRed = 1 '
           'MaxHops = 1 FixCopy = FALSE Statuses = {200} StartHosts = {"h1"} Refs = {"none"} SimMode = FALSE MaxOdd = %d\nCONSTRAINT EmitText\nCHECK_DEADLOCK FALSE\n' % max_odd)
    res = tlc.run_tlc('WebSessionGen', cfg, workers=2, timeout=600)
    tlc.require_ok(res, 'URL text case enumeration')
    cases = []
    for m in re.finditer(r'<<"SCRIPT", "(.*?)">>', res['out']):
        cases.append(json.loads(m.group(1).replace('\\"', '"')))
    cases.sort(key=lambda c: json.dumps(c, sort_keys=True))
    return cases, res


def _owner(value, c, exp_host):
    m = re.match(r'^Basic ([A-Za-z0-9+/=]+)$', value)
    if not m:
        return 'other'
    try:
        user, _, pw = base64.b64decode(m.group(1)).decode('utf-8', 'replace').partition(':')
    except Exception:
        return 'other'
    want = UI[c['ui']][1]
    return exp_host if want and (user, pw) == want else 'other'


def run_one(sc):
    """sc: {'text': case, 'use': start|loc302|loc307}.  Returns a monitor trace."""
    c = sc['text']
    use = sc['use']
    if use == 'cookie':
        if c['cookie'].startswith('host-only->'):
            return run_related_host_case(c['cookie'].split('>')[1])
        if c['cookie'].startswith('host-only:'):
            a_, b_ = c['cookie'][len('host-only:'):].split('->')
            return run_related_host_case(b_, a_)
        if c['cookie'].startswith('domain:'):
            _, setter, target, domain = c['cookie'].split(':')
            return run_domain_cookie_case(setter, target, domain)
        return run_cookie_case(c['cookie'])
    text = render(c)
    ascii_only = all(ord(ch) < 128 for ch in text)
    exp = expect(c)
    plain = {'scheme': 'http', 'host': 'h2', 'port': 'def', 'path': 'a', 'creds': False}
    if use == 'referer307':
        # the referring page (with user-info) is on the SAME host as the URL fetched, which answers with a replaying
        # redirect to another host: the copied request must not carry the credentials along in Referer
        from wpull.url import URLInfo
        from drivers.websession import expected
        same = {'scheme': 'http', 'host': 'h1', 'port': 'def', 'path': 'a', 'creds': False}
        script = {'start': same, 'maxred': 3, 'steps': [{'status': 307, 'loc': plain}, {'status': 200}]}
        try:
            parent = URLInfo.parse(text).url
        except ValueError:
            parent = None
        if parent is None:
            ev, outcome = [{'e': 'outcome', 'v': 'error', 'detail': 'rejected'}], 'rejected'
        else:
            ev, outcome = X.run_script(script, referer_text=parent)
        exps = [expected(same), expected(plain)]
    elif use == 'referer':
        # the text is the URL of the page that linked to a URL on ANOTHER host: what the processor puts into Referer
        script = {'start': plain, 'steps': [{'status': 200}], 'maxred': 3}
        from wpull.url import URLInfo
        try:
            parent = URLInfo.parse(text).url        # the table stores the normalized URL of the referring page
        except ValueError:
            parent = None
        if parent is None:
            ev, outcome = [{'e': 'outcome', 'v': 'error', 'detail': 'rejected'}], 'rejected'
        else:
            ev, outcome = X.run_script(script, referer_text=parent)
        exps = [expected_plain()]
    elif use == 'start':
        # (the jar already holds a cookie of every host: only the cookie of the host being asked may go out)
        script = {'start': plain, 'steps': [{'status': 200}], 'maxred': 3, 'jar0': ['h1', 'h2', 'h3']}
        try:
            ev, outcome = X.run_script(script, start_text=text)
        except ValueError as e:
            ev, outcome = [{'e': 'outcome', 'v': 'error', 'detail': 'rejected:' + str(e)[:80]}], 'rejected'
        exps = [exp]
    else:
        status = 302 if use.startswith('loc302') else 307
        script = {'start': plain, 'maxred': 3, 'proxy': use.endswith('p'),
                  'steps': [{'status': status, 'loc': plain, 'loc_text': text}, {'status': 200}]}
        ev, outcome = X.run_script(script)
        from drivers.websession import expected
        exps = [expected(plain), exp]
    out = []
    k = 0
    for e in ev:
        e = dict(e)
        if e['e'] == 'send':
            x = exps[min(k, len(exps) - 1)]
            k += 1
            e['exp'] = x
            e.pop('url', None)
            pn = e.pop('pn', None)
            if pn in (80, 443) and e['at']['host'] != 'proxy':
                # no TLS on the in-memory network: a shared listener port is read relative to the URL's scheme
                sch = x['scheme']
                e['at'] = dict(e['at'], scheme=sch, port='def' if pn == {'http': 80, 'https': 443}[sch] else 'alt')
            # credentials from this URL's user-info belong to this URL's host
            e['auth'] = [(_owner(v, c, x['host']) if a == 'other' else a) for a, v in zip(e['auth'], e.get('_authv', e['auth']))]
            e.pop('_authv', None)
        out.append(e)
    return {'maxred': 3, 'ev': out}


# Set-Cookie values a server may send (bytes as they appear on the wire, latin-1): what comes back in Cookie must
# keep the request well formed and must stay with the host that set it
COOKIE_VALUES = {'plain': b'v1', 'space': b'a b', 'tab': b'a\tb', 'quote': b'"a b"', 'comma': b'a,b', 'latin1': b'caf\xe9',
                 'nul': b'a\x00b', 'del': b'a\x7fb', 'bare_cr': b'a\rX-Evil: 1', 'vt': b'a\x0bX-Evil: 1',
                 'nel': b'a\x85X-Evil: 1', 'fold': b'a\r\n\tX-Evil: 1', 'long': b'x' * 3000, 'empty': b'', 'eq': b'a=b=c',
                 'pct': b'%0D%0AX-Evil:%201'}


def run_related_host_case(target, setter='h1'):
    """h1 sets a host-only cookie (no Domain attribute), then redirects to a host whose NAME is related to h1's
    (sub-domain / suffix look-alike): the cookie belongs to h1 alone."""
    from drivers.websession import expected
    U = lambda h, p: {'scheme': 'http', 'host': h, 'port': 'def', 'path': p, 'creds': False}
    script = {'start': U(setter, 'a'), 'maxred': 3,
              'steps': [{'status': 302, 'loc': U(setter, 'b'), 'setcookie': True}, {'status': 302, 'loc': U(target, 'a'), 'setcookie': False},
                        {'status': 200}]}
    ev, outcome = X.run_script(script)
    exps = [expected(U(setter, 'a')), expected(U(setter, 'b')), expected(U(target, 'a'))]
    out = []
    k = 0
    for e in ev:
        e = dict(e)
        if e['e'] == 'send':
            e['exp'] = exps[min(k, 2)]
            k += 1
            e.pop('url', None)
            e.pop('_authv', None)
        out.append(e)
    return {'maxred': 3, 'ev': out}


def run_domain_cookie_case(setter, target, domain):
    """`setter` sets a cookie WITH a Domain attribute, then redirects to `target`: for address literals (and for a
    domain that is not the setter's own) the cookie must stay where it was set."""
    from drivers.websession import expected
    U = lambda h, p: {'scheme': 'http', 'host': h, 'port': 'def', 'path': p, 'creds': False}
    head = (b'HTTP/1.1 302 Found\r\nLocation: ' + X.url_text(U(setter, 'b')).encode() + b'\r\nSet-Cookie: c_' + setter.encode()
            + b'=1; Domain=' + domain.encode() + b'; Path=/\r\nContent-Length: 0\r\n\r\n')
    script = {'start': U(setter, 'a'), 'maxred': 3,
              'steps': [{'status': 302, 'loc': U(setter, 'b'), 'raw': head},
                        {'status': 302, 'loc': U(target, 'a'), 'setcookie': False}, {'status': 200}]}
    ev, outcome = X.run_script(script)
    exps = [expected(U(setter, 'a')), expected(U(setter, 'b')), expected(U(target, 'a'))]
    out = []
    k = 0
    for e in ev:
        e = dict(e)
        if e['e'] == 'send':
            e['exp'] = exps[min(k, 2)]
            k += 1
            e.pop('url', None)
            e.pop('_authv', None)
        out.append(e)
    return {'maxred': 3, 'ev': out}


def run_cookie_case(name):
    from drivers.websession import expected
    U = lambda h, p: {'scheme': 'http', 'host': h, 'port': 'def', 'path': p, 'creds': False}
    head = (b'HTTP/1.1 302 Found\r\nLocation: ' + X.url_text(U('h1', 'b')).encode() + b'\r\nSet-Cookie: c_h1='
            + COOKIE_VALUES[name] + b'; Path=/\r\nContent-Length: 0\r\n\r\n')
    script = {'start': U('h1', 'a'), 'maxred': 3,
              'steps': [{'status': 302, 'loc': U('h1', 'b'), 'raw': head},
                        {'status': 302, 'loc': U('h2', 'a'), 'setcookie': False}, {'status': 200}]}
    ev, outcome = X.run_script(script)
    exps = [expected(U('h1', 'a')), expected(U('h1', 'b')), expected(U('h2', 'a'))]
    out = []
    k = 0
    for e in ev:
        e = dict(e)
        if e['e'] == 'send':
            e['exp'] = exps[min(k, 2)]
            k += 1
            e.pop('url', None)
            e.pop('_authv', None)
        out.append(e)
    return {'maxred': 3, 'ev': out}


def run_text_cases(chk, quick):
    cases, res = enumerate_cases(2 if quick else 3)
    chk.states += res['distinct']
    chk.extra['text_cases'] = len(cases)
    runs = []
    for c in cases:
        text = render(c)
        for use in ('start', 'loc302', 'loc307', 'referer', 'referer307', 'loc302p', 'loc307p'):
            if use.endswith('p') and (c['ui'] != 'none' or c['host'] not in ('plain', 'upper', 'pctcrlf', 'pcttab') or c['port'] in ('other', 'zero')):
                continue        # through a plain HTTP proxy (absolute-form target): URLs without user-info on the known host
            if use in ('referer', 'referer307') and (c['ui'] == 'none' or c['host'] != 'plain' or c['port'] not in ('none', 'default')):
                continue        # as a referring page: the URLs with user-info, on the ordinary host
            if use != 'start' and any(ord(ch) >= 128 for ch in text):
                continue        # a Location field is ASCII; non-ASCII forms are only used as start URLs
            if use != 'start' and c['port'] == 'xdef':
                continue        # the cross-default port is exercised as a start URL only (one listener per port)
            sc = {'text': c, 'use': use, 'text_class': text_class(c), 'url_text': text}
            runs.append(('text/' + use, sc, run_one(sc)))
    for target in ('hs', 'hx'):
        sc = {'text': {'cookie': 'host-only->' + target}, 'use': 'cookie', 'text_class': 'cookie=related-host-' + target}
        runs.append(('text/cookie', sc, run_related_host_case(target)))
    for setter, target in (('na', 'nm'), ('nm', 'na')):
        sc = {'text': {'cookie': 'host-only:%s->%s' % (setter, target)}, 'use': 'cookie',
              'text_class': 'cookie=effective-host-%s-%s' % (setter, target)}
        runs.append(('text/cookie', sc, run_related_host_case(target, setter)))
    for setter, target, domain in (('ia', 'ib', '.2.7'), ('ia', 'ib', '2.7'), ('h1', 'h2', '.test'), ('h1', 'h2', 'test'),
                                   ('h1', 'hx', 'h1.test'),
                                   ('na', 'nb', '.local'), ('na', 'nb', 'local'), ('na', 'nl', '.local'),
                                   ('na', 'nb', 'intranet'),
                                   # a top-level domain written with the root dot
                                   ('da', 'db', '.test.'), ('da', 'db', 'test.')):
        sc = {'text': {'cookie': 'domain:%s:%s:%s' % (setter, target, domain)}, 'use': 'cookie',
              'text_class': 'cookie=domain-attribute-%s-%s' % (setter, domain)}
        runs.append(('text/cookie', sc, run_domain_cookie_case(setter, target, domain)))
    for name in sorted(COOKIE_VALUES):
        sc = {'text': {'cookie': name}, 'use': 'cookie', 'text_class': 'cookie=' + name}
        runs.append(('text/cookie', sc, run_cookie_case(name)))
    return runs
