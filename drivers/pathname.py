"""C15 - downloaded files are always written inside the download directory.

1. TLC enumerates the scenario clusters of specs/PathNameGen.tla (path parts x sanitiser configurations, URLs x
   structural configurations, Content-Disposition values x configurations), evaluates the transcription of
   wpull/path.py + the writer session's path choice (specs/PathName.tla) and checks Contained on it (design check);
2. every scenario is run through the REAL PathNamer / BaseFileWriterSession under a real temporary directory;
3. TLC evaluates Returns / Prefixed / Contained / Inside on the real paths (PathNameMon: VIOLATION) and compares
   them with the transcription (PathNameTrace: DRIFT).
"""
import json
import os
import time
from concurrent.futures import ThreadPoolExecutor, ProcessPoolExecutor

from harness import tlc
from drivers import urlnorm

FIX = {'FixWinTail': 'TRUE'}
if os.environ.get('VERIF_PATHNAME_FIX'):
    for _k in os.environ['VERIF_PATHNAME_FIX'].split(','):
        if _k:
            FIX[_k] = 'TRUE'

CLAUSES = {1: 'Returns', 2: 'Prefixed', 4: 'Contained', 8: 'Inside'}
INVS = ['TypeOK', 'MReturns', 'MContained']


def consts():
    c = dict(urlnorm.FIX)
    c.update(FIX)
    return ' '.join('%s = %s' % kv for kv in sorted(c.items()))


def generate(cluster, mod, rem, workers=3, timeout=1500):
    cfg = ('SPECIFICATION Spec\nCONSTANTS %s\n Cluster = "%s" SampleMod = %d SampleRem = %d Check = TRUE EmitOn = TRUE\n'
           'CONSTRAINT Emit\n%sCHECK_DEADLOCK FALSE\n'
           % (consts(), cluster, mod, rem, ''.join('INVARIANT %s\n' % i for i in INVS)))
    # (no -coverage: see drivers/urlnorm.generate; the single action Expand produced every non-initial state)
    res = tlc.run_tlc('PathNameGen', cfg, workers=workers, timeout=timeout, coverage=False, heap='3g')
    scens = urlnorm.parse_families(res['out'])
    res['out'] = urlnorm._RE_FAM.sub('', res['out'])
    if res['ok']:
        res['coverage'] = {'Expand': res['distinct'] - urlnorm._n_init(res)}
    return scens, res


def plan(tier):
    if tier == 'quick':
        return [('P', 100), ('U', 900), ('X', 3000), ('H', 300)]
    return [('P', 1), ('U', 40), ('X', 120), ('H', 8)]


def _exec_chunk(scens):
    from harness import wpull_compat  # noqa: F401
    from drivers import pathname_exec
    return pathname_exec.run_scenarios(scens)


def execute(scens, procs=6):
    if len(scens) < 3000:
        return _exec_chunk(scens)
    chunks = [scens[i:i + 2000] for i in range(0, len(scens), 2000)]
    out = []
    with ProcessPoolExecutor(max_workers=procs) as ex:
        for part in ex.map(_exec_chunk, chunks):
            out.extend(part)
    return out


MON_FIELDS = ['oc', 'pre', 'parts', 'inside', 'os', 'nc']
TRACE_FIELDS = ['cl', 'cfg', 'part', 'cd', 'hascd', 'nurl', 'oc', 'pre', 'parts']


def monitor(traces, chunk=4000, par=8):
    cfg = 'SPECIFICATION MSpec\nCONSTANTS %s\nCONSTRAINT Record\nPOSTCONDITION Post\nCHECK_DEADLOCK FALSE\n' % consts()
    return urlnorm._validate('PathNameMon', cfg, traces, chunk, par)


def strict(traces, chunk=3000, par=8):
    cfg = 'SPECIFICATION TSpec\nCONSTANTS %s\nCONSTRAINT Record\nPOSTCONDITION Post\nCHECK_DEADLOCK FALSE\n' % consts()
    return urlnorm._validate('PathNameTrace', cfg, traces, chunk, par)


CALLS = {'P': 'PathNamer.safe_filename', 'U': 'PathNamer.get_filename', 'H': 'BaseFileWriterSession.process_response'}


def _t(cp):
    return ''.join(chr(c) for c in cp)


def signature(clause, rec):
    sig = {'clause': clause, 'os_type': rec['os']}
    if clause == 'Returns':
        sig['exception'] = rec['exc']
        sig['outcome'] = rec['oc']
    elif clause == 'Contained':
        seps = '/\\' if rec['os'] == 'windows' else '/'
        kinds = set()
        for p in rec['parts']:
            s = _t(p)
            if s == '':
                kinds.add('empty-component')
            elif s in ('.', '..'):
                kinds.add('dot-name')
            if any(c in seps for c in s):
                kinds.add('separator')
            if rec['nc'] and any(ord(c) < 32 for c in s):
                kinds.add('control-character')
        sig['offending'] = sorted(kinds)
        sig['call'] = CALLS[rec['cl']]
    else:
        sig['call'] = CALLS[rec['cl']]
    return sig


def describe(rec):
    cfg = rec['cfg']
    what = {'P': 'part %s' % ascii(_t(rec['part'])), 'U': 'URL %s' % ascii(_t(rec['raw'])),
            'H': 'URL %s with Content-Disposition filename=%s' % (ascii(_t(rec['raw'])), ascii(_t(rec['cd'])))}[rec['cl']]
    return '%s, %s, config %s -> %s' % (CALLS[rec['cl']], what, json.dumps(cfg, sort_keys=True),
                                        ascii(rec.get('path')) if rec['oc'] == 'value' else rec['oc'] + ':' + rec['exc'])


def run(chk):
    quick = chk.tier == 'quick'
    pl = plan(chk.tier)
    timing = {}
    t0 = time.time()
    with ThreadPoolExecutor(max_workers=4) as ex:
        gens = list(ex.map(lambda e: generate(e[0], e[1], chk.seed % e[1], workers=3 if quick else 5), pl))
    scens, cs = [], []
    for (cluster, mod), (ss, res) in zip(pl, gens):
        chk.design('PathNameGen[%s,1/%d]' % (cluster, mod), res,
                   constants=dict(Cluster=cluster, SampleMod=mod, SampleRem=chk.seed % mod, **FIX), expect_actions=['Expand'])
        if len(ss) != res['distinct'] - urlnorm._n_init(res):
            raise tlc.TLCError('generator %s: %d scenarios printed, %d done states' % (cluster, len(ss), res['distinct']))
        cs.append(dict(cluster=cluster, sample_mod=mod, scenarios=len(ss)))
        scens.extend(ss)
    chk.constants = {'clusters': cs, 'fix_constants': FIX}
    timing['generate_and_design_s'] = round(time.time() - t0, 1)

    # every third scenario gets its PathNamer the way the application builds it: from command-line options through
    # FileWriterSetupTask (four equivalent spellings of the same configuration)
    for i, s_ in enumerate(scens):
        if i % 3 == 0 and s_['cfg']['ml']:       # ("no length limit" cannot be said on the command line)
            s_['opt'] = (i // 3) % 4
    t0 = time.time()
    recs = [r for r in execute(scens) if r is not None]
    timing['execute_real_s'] = round(time.time() - t0, 1)
    chk.extra['scenarios_via_command_line_options'] = sum(1 for s_ in scens if 'opt' in s_)
    chk.extra['scenarios_generated'] = len(scens)
    chk.extra['scenarios_with_parseable_url'] = len(recs)

    t0 = time.time()
    mv, mst = monitor([{'ev': [{k: r[k] for k in MON_FIELDS}]} for r in recs])
    chk.trace_stats(mst)
    timing['monitor_s'] = round(time.time() - t0, 1)
    t0 = time.time()
    sv, sst = strict([{'ev': [{k: r[k] for k in TRACE_FIELDS}]} for r in recs])
    chk.trace_stats(sst)
    timing['strict_s'] = round(time.time() - t0, 1)
    chk.extra['timing'] = timing

    for i, (rec, m, s) in enumerate(zip(recs, mv, sv)):
        chk.validated(1)
        key = (rec['cl'], json.dumps(rec['cfg'], sort_keys=True), _t(rec['part']), _t(rec['raw']), _t(rec['cd']))
        # non-trivial: the sanitiser had to change something, or refused
        plain = rec['oc'] == 'value' and rec['cl'] == 'P' and rec['parts'] == [rec['part']]
        chk.case(key=key, nontrivial=not plain)
        if len(chk.samples) < 6 and i % 499 == 7 and sum(1 for x in chk.samples if x['call'] == CALLS[rec['cl']]) < 2:
            chk.samples.append({'call': CALLS[rec['cl']], 'config': rec['cfg'], 'part': _t(rec['part']), 'url': _t(rec['raw']),
                                'content_disposition_filename': _t(rec['cd']), 'outcome': rec['oc'], 'chosen': rec.get('path')})
        if m['matched'] < m['len'] and m['bad'] == 0:
            raise tlc.TLCError('monitor did not consume a trace: %r' % (m,))
        for bit, clause in sorted(CLAUSES.items()):
            if m['bad'] & bit:
                chk.violation(signature(clause, rec), '%s false: %s' % (clause, describe(rec)),
                              {'scenario': dict({k: rec[k] for k in ('cl', 'cfg', 'part', 'cd', 'hascd')}, **({'opt': rec['opt']} if rec.get('opt') is not None else {})), 'url': rec['raw'],
                               'text': {'part': _t(rec['part']), 'url': _t(rec['raw']), 'cd': _t(rec['cd'])}})
        if not s['accepted']:
            chk.drifted('PathName.tla disagrees with wpull.path: %s' % describe(rec), None)
    e2e_outside(chk, quick)
    if not chk.samples and recs:
        r = recs[0]
        chk.samples.append({'call': CALLS[r['cl']], 'config': r['cfg'], 'part': _t(r['part']), 'chosen': r.get('path')})
    chk.rule = ('scenarios enumerated by TLC from specs/PathNameGen.tla (P: path parts x 120 sanitiser configurations; '
                'U: URLs x 64 structural configurations; X: URLs x 120 sanitiser configurations with directories; H: Content-Disposition values x 3 URLs x 16 configurations) and run '
                'through the real PathNamer / BaseFileWriterSession; distinct = distinct (call, configuration, input); '
                'non-trivial = not (safe_filename returned its argument unchanged)')
    chk.exhaustive = all(mod == 1 for (_, mod) in pl)
    chk.extra['property_clauses'] = sorted(CLAUSES.values())


# ------------------------------------------------------------------------------------------- whole crawls
# Names reach the file system on other ways than PathNamer too (symbolic links of an FTP listing made with
# --retr-symlinks=off, names from listings / Content-Disposition).  Whole crawls (the C09 executor: real application,
# scripted hostile server) are run with the download directory two levels below an otherwise empty directory; whatever
# exists there afterwards, next to the crawl's own directory, was created OUTSIDE the download directory.
E2E_CASES = [
    ('ftpsym', 'sl_escape'), ('ftpsym', 'sl_abs'), ('ftpsym', 'sl_ok'), ('ftplist', 'ls_names_weird'), ('ftplist', 'ml_names_weird'),
    ('ftplist', 'ls_symlink_escape'), ('page', 'cd_garbage'), ('page', 'fn_long_component'),
]


def _e2e_child(ctx, cls, outer, conn):
    try:
        import tempfile
        devnull = os.open(os.devnull, os.O_WRONLY)
        os.dup2(devnull, 2)                       # the crawl's log output
        os.close(devnull)
        tempfile.tempdir = outer                  # the crawl's own directory is made here (mkdtemp of the C09 executor)
        from drivers import errorflow as E, errorflow_gen as G
        ln = b'lrwxrwxrwx 1 ftp ftp 5 Jan 01  2020 '
        f = b'-rw-r--r-- 1 ftp ftp 3 Jan 01  2020 a.txt\r\n'
        c = dict(mode='wire', ctx=ctx, cls=cls, seg='whole', site='none', kind='none')
        if cls in ('sl_escape', 'sl_abs'):
            j = E.job_of(dict(c, cls='sl_ok'))
            name = b'../../../ESCAPED_REL' if cls == 'sl_escape' else os.path.join(outer, 'ESCAPED_ABS').encode()
            j['listings'] = {'/sub/': ln + name + b' -> /etc/passwd\r\n' + f}
        else:
            j = E.job_of(c)
        facts = E.run_ftp(j) if ctx.startswith('ftp') else E.run_http(j)
        conn.send(('ok', facts.get('pipe'), facts.get('hang')))
    except BaseException as e:     # noqa
        conn.send(('exc', '%s: %s' % (type(e).__name__, e), 0))


def e2e_outside(chk, quick):
    import multiprocessing
    import shutil
    import tempfile
    mp = multiprocessing.get_context('fork')
    done = []
    for ctx, cls in E2E_CASES:
        outer = tempfile.mkdtemp(prefix='c15e2e_')
        try:
            a, b = mp.Pipe()
            p = mp.Process(target=_e2e_child, args=(ctx, cls, outer, b))
            p.start()
            res = a.recv() if a.poll(900) else ('timeout', '', 0)
            p.join(10)
            if p.is_alive():
                p.kill()
            if res[0] != 'ok':
                raise tlc.TLCError('whole-crawl case %s/%s did not run: %r' % (ctx, cls, res))
            left = sorted(os.listdir(outer))
            chk.validated(1)
            chk.case(key=('e2e', ctx, cls), nontrivial=True)
            done.append({'case': '%s/%s' % (ctx, cls), 'left_outside': left})
            if left:
                chk.violation({'clause': 'NothingOutsideDownloadDir', 'via': 'crawl', 'class': cls},
                              'a crawl (%s/%s) created %s outside its download directory' % (ctx, cls, left),
                              {'e2e': [ctx, cls]})
        finally:
            shutil.rmtree(outer, ignore_errors=True)
    chk.extra['whole_crawl_cases'] = done


def replay(chk, path):
    import tempfile
    import shutil
    from drivers import pathname_exec
    rp = json.load(open(path))['replay']
    if 'e2e' in rp:
        print('whole-crawl case %s: run ./check C15 (the case is part of every run)' % (rp['e2e'],))
        return 0
    s = dict(rp['scenario'])
    s['url'] = rp['url']
    base = tempfile.mkdtemp(prefix='c15_')
    try:
        rec = pathname_exec.run_scenario(s, os.path.join(base, 'root'))
    finally:
        shutil.rmtree(base, ignore_errors=True)
    print(describe(rec) if rec else 'URL does not parse')
    if rec:
        print('outcome', rec['oc'], rec['exc'], 'prefixed', rec['pre'], 'inside', rec['inside'],
              'parts', [ascii(_t(p)) for p in rec['parts']])
    return 0


def selftest(chk):
    """Binding self-test: a corrupted log field must be rejected by the strict spec / flagged by the monitor."""
    import copy
    scens, res = generate('H', 5000, 0, workers=2)
    tlc.require_ok(res, 'generator H')
    recs = [r for r in execute(scens[:400]) if r is not None]
    good = next(r for r in recs if r['oc'] == 'value' and len(r['parts']) >= 2 and r['os'] == 'unix')
    c1 = copy.deepcopy(good)
    c1['parts'][-1] = c1['parts'][-1][:-1] + [c1['parts'][-1][-1] + 1]      # one character of the chosen path
    c2 = copy.deepcopy(good)
    c2['parts'] = c2['parts'][1:]                                            # one directory level
    c3 = copy.deepcopy(good)
    c3['oc'] = 'valueerror'                                                  # the outcome
    sv, _ = strict([{'ev': [{k: r[k] for k in TRACE_FIELDS}]} for r in (good, c1, c2, c3)])
    print('strict spec: original accepted=%s, corrupted accepted=%s' % (sv[0]['accepted'], [v['accepted'] for v in sv[1:]]))
    strict_ok = [v['accepted'] for v in sv] == [True, False, False, False]
    d1 = copy.deepcopy(good)
    d1['parts'][0] = [46, 46]                                                # ".." component
    d2 = copy.deepcopy(good)
    d2['inside'] = False
    d3 = copy.deepcopy(good)
    d3['pre'] = False
    d4 = copy.deepcopy(good)
    d4['oc'] = 'other'
    mv, _ = monitor([{'ev': [{k: r[k] for k in MON_FIELDS}]} for r in (good, d1, d2, d3, d4)])
    print('monitor masks (good, dot-dot component, outside, not prefixed, raised):', [v['bad'] for v in mv])
    mon_ok = [v['bad'] for v in mv] == [0, 4, 8, 2, 1]
    print('SELFTEST', 'ok' if strict_ok and mon_ok else 'FAILED')
    return 0 if strict_ok and mon_ok else 2
