"""C02 - no request outside the configured scope.

  1. design check: ScopeCheck.tla (structural theorems of Scope.tla over a full abstract product)
  2. (configuration, link record) vectors, enumerated per interaction cluster and by composition, are turned
     into REAL argument vectors and concrete URLInfo/URLRecord witnesses; the real filter list
     (URLFiltersSetupTask._build_url_filters + SpanHostsFilter) and FetchRule.consult_filters answer;
     TLC (ScopeMon.tla) evaluates the declarative rules of Scope.tla on the abstract vector and compares
  3. crawl level: complete crawls of sites offering out-of-scope links, redirects and requisites; every request the
     server sees is judged by CrawlMon (clauses RequestOffSite / RequestOutOfScope)
"""
import itertools
import json
import random
import types
from concurrent.futures import ThreadPoolExecutor

from harness import tlc

HOSTS = {'start': 'start.test', 'sub': 'sub.start.test', 'other': 'other.test', 'acc': 'acc.test', 'rej': 'rej.test',
         # (a name that merely ENDS in the text of a --domains entry, "notacc.test", IS in that domain for wpull as it
         # is for Wget: the repository's own test_wget_domain_filter requires the plain suffix match - not a case here)
         # the same host written with the root dot
         'rejdot': 'rej.test.'}
# the host class of Scope.tla that a concrete host stands for
MODEL_HOSTC = {'rejdot': 'rej'}
ROOT = 'http://start.test/any/dir/index.html'
PATHS = ['/any/dir/f.html', '/any/dir/sub/f.html', '/any/f.html', '/any/other/f.html', '/inc/f.html', '/exc/f.html',
         '/exc/sub/f.html', '/any/dir/ACC.html', '/any/dir/REJ.html', '/any/dir/f.jpg', '/any/dir/',
         '/any/dir/ACCREJ.jpg', '/inc/sub/deeper/f.html', '/inc/', '/exc/',
         # siblings whose name merely extends (or is extended by) a configured directory's name
         '/any/dir-old/f.html', '/any/dir2/', '/any/di/f.html', '/any/dir', '/inc2/f.html', '/excel/f.html',
         '/in/f.html', '/inc', '/any/dir/inc/f.html', '/any/dir/exc/f.html',
         # directories whose names are not plain ASCII words (the URL has them percent-encoded), and list entries
         # written without the leading slash / with lower-case escapes
         '/private files/a.html', '/caf\u00e9/b.html', '/cgi-bin/d.html', '/esc dir/e.html', '/open dir/g.html',
         '/pub/h.html']
INC_DIRS = ['/inc', '/open dir', 'pub']
EXC_DIRS = ['/exc', '/private files', '/caf\u00e9', 'cgi-bin', '/esc%20dir']

CFG0 = dict(recursive=True, pagereq=False, level=0, prlevel=0, noparent=False, spanhosts=False, spanpr=False,
            spanlp=False, domacc=False, domrej=False, hostacc=False, hostrej=False, httpsonly=False, followftp=False,
            tries=0, rxacc=False, rxrej=False, diracc=False, dirrej=False, sufacc=False, sufrej=False, strong=True)
REC0 = dict(scheme='http', pscheme='http', hostc='start', phostc='start', sameport=True, level=1, inline=0, tr=0,
            path='/any/dir/f.html', redirect=False)

NAME_OF = {'SchemeFilter': 'Scheme', 'HTTPSOnlyFilter': 'Scheme', 'RecursiveFilter': 'Recursive',
           'FollowFTPFilter': 'FollowFTP', 'ParentFilter': 'Parent', 'BackwardDomainFilter': 'Domain',
           'HostnameFilter': 'Hostname', 'TriesFilter': 'Tries', 'LevelFilter': 'Level', 'RegexFilter': 'Regex',
           'DirectoryFilter': 'Directory', 'BackwardFilenameFilter': 'Filename', 'SpanHostsFilter': 'SpanHosts'}
NAMES = sorted(set(NAME_OF.values()))


def argv_of(c):
    a = [ROOT, '--level', str(c['level']), '--page-requisites-level', str(c['prlevel']), '--tries', str(c['tries'])]
    if c['recursive']:
        a.append('-r')
    if c['pagereq']:
        a.append('--page-requisites')
    if c['noparent']:
        a.append('--no-parent')
    if c['spanhosts']:
        a.append('--span-hosts')
    allow = [n for n, k in (('page-requisites', 'spanpr'), ('linked-pages', 'spanlp')) if c[k]]
    if allow:
        a += ['--span-hosts-allow', ','.join(allow)]
    if c['domacc']:
        a += ['--domains', 'start.test,Acc.TEST']
    if c['domrej']:
        a += ['--exclude-domains', 'Rej.Test']
    if c['hostacc']:
        a += ['--hostnames', 'start.test,ACC.test']
    if c['hostrej']:
        a += ['--exclude-hostnames', 'REJ.test']
    if c['httpsonly']:
        a.append('--https-only')
    if c['followftp']:
        a.append('--follow-ftp')
    if c['rxacc']:
        a += ['--accept-regex', 'ACC']
    if c['rxrej']:
        a += ['--reject-regex', 'REJ']
    if c['diracc']:
        a += ['--include-directories', ','.join(INC_DIRS)]
    if c['dirrej']:
        a += ['--exclude-directories', ','.join(EXC_DIRS)]
    if c['sufacc']:
        a += ['--accept', 'html']
    if c['sufrej']:
        a += ['--reject', 'jpg']
    if not c['strong']:
        a.append('--no-strong-redirects')
    return a


def abstract_rec(r):
    """Abstract attributes of the concrete witness, computed with plain string logic (independent of wpull)."""
    p = r['path']
    name = p.rsplit('/', 1)[1]
    same_site = (r['hostc'] == 'start' and r['scheme'] in ('http', 'https')
                 and (r['scheme'] != 'http' or r['sameport']))
    if not same_site:
        prel = 'elsewhere'
    else:
        d = p.rsplit('/', 1)[0] + '/'
        if d == '/any/dir/':
            prel = 'same'
        elif d.startswith('/any/dir/'):
            prel = 'below'
        elif '/any/dir/'.startswith(d):
            prel = 'above'
        else:
            prel = 'sibling'
    return {'scheme': r['scheme'], 'pscheme': r['pscheme'], 'hostc': MODEL_HOSTC.get(r['hostc'], r['hostc']), 'phostc': r['phostc'],
            'sameport': r['sameport'], 'level': r['level'], 'inline': r['inline'], 'try': r['tr'], 'prel': prel,
            'rxa': 'ACC' in p, 'rxr': 'REJ' in p, 'da': any((p + '/').startswith(d) for d in ('/inc/', '/open dir/', '/pub/')),
            'dr': any((p + '/').startswith(d) for d in ('/exc/', '/private files/', '/caf\u00e9/', '/cgi-bin/', '/esc dir/')),   # '/inc' itself names the directory (is_subdir's documented reading)
           
            'sfa': name.endswith('html'), 'sfr': name.endswith('jpg'), 'noname': name == '',
            'redirect': r['redirect']}


_FILTERS = {}


def real_answer(c, r):
    from wpull.application.options import AppArgumentParser
    from wpull.application.tasks.rule import URLFiltersSetupTask
    from wpull.urlfilter import SpanHostsFilter, DemuxURLFilter
    from wpull.processor.rule import FetchRule
    from wpull.url import URLInfo
    from wpull.pipeline.item import URLRecord, Status
    key = json.dumps(c, sort_keys=True)
    rule = _FILTERS.get(key)
    if rule is None:
        args = AppArgumentParser().parse_args(argv_of(c))
        filters = URLFiltersSetupTask._build_url_filters(types.SimpleNamespace(args=args))
        filters.append(SpanHostsFilter(('start.test',), enabled=args.span_hosts,
                                       page_requisites='page-requisites' in args.span_hosts_allow,
                                       linked_pages='linked-pages' in args.span_hosts_allow))
        rule = FetchRule(url_filter=DemuxURLFilter(filters))
        rule._strong = args.strong_redirects
        _FILTERS[key] = rule
    port = '' if r['sameport'] else ':8080'
    url = '%s://%s%s%s' % (r['scheme'], HOSTS[r['hostc']], port, r['path'])
    rec = URLRecord()
    rec.url = URLInfo.parse(url).url
    rec.status = Status.todo
    rec.try_count = r['tr']
    rec.level = r['level']
    rec.inline_level = r['inline'] if r['inline'] else None
    if r['level'] == 0:
        rec.parent_url = rec.url
        rec.root_url = rec.url
    else:
        rec.parent_url = '%s://%s/any/dir/index.html' % (r['pscheme'], HOSTS[r['phostc']])
        rec.root_url = ROOT
    verdict, reason, info = rule.consult_filters(URLInfo.parse(url), rec, is_redirect=bool(r['redirect'] and rule._strong))
    on = {n: False for n in NAMES}
    ps = {n: True for n in NAMES}
    for cls, ok in info['map'].items():
        n = NAME_OF.get(cls, cls)
        on[n] = True
        ps[n] = bool(ok)
    return {'may': bool(verdict), 'on': on, 'pass': ps, 'url': url}


# ------------------------------------------------------------------ vector enumeration
def cfg(**kw):
    c = dict(CFG0)
    c.update(kw)
    return c


def rec(**kw):
    r = dict(REC0)
    r.update(kw)
    if r['level'] == 0:
        r['pscheme'], r['phostc'] = r['scheme'], r['hostc']
    return r


def clusters():
    B = (False, True)
    # A: recursion, depth, requisite depth
    for rc, pq, lv, pl in itertools.product(B, B, (0, 1, 2), (0, 1, 2)):
        for l, i in itertools.product(range(0, 5), range(0, 4)):
            yield 'A', cfg(recursive=rc, pagereq=pq, level=lv, prlevel=pl), rec(level=l, inline=i)
    # B: hosts
    for da, dr, ha, hr, sh, sp, sl in itertools.product(B, repeat=7):
        if sh and (sp or sl):
            continue    # the command line refuses --span-hosts together with --span-hosts-allow
        for hc, ph, i in itertools.product(HOSTS, ('start', 'other'), (0, 1)):
            yield 'B', cfg(domacc=da, domrej=dr, hostacc=ha, hostrej=hr, spanhosts=sh, spanpr=sp, spanlp=sl,
                           pagereq=True), rec(hostc=hc, phostc=ph, inline=i)
    # C1: no-parent against path, scheme, port, host
    for np in B:
        for p, s, sp, hc, i in itertools.product(PATHS, ('http', 'https', 'ftp'), B, ('start', 'other', 'sub'), (0, 1)):
            yield 'C1', cfg(noparent=np, spanhosts=True, followftp=True, pagereq=True), \
                rec(path=p, scheme=s, sameport=sp, hostc=hc, inline=i)
    # C2: regex, directory and suffix lists against paths
    for ra, rr, dA, dR, sa, sr in itertools.product(B, repeat=6):
        for p in PATHS:
            yield 'C2', cfg(rxacc=ra, rxrej=rr, diracc=dA, dirrej=dR, sufacc=sa, sufrej=sr), rec(path=p)
    # D: schemes
    for ho, ff in itertools.product(B, B):
        for s, ps, l in itertools.product(('http', 'https', 'ftp'), ('http', 'https', 'ftp'), (0, 1)):
            yield 'D', cfg(httpsonly=ho, followftp=ff), rec(scheme=s, pscheme=ps, level=l)
    # E: retry limit
    for t, tr in itertools.product((0, 1, 2), (0, 1, 2, 3)):
        yield 'E', cfg(tries=t), rec(tr=tr)


TWEAKS = {
    'Scheme': (dict(httpsonly=True), dict()),
    'Recursive': (dict(recursive=False), dict(level=1)),
    'FollowFTP': (dict(followftp=False), dict(scheme='ftp', pscheme='http')),
    'Parent': (dict(noparent=True), dict(path='/any/f.html')),
    'Domain': (dict(domrej=True), dict(hostc='rej')),
    'Hostname': (dict(hostacc=True), dict(hostc='other')),
    'Tries': (dict(tries=1), dict(tr=1)),
    'Level': (dict(level=2, recursive=True), dict(level=3)),
    'Regex': (dict(rxrej=True), dict(path='/any/dir/REJ.html')),
    'Directory': (dict(dirrej=True), dict(path='/exc/sub/f.html')),
    'Filename': (dict(sufrej=True), dict(path='/any/dir/f.jpg')),
    'SpanHosts': (dict(), dict(hostc='other')),
    'Requisite': (dict(pagereq=True), dict(inline=1)),
}
SWITCHES = [dict(noparent=True), dict(domrej=True), dict(hostrej=True), dict(tries=3), dict(level=2, recursive=True),
            dict(rxacc=True), dict(diracc=True), dict(sufacc=True), dict(spanpr=True), dict(prlevel=1)]


def composition():
    names = sorted(TWEAKS)
    subsets = [()] + [(n,) for n in names] + list(itertools.combinations(names, 2))
    for mask in range(1 << len(SWITCHES)):
        base = {}
        for i, sw in enumerate(SWITCHES):
            if mask >> i & 1:
                base.update(sw)
        for sub in subsets:
            for rd in (False, True):
                for strong in (True, False):
                    c = cfg(**base)
                    c['strong'] = strong
                    r = dict(REC0)
                    # make the base witness pass the accept lists that are switched on
                    if c['rxacc']:
                        r['path'] = '/any/dir/ACC.html'
                    if c['diracc']:
                        r['path'] = '/inc/sub/deeper/f.html' if not c['rxacc'] else r['path']
                    for n in sub:
                        cc, rr = TWEAKS[n]
                        c.update(cc)
                        r.update(rr)
                    r['redirect'] = rd
                    yield 'F', c, rec(**r)


# ------------------------------------------------------------------ check
CLS = {1: 'RequestForbidden', 2: 'OverRestrictive', 3: 'ActiveRulesDiffer', 4: 'RuleVerdictDiffers'}


def run(chk):
    quick = chk.tier == 'quick'
    rng = random.Random(chk.seed)
    # ---- 0. FTP crawls (FtpScope.tla; own fork pool: must start before any thread exists in this process)
    from drivers import scope_ftp
    scope_ftp.run(chk)
    # ---- 1. design check
    res = tlc.run_tlc('ScopeCheck', 'SPECIFICATION Spec\nCONSTANT Small = %s\nINVARIANT WaiverNarrow\n'
                      'INVARIANT RequestPassesRules\nINVARIANT NoRedirectNoWaiver\nINVARIANT StartPasses\n'
                      'INVARIANT TriesHard\nCHECK_DEADLOCK FALSE\n' % ('TRUE' if quick else 'FALSE'),
                      workers=8, timeout=3000, heap='6g')
    chk.design('ScopeCheck[%s]' % ('small' if quick else 'full'), res)
    # ---- 2. vectors against the real filters
    vecs = list(clusters())
    comp = list(composition())
    if quick:
        rng.shuffle(comp)
        comp = comp[:6000]
    vecs += comp
    records = []
    for cl, c, r in vecs:
        real = real_answer(c, r)
        records.append({'cluster': cl, 'c': c, 'r': abstract_rec(r), 'real': real, 'ev': [0]})
        chk.case()
    chunks = [records[i:i + 4000] for i in range(0, len(records), 4000)]
    mcfg = 'SPECIFICATION MSpec\nCONSTRAINT Record\nPOSTCONDITION Post\nCHECK_DEADLOCK FALSE\n'

    def one(ch):
        return tlc.validate_batch('ScopeMon', mcfg, ch, timeout=1800, heap='3g')
    with ThreadPoolExecutor(max_workers=6) as ex:
        outs = list(ex.map(one, chunks))
    for ch, (verdicts, stats) in zip(chunks, outs):
        chk.trace_stats(stats)
        for rcd, v in zip(ch, verdicts):
            chk.validated(1)
            chk.distinct.add(json.dumps([rcd['c'], rcd['r']], sort_keys=True))
            if v['matched'] < 1:
                raise tlc.TLCError('ScopeMon did not evaluate a vector')
            if not v['bad']:
                continue
            diff = sorted(n for n in NAMES if rcd['real']['on'][n] and not rcd['real']['pass'][n])
            what = CLS[v['bad']]
            if v['bad'] == 1:
                # which rule should have stopped it: active rules the real code reports as passing / not active
                seq = ['Directory', 'Domain', 'Filename', 'FollowFTP', 'Hostname', 'Level', 'Parent', 'Recursive', 'Regex', 'Scheme', 'SpanHosts', 'Tries']
                rule = seq[v['badline'] - 1] if 1 <= v['badline'] <= len(seq) else 'waiver'
                sig = {'clause': 'RequestForbidden', 'rule': rule, 'via_redirect': bool(rcd['r']['redirect'])}
                chk.violation(sig, 'the real filters allow %s although the configured rules forbid it (options %s)'
                              % (rcd['real']['url'], ' '.join(argv_of(rcd['c'])[1:])), rcd)
            else:
                chk.drifted('%s: %s with options %s (real failed=%s)'
                            % (what, rcd['real']['url'], ' '.join(argv_of(rcd['c'])[1:]), diff))
    if len(chk.samples) < 3:
        chk.samples += [{'c': r['c'], 'r': r['r'], 'real': r['real']} for r in records[:2]] + \
                       [{'c': r['c'], 'r': r['r'], 'real': r['real']} for r in records[-1:]]
    chk.extra['vectors'] = {'clusters': len(records) - len(comp), 'composition': len(comp)}
    # ---- 3. crawl level
    from drivers import crawl, crawl_scen as cs
    traces = []
    scns = [s for s in cs.c01_catalogue(quick) if s['name'].startswith(('scope-', 'requisites-', 'chain-', 'span-', 'two-'))]
    scns += cs.c02_catalogue(quick)
    outs = crawl.run_jobs([dict(mode='plain', scn=s) for s in scns])
    for s, o in zip(scns, outs):
        traces.append((s, 'catalogue', o))
    # a killed and resumed crawl must keep the same scope (the permitted hosts are re-derived from the database)
    for s in cs.c02_crash_catalogue(quick):
        base = crawl.run_jobs([dict(mode='plain', scn=s)])[0]
        pts = len(base['ev'])
        for o in crawl.run_jobs([dict(mode='crash', scn=s, crash_at=k) for k in range(1, pts + 1)]):
            if o.get('crashed'):
                traces.append((s, 'crash', o))
    crawl.judge(chk, traces)
    chk.rule = ('(configuration, link record) vectors per interaction cluster and by composition against the real '
                'filter list, judged by Scope.tla in TLC; plus complete crawls of sites offering out-of-scope links')
    chk.exhaustive = not quick


def replay(chk, path):
    rp = json.load(open(path))['replay']
    if isinstance(rp, dict) and 'scenario' in rp and 'tree' in json.dumps(rp['scenario'])[:4000]:
        from drivers import scope_ftp
        return scope_ftp.replay(chk, path)
    print(json.dumps(rp, indent=1)[:3000])
    return 0
