"""C19 executor: real zlib-produced bodies, their measured profiles, the one-shot reference, and the two
ways the REAL decoders are run on a body cut into given pieces:

  run_class   wpull.decompression.GzipDecompressor / DeflateDecompressor called directly
  run_stream  wpull.protocol.http.stream.Stream.read_response + read_body over harness.fakenet
              (Content-Encoding: gzip / deflate; every piece = one read of the connection; body framed by
              Content-Length, by connection close, or as one chunk per piece)

Recorded events (one per decoder call):
  {e: piece, n, out: [bytes], outn, err, mode}     {e: flush, out, outn, err}
and one final event for the call as a whole (decoder run / read_body): {e: end, err, total: [bytes written]}
"""
import io
import types
import zlib

from harness import vloop, fakenet
import wpull.decompression
from wpull.errors import ProtocolError
from wpull.protocol.http.request import Request
from wpull.protocol.http.stream import Stream

WBITS = {'gzip': 16 + zlib.MAX_WBITS, 'zlib': zlib.MAX_WBITS, 'raw': -zlib.MAX_WBITS}
MODE_OF = {v: k for k, v in WBITS.items()}
MODES = ('gzip', 'zlib', 'raw')


# ------------------------------------------------------------------ bodies
def compress(payload, level, fmt):
    c = zlib.compressobj(level, zlib.DEFLATED, WBITS[fmt])
    return c.compress(payload) + c.flush()


class Chain(object):
    """The abstract inflater of a mode.  For gzip it is a CHAIN of zlib objects: a gzip file may consist of several
    members (RFC 1952 2.2), whose contents are concatenated; what follows the last member and does not begin with the
    gzip magic is ignored.  eof: the member being read has ended and no further member has begun."""
    def __init__(self, mode):
        self.mode = mode
        self.d = zlib.decompressobj(WBITS[mode])
        self.held = b''
        self.over = False                     # something else than a further member followed: the stream is over

    def decompress(self, data):
        if self.mode != 'gzip':
            return self.d.decompress(data)
        if self.over:
            return b''
        out = b''
        data = self.held + data
        self.held = b''
        while data:
            if self.d.eof:
                if data[:2] == b'\x1f\x8b':
                    self.d = zlib.decompressobj(WBITS[self.mode])
                elif data == b'\x1f':
                    self.held = data          # perhaps the first octet of the next member
                    break
                else:
                    self.over = True          # trailing garbage: ignored, and all that follows it
                    break
            out += self.d.decompress(data)
            data = self.d.unused_data
        return out

    @property
    def eof(self):
        return self.d.eof


def probe(body, mode):
    """What the abstract inflater of `mode` does with `body` fed byte by byte: (emit[0..n], E, F).  F: where the
    LAST member ends (eof is transient between members)."""
    d = Chain(mode)
    n = 0
    emit = [0]
    E = F = 0
    for k in range(len(body)):
        if not E:
            try:
                n += len(d.decompress(body[k:k + 1]))
            except zlib.error:
                E = k + 1
            if not E and d.eof and not d.held:
                F = k + 1 if (not F or mode == 'gzip' and n > emit[F]) else F
        emit.append(n)
    return emit, E, F


def profile(body, own, payload_len, cls):
    pr = {m: probe(body, m) for m in MODES}
    return {'n': len(body), 'own': own, 'full': payload_len, 'first1f': body[:1] == b'\x1f', 'cls': cls,
            'E': {m: pr[m][1] for m in MODES}, 'F': {m: pr[m][2] for m in MODES},
            'emit': {m: pr[m][0] for m in MODES}}


def _whole(body, mode):
    d = Chain(mode)
    try:
        out = d.decompress(body)
    except zlib.error:
        return None, False
    return out, d.eof


def reference(dec, body, payload):
    """Decoding the whole body at once (independent of wpull): dict(ok, raised, complete, out)."""
    def res(ok, out=b'', raised=False, complete=False):
        return {'ok': ok, 'raised': raised, 'complete': complete, 'out': list(out)}
    if not body or dec == 'none':
        return res(True, body)
    if dec == 'gzip':
        if body == b'\x1f' and payload is not None and payload != body:
            return res(False, b'')           # one byte of a real gzip stream: a truncated stream, not identity
        if body[:2] != b'\x1f\x8b':
            return res(True, body)          # documented: no gzip magic -> bytes unchanged
        out, eof = _whole(body, 'gzip')
    else:
        out, eof = _whole(body, 'zlib')     # de-facto "deflate": zlib-wrapped, else raw
        if out is None:
            out, eof = _whole(body, 'raw')
    if out is None:
        return res(False, raised=True)
    if eof:
        return res(True, out)
    return res(False, out, complete=(payload is not None and out == payload))


class Body(object):
    def __init__(self, name, dec, fmt, data, payload, cls):
        self.name, self.dec, self.fmt, self.data, self.payload, self.cls = name, dec, fmt, bytes(data), payload, cls
        own = fmt if fmt in MODES else 'pass'
        self.prof = profile(self.data, own, len(payload) if payload is not None else len(data), cls)
        self.ref = reference(dec, self.data, payload if fmt in MODES else None)
        self.quirk1f = (dec == 'gzip' and len(self.data) >= 2 and self.data[:1] == b'\x1f' and self.data[:2] != b'\x1f\x8b')
        self.input_class = 'valid' if self.ref['ok'] else ('invalid' if self.ref['raised'] else 'incomplete')

    def descr(self):
        return {'name': self.name, 'dec': self.dec, 'fmt': self.fmt, 'cls': self.cls, 'hex': self.data.hex(),
                'input_class': self.input_class}


DEC_OF = {'gzip': 'gzip', 'zlib': 'deflate', 'raw': 'deflate'}
ZLIBISH = [bytes.fromhex('780100feff410300'),            # raw: stored "A" + empty final block; zlib header check passes
           bytes.fromhex('780100feff41010000ffff')]


def make_bodies(tier, max_full):
    """Intact bodies, every truncation of them that is at most max_full long, single-byte corruptions of the
    small ones, crafted zlib-looking raw bodies, identity bodies."""
    quick = tier == 'quick'
    payloads = [b'a', b'ab', b'hello'] if quick else [b'a', b'ab', b'hello', b'aaaaaaaa']
    levels = [0, 6] if quick else [0, 6, 9]
    out = []
    seen = set()

    def add(name, dec, fmt, data, payload, cls):
        key = (dec, bytes(data))
        if key in seen:
            return
        seen.add(key)
        out.append(Body(name, dec, fmt, data, payload, cls))

    intact = []
    for fmt in MODES:
        for p in payloads:
            for lv in levels:
                data = compress(p, lv, fmt)
                name = '%s/L%d/%s' % (fmt, lv, p.hex())
                intact.append((name, fmt, data, p))
                add(name, DEC_OF[fmt], fmt, data, p, 'intact')
    for (name, fmt, data, p) in intact:
        for t in range(1, len(data)):
            if t <= max_full:
                add('%s/trunc%d' % (name, t), DEC_OF[fmt], fmt, data[:t], p, 'trunc')
    flips = [0x01] if quick else [0x01, 0x80, 0xff]
    for (name, fmt, data, p) in intact:
        if len(data) <= 9 or (fmt == 'gzip' and p == b'a' and 'L6' in name):
            for c in range(len(data)):
                for x in (flips if len(data) <= 9 else flips[:1]):
                    bad = bytearray(data)
                    bad[c] ^= x
                    add('%s/flip%d^%02x' % (name, c, x), DEC_OF[fmt], fmt, bad, None, 'corrupt')
    # zlib streams written with a smaller window (header bytes 18xx .. 68xx instead of 78xx)
    for wb in ((9, 12) if quick else (9, 10, 11, 12, 13, 14)):
        for p in payloads[:2] + [b'hello hello hello']:
            c = zlib.compressobj(6, zlib.DEFLATED, wb)
            data = c.compress(p) + c.flush()
            add('zlib-w%d/%s' % (wb, p.hex()), 'deflate', 'zlib', data, p, 'intact')
    # several gzip members one after the other (RFC 1952 2.2): the content is the concatenation of theirs - for every
    # split the same; what follows the last member without the gzip magic is ignored
    m3 = compress(b'one', 6, 'gzip') + compress(b'two', 6, 'gzip') + compress(b'three', 6, 'gzip')
    add('gzip-3members', 'gzip', 'gzip', m3, b'onetwothree', 'members')
    add('gzip-2members', 'gzip', 'gzip', compress(b'a', 0, 'gzip') + compress(b'b', 0, 'gzip'), b'ab', 'members')
    add('gzip-2members-garbage', 'gzip', 'gzip', compress(b'a', 0, 'gzip') + compress(b'b', 6, 'gzip') + b'\x00garbage', b'ab', 'members')
    add('gzip-member-then-1f', 'gzip', 'gzip', compress(b'ab', 6, 'gzip') + b'\x1f', b'ab', 'members')
    # ... also when something that looks like a member comes after it (where a piece happens to end must not matter)
    add('gzip-member-padding-member', 'gzip', 'gzip', compress(b'a', 6, 'gzip') + b'\x00\x00' + compress(b'b', 6, 'gzip'), b'a', 'members')
    add('gzip-member-1f-then-member', 'gzip', 'gzip', compress(b'a', 6, 'gzip') + b'\x1f\x00' + compress(b'b', 6, 'gzip'), b'a', 'members')
    add('gzip-member-padding-magic', 'gzip', 'gzip', compress(b'ab', 6, 'gzip') + b'\x00\x1f\x8b\x08', b'ab', 'members')
    for z in ZLIBISH:
        add('zlibish/%s' % z.hex(), 'deflate', 'raw', z, b'A', 'zlibish')
        for t in range(1, len(z)):
            add('zlibish/%s/trunc%d' % (z.hex(), t), 'deflate', 'raw', z[:t], b'A', 'trunc')
    idents = [b'a', b'hello', b'\x78\x9cab', b'\x1fab', b'\x1f\x8bxyz', b'\x00\x01\x02\x03\x04\x05',
              # the gzip magic / its first byte later than at offset 0 (the format is sniffed once, at the start)
              b'a\x1fb', b'ab\x1f\x8b\x08\x00', b'a\x1f\x8b']
    for p in idents:
        add('id/%s' % p.hex(), 'none', 'id', p, p, 'identity')
        add('id/%s' % p.hex(), 'gzip', 'id', p, p, 'identity')
    # foreign data under Content-Encoding: deflate is corrupt data
    add('id/hello', 'deflate', 'id', b'hello', None, 'corrupt')
    add('gzip-as-deflate', 'deflate', 'gzip', compress(b'a', 6, 'gzip')[:12], None, 'corrupt')
    add('empty', 'gzip', 'id', b'', b'', 'identity')
    add('empty', 'deflate', 'id', b'', b'', 'identity')
    add('empty', 'none', 'id', b'', b'', 'identity')
    return out


def cut(data, pieces):
    out = []
    pos = 0
    for n in pieces:
        out.append(data[pos:pos + n])
        pos += n
    return out


# ------------------------------------------------------------------ observation of the decoder's choice
class _ZlibProxy(object):
    """Stands in for the `zlib` module inside wpull.decompression: records the window bits of every inflater."""
    def __init__(self):
        self.created = []
        self.error = zlib.error
        self.MAX_WBITS = zlib.MAX_WBITS

    def decompressobj(self, *a, **kw):
        wb = a[0] if a else kw.get('wbits', zlib.MAX_WBITS)
        self.created.append(wb)
        return zlib.decompressobj(*a, **kw)

    def __getattr__(self, name):
        return getattr(zlib, name)


def _mode(decoder, proxy):
    try:
        if decoder is None:
            return 'none'
        if isinstance(decoder, wpull.decompression.GzipDecompressor):
            if not decoder.checked:
                return 'none'
            return 'gzip' if decoder.is_ok else 'pass'
        if isinstance(decoder, wpull.decompression.DeflateDecompressor):
            if not decoder.decompressobj:
                return 'none'
            return MODE_OF.get(proxy.created[-1], 'unknown')
    except Exception:
        pass
    return 'unknown'


def _errclass(e):
    if isinstance(e, ProtocolError):
        return 'protocol'
    if isinstance(e, zlib.error):
        return 'zlib'
    return 'other:' + type(e).__name__


def new_decoder(dec):
    if dec == 'gzip':
        return wpull.decompression.GzipDecompressor()
    if dec == 'deflate':
        return wpull.decompression.DeflateDecompressor()
    return None


def run_class(dec, data, pieces):
    """The decompressor class itself (no decoder for 'none': nothing to run)."""
    ev = _run_class(dec, data, pieces)
    err = ev[-1]['err'] if ev else 'none'
    ev.append({'e': 'end', 'out': [], 'outn': 0, 'err': err, 'total': [b for e in ev for b in e['out']]})
    return ev


def _run_class(dec, data, pieces):
    proxy = _ZlibProxy()
    saved = wpull.decompression.zlib
    wpull.decompression.zlib = proxy
    ev = []
    try:
        d = new_decoder(dec)
        for p in cut(data, pieces):
            try:
                o = d.decompress(p)
            except Exception as e:
                ev.append({'e': 'piece', 'n': len(p), 'out': [], 'outn': 0, 'err': _errclass(e), 'mode': _mode(d, proxy)})
                return ev
            ev.append({'e': 'piece', 'n': len(p), 'out': list(o), 'outn': len(o), 'err': 'none', 'mode': _mode(d, proxy)})
        try:
            o = d.flush()
        except Exception as e:
            ev.append({'e': 'flush', 'out': [], 'outn': 0, 'err': _errclass(e)})
            return ev
        ev.append({'e': 'flush', 'out': list(o), 'outn': len(o), 'err': 'none'})
        return ev
    finally:
        wpull.decompression.zlib = saved


class _Server(fakenet.BaseServer):
    def __init__(self, head, pieces, close, first=b'', reg=None):
        self.head, self.pieces, self.close_after, self.first = head, pieces, close, first
        if reg is not None:
            reg.append(self)

    def on_connect(self, ep):
        self.ep = ep
        if self.first:
            ep.send(self.first)      # the measured response follows once the first one has been read (go_on)
        else:
            self.go_on()

    def go_on(self):
        ep = self.ep
        ep.send(self.head)
        ep.send_pieces(self.pieces)
        if self.close_after:
            ep.close()


PRIOR_BODIES = {'gzip': b'earlier gzip body', 'deflate': b'earlier deflate body', 'none': b'earlier plain body'}


def run_stream(dec, data, pieces, strategy='length', prior=None):
    """Stream.read_response + read_body; returns (events, file_bytes, coarse).
    prior = 'gzip' | 'deflate' | 'none': an earlier response with that Content-Encoding is read from the same
    connection by the same Stream first (its decoder state must not leak into the measured response)."""
    proxy = _ZlibProxy()
    saved = wpull.decompression.zlib
    wpull.decompression.zlib = proxy
    ev = []
    hooked = hasattr(Stream, '_decompress_data') and hasattr(Stream, '_flush_decompressor')

    class TStream(Stream):
        if hooked:
            def _decompress_data(self, d):
                try:
                    o = Stream._decompress_data(self, d)
                except Exception as e:
                    ev.append({'e': 'piece', 'n': len(d), 'out': [], 'outn': 0, 'err': _errclass(e),
                               'mode': _mode(self._decompressor, proxy)})
                    raise
                ev.append({'e': 'piece', 'n': len(d), 'out': list(o), 'outn': len(o), 'err': 'none',
                           'mode': _mode(self._decompressor, proxy)})
                return o

            def _flush_decompressor(self):
                try:
                    o = Stream._flush_decompressor(self)
                except Exception as e:
                    ev.append({'e': 'flush', 'out': [], 'outn': 0, 'err': _errclass(e)})
                    raise
                ev.append({'e': 'flush', 'out': list(o), 'outn': len(o), 'err': 'none'})
                return o

    parts = cut(data, pieces)
    head = b'HTTP/1.1 200 OK\r\n'
    if dec != 'none':
        head += b'Content-Encoding: ' + dec.encode() + b'\r\n'
    if strategy == 'length':
        head += b'Content-Length: %d\r\n\r\n' % len(data)
        wire = parts
    elif strategy == 'close':
        head += b'\r\n'
        wire = parts
    else:
        head += b'Transfer-Encoding: chunked\r\n\r\n'
        wire = [b'%x\r\n' % len(p) + p + b'\r\n' for p in parts] + [b'0\r\n\r\n']
    first = b''
    if prior is not None:
        pb = PRIOR_BODIES[prior]
        if prior != 'none':
            pb = compress(pb, 6, 'gzip' if prior == 'gzip' else 'zlib')
        first = (b'HTTP/1.1 200 OK\r\n' + (b'Content-Encoding: ' + prior.encode() + b'\r\n' if prior != 'none' else b'')
                 + b'Connection: keep-alive\r\nContent-Length: %d\r\n\r\n' % len(pb) + pb)
    net = fakenet.FakeNet()
    servers = []
    net.listen('10.0.0.1', 80, lambda ep: _Server(head, wire, strategy == 'close', first, servers))
    sink = io.BytesIO()
    writes = []

    class Sink(object):
        def write(self, b):
            writes.append(bytes(b))
            sink.write(b)

    async def go():
        conn = net.connection_factory(('10.0.0.1', 80), 'h.test')
        await conn.connect()
        st = TStream(conn, keep_alive=True)
        req = Request('http://h.test/')
        if prior is not None:
            resp0 = await st.read_response()
            got = io.BytesIO()
            await st.read_body(req, resp0, file=got)
            if got.getvalue() != PRIOR_BODIES[prior]:
                raise RuntimeError('harness: earlier response not read back as sent')
            del ev[:]
            del writes[:]
            servers[0].go_on()
        resp = await st.read_response()
        await st.read_body(req, resp, file=Sink())
        return resp

    try:
        kind, val = vloop.run(go, lambda: False)
    finally:
        wpull.decompression.zlib = saved
    exc = None if kind == 'ok' else (val if kind == 'exc' else 'hang')
    delivered = [p for ep in net.endpoints for p in ep.delivered][1:]
    if not hooked:
        # coarse observation (public surface only): pieces as delivered, output as written to the file
        ev[:] = []
        k = len(parts)
        for i, p in enumerate(parts):
            o = writes[i] if i < len(writes) and len(writes) in (k, k + 1) else b''
            ev.append({'e': 'piece', 'n': len(p), 'out': list(o), 'outn': len(o), 'err': 'none', 'mode': 'unknown'})
        rest = b''.join(writes[k:]) if len(writes) in (k, k + 1) else b''.join(writes)
        ev.append({'e': 'flush', 'out': list(rest), 'outn': len(rest), 'err': 'none'})
        if exc is not None:
            ev = ev[:max(len(writes), 0) + 1]
            ev[-1] = dict(ev[-1], out=[], outn=0, err=_errclass(exc) if exc != 'hang' else 'other:hang')
    # the call as a whole: how read_body ended and what it wrote to the file
    if exc is None:
        end_err = 'none'
    elif ev and ev[-1]['err'] != 'none':
        end_err = ev[-1]['err']
    else:
        end_err = 'other:hang' if exc == 'hang' else _errclass(exc)
    ev.append({'e': 'end', 'out': [], 'outn': 0, 'err': end_err, 'total': list(sink.getvalue())})
    return ev, sink.getvalue(), delivered
