"""C08 - HTTP/1.1 responses are delimited per RFC 7230 whatever the segmentation
   C04 - WARC records hold exactly the bytes exchanged on the wire

1. design check: TLC, HttpWire.tla (reader state machine of Session/Stream/ChunkedTransferReader, every read
   returning any number of octets) against the RFC 7230 section 3.3.3 reference operators of HttpWireProps.tla,
   exhaustive for the tier's message spaces (the known deviations of the unchanged tree are exempted by class)
2. scenarios on the REAL client (harness.fakenet + harness.vloop; for C04 through the real WARCRecorder and an
   independent WARC reader):
     (a) spec -> code: TLC-generated behaviours (HttpWireGen: messages built by Mk/Bytes, piece sizes chosen by
         TLC) rendered into real octets and served in exactly those pieces;
     (b) code -> spec: seeded random concrete messages (real header names, gzip bodies, chunk extensions,
         trailers, truncation at any octet) under random segmentations down to single octets
3. every recorded execution is validated by TLC twice: HttpWireMon (property clauses against the reference
   operators applied to the message: decides VIOLATION) and HttpWireTrace (is it a behaviour of HttpWire.tla:
   decides DRIFT).
chk.pid selects the property: C08 clauses are only reported for C08, C04 clauses only for C04.
"""
import json
import logging
import time
import random
import re
import tempfile
import os
from concurrent.futures import ThreadPoolExecutor

from harness import tlc
from drivers import httpwire_msg as M
from drivers.httpwire_exec import Run, mon_trace, strict_trace, units_of

CLAUSES = {1: 'Payload', 2: 'TruncIsError', 3: 'CompleteIsOk', 4: 'NoOverRead', 5: 'Persist', 6: 'NoHang', 7: 'WholeMessage',
           11: 'RespBytes', 12: 'ReqBytes', 13: 'RecCount', 14: 'RecAtMostOne', 15: 'RecBlocks', 16: 'RecLinked',
           17: 'NoStray', 18: 'EventPairs', 19: 'WarcParses', 20: 'RevisitBlocks'}
C08_INVS = ['D_Payload', 'D_TruncIsError', 'D_CompleteIsOk', 'D_NoOverRead', 'D_Persist', 'D_WholeMessage', 'NoHang']
C04_INVS = ['D_RespBytes', 'ReqBytes', 'RecCount', 'RecAtMostOne', 'D_RecBlocks', 'RecLinked']
ACTIONS = ['Start', 'Stall', 'HdrLine', 'Body', 'LenDone', 'LenEOF', 'LenRead', 'CloseEOF', 'CloseRead', 'ChHdr',
           'ChBodyEOF', 'ChBody', 'ChNl', 'Trailer', 'Fin', 'FinNb', 'RaiseErr']

ALL = dict(methods=('GET', 'HEAD'), statuses=(200, 204, 304), interims=(0, 1),
           te=('none', 'chunked', 'Chunked', 'gzip, chunked'), cl=('none', 'exact', 'larger', 'smaller', 'nonnum', 'neg'),
           conn=('none', 'close', 'keep-alive'), ver=('1.1', '1.0'), fmt=('crlf', 'lf', 'nospace', 'folded', 'dup'),
           bodies=(0, 1, 2, 3, 13), split=(1, 2), ext=(False, True), tr=(False, True), sclose=(False, True))


_RE_COV2 = re.compile(r'^<(\w+) line \d+, col \d+ to line \d+, col \d+ of module (\w+) \([\d ]+\)>: (\d+):(\d+)', re.M)


def fix_coverage(res):
    """harness.tlc's coverage pattern misses sub-actions printed with a location suffix (the \\E k part of a
    disjunction): add them."""
    for mm in _RE_COV2.finditer(res.get('out', '')):
        res['coverage'][mm.group(1)] = res['coverage'].get(mm.group(1), 0) + int(mm.group(4))
    return res


def S(xs):
    return '{' + ', '.join(('"%s"' % v) if isinstance(v, str) else (str(v).upper() if isinstance(v, bool) else str(v))
                           for v in xs) + '}'


def constants_text(NX, sp, fix, trunc='all'):
    s = 'CONSTANTS NX = %d\n' % NX
    s += 'Methods = %s Statuses = %s Interims = %s TESet = %s CLSet = %s ConnSet = %s VerSet = %s FmtSet = %s\n' % (
        S(sp['methods']), S(sp['statuses']), S(sp['interims']), S(sp['te']), S(sp['cl']), S(sp['conn']), S(sp['ver']),
        S(sp['fmt']))
    s += 'BodyCodes = %s SplitSet = %s ExtSet = %s TrailerSet = %s TruncMode = "%s" SCloseSet = %s\n' % (
        S(sp['bodies']), S(sp['split']), S(sp['ext']), S(sp['tr']), trunc, S(sp['sclose']))
    s += ('FixTE = %s FixNoBody = %s Fix1xx = %s FixBadCL = %s FixTrailer = %s FixHold = %s FixStale = %s\n'
          % tuple(str(bool(f)).upper() for f in fix))
    return s


MIN_SPACE = dict(methods=('GET',), statuses=(200,), interims=(0,), te=('none',), cl=('none',), conn=('none',),
                 ver=('1.1',), fmt=('crlf',), bodies=(0,), split=(1,), ext=(False,), tr=(False,), sclose=(False,))


def space(**kw):
    sp = dict(MIN_SPACE)
    sp.update(kw)
    return sp


def design_cfg(NX, sp, fix, trunc, invs):
    return ('SPECIFICATION Spec\n' + constants_text(NX, sp, fix, trunc)
            + ''.join('INVARIANT %s\n' % i for i in ['TypeOK', 'NoStuck'] + invs) + 'CHECK_DEADLOCK FALSE\n')


# ------------------------------------------------------------------ which variant of the code is under test
def probe_variant():
    """Set the Fix* switches of the model from four canonical exchanges on the real code, so that the model
    describes the tree as it is (unchanged: all False).  Only DRIFT and the exempted classes of the design
    check depend on this; violations are decided by the monitor."""
    def one(ch):
        cm = M.build_cmsg(ch)
        r = Run([{'cm': cm, 'pieces': [len(M.sent(cm))]}])
        r.execute()
        out = [e for e in r.ev if e['e'] == 'done'][0]
        dl = b''.join(e['data'] for e in r.ev if e['e'] == 'dl')
        stalled = any(e['e'] == 'stall' for e in r.ev)
        one.rd = b''.join(e['data'] for e in r.ev if e['e'] == 'rd')
        return out['out'], dl, stalled
    base = dict(method='GET', status=200, te='none', cl='none', fmt='crlf', content=b'abc')
    o, dl, st = one(dict(base, te='Chunked'))
    fix_te = (o == 'ok' and dl == b'abc' and not st)
    o, dl, st = one(dict(base, status=204, cl='exact'))
    fix_nb = (o == 'ok' and not st)
    o, dl, st = one(dict(base, interim=1, cl='exact'))
    fix_1xx = (o == 'ok' and dl == b'abc')
    fix_hold = fix_1xx and not one.rd.startswith(b'HTTP/1.1 100')
    o, dl, st = one(dict(base, cl='nonnum'))
    fix_cl = (o != 'ok')
    cm = M.build_cmsg(dict(base, te='chunked', tr=True))
    cm['trunc'] = len(M.full(cm)) - 6          # ... 0 CR LF 'T' | ':v' CR LF CR LF
    cm['sclose'] = True
    r = Run([{'cm': cm, 'pieces': [cm['trunc']]}])
    r.execute()
    fix_tr = [e for e in r.ev if e['e'] == 'done'][0]['out'] != 'other_error'
    # Content-Length: 0 followed by a surplus octet, then a second exchange on the kept connection
    cm1 = M.build_cmsg(dict(base, cl='smaller', content=b'x'))
    cm2 = M.build_cmsg(dict(base, cl='exact'))
    r = Run([{'cm': cm1, 'pieces': [len(M.sent(cm1))]}, {'cm': cm2, 'pieces': [len(M.sent(cm2))]}])
    r.execute()
    d2 = [e for e in r.ev if e['e'] == 'done' and e['x'] == 2]
    fix_stale = bool(d2) and d2[0]['out'] == 'ok' and b''.join(e['data'] for e in r.ev if e['e'] == 'dl' and e['x'] == 2) == b'abc'
    return (fix_te, fix_nb, fix_1xx, fix_cl, fix_tr, fix_hold, fix_stale)


# ------------------------------------------------------------------ (a) TLC-generated behaviours
def sample_choices(rng, n, NX, sp, trunc_rate=0.3):
    """A seeded sample of the choice space that covers every value of every dimension."""
    dims = [('method', 'methods'), ('status', 'statuses'), ('interim', 'interims'), ('ver', 'ver'), ('te', 'te'),
            ('cl', 'cl'), ('conn', 'conn'), ('fmt', 'fmt'), ('body', 'bodies'), ('split', 'split'), ('ext', 'ext'),
            ('tr', 'tr'), ('sc', 'sclose')]
    out = []
    for i in range(n):
        scen = []
        for j in range(NX):
            b = {}
            for d, (f, k) in enumerate(dims):
                vals = sp[k]
                # cyclic in one dimension at a time (covering), random elsewhere
                b[f] = vals[(i // (d + 1)) % len(vals)] if (i + j) % len(dims) == d else rng.choice(vals)
            if b['ver'] == '1.0':
                b['te'] = 'none'
            if b['cl'] == 'smaller' and b['body'] == 0:
                b['body'] = 2
            b['pm'] = rng.randrange(1000) if rng.random() < trunc_rate else 1000
            scen.append(b)
        out.append(scen)
    return out


def tlc_behaviours(NX, scen, fix, num, seed):
    cfg = ('SPECIFICATION GSpec\n' + constants_text(NX, ALL, fix, 'none') + 'CONSTRAINT Emit\nCHECK_DEADLOCK FALSE\n')
    tf = tempfile.NamedTemporaryFile('w', suffix='.json', delete=False)
    try:
        json.dump(scen, tf)
        tf.close()
        res = tlc.run_tlc('HttpWireGen', cfg, workers=1, simulate=num, depth=300, seed=seed, timeout=600,
                          env={'SCEN_FILE': tf.name})
    finally:
        os.unlink(tf.name)
    out = []
    seen = set()
    for m in re.finditer(r'<<"SCRIPT", "(.*?)">>', res['out']):
        txt = m.group(1).replace('\\"', '"')
        if txt not in seen:
            seen.add(txt)
            out.append(json.loads(txt))
    if not out:
        raise tlc.TLCError('HttpWireGen produced no behaviour\n' + res['out'][-3000:])
    return out, res


def scenario_of(script, rng):
    """TLC behaviour (abstract messages + piece sizes in items) -> concrete exchanges with piece sizes in octets.
    A piece that arrives while a line is being read may be split further anywhere before its first LF
    (between CR and LF, inside a header name ...): the line cut points."""
    cms = [M.concrete_of(am) for am in script['msgs']]
    exchanges = []
    flight = []
    x = 0
    cur = None
    for op, n in script['feeds']:
        if op == 0:
            x += 1
            if n & 1:
                flight = []
            if n & 2:
                flight = flight + units_of(cms[x - 1])
            cur = {'cm': cms[x - 1], 'pieces': []}
            exchanges.append(cur)
            continue
        piece = b''.join(c for (_, c) in flight[:n])
        flight = flight[n:]
        if op == 1 and len(piece) > 1:
            lf = piece.find(b'\n')
            limit = lf if lf >= 0 else len(piece) - 1     # cuts strictly before the LF
            mode = rng.random()
            cuts = []
            if limit >= 1:
                if mode < 0.3:
                    cuts = [rng.randint(1, limit)]
                elif mode < 0.5:
                    cuts = list(range(1, limit + 1))              # octet by octet up to the LF
                elif mode < 0.6 and lf >= 1 and piece[lf - 1:lf] == b'\r':
                    cuts = [lf]                                    # between CR and LF
            prev = 0
            for c in cuts:
                cur['pieces'].append(c - prev)
                prev = c
            cur['pieces'].append(len(piece) - prev)
        else:
            cur['pieces'].append(len(piece))
    while len(exchanges) < len(cms):
        exchanges.append({'cm': cms[len(exchanges)], 'pieces': []})
    return exchanges


# ------------------------------------------------------------------ (b) seeded random concrete scenarios
def random_scenario(rng, NX):
    persistent = rng.random() < 0.5
    exs = []
    for _ in range(NX):
        cm = M.random_cmsg(rng, persistent=persistent)
        exs.append({'cm': cm, 'pieces': M.random_pieces(rng, len(M.sent(cm)))})
    return exs


# ------------------------------------------------------------------ signatures
def signature(pid, clause, exchanges, x, dones, fix):
    """Input class of the violation: the special class of message x, else that of the nearest earlier message
    whose connection was carried over (its desynchronisation is inherited), else the coarse shape of message x."""
    j = x
    while j >= 1:
        k = M.msg_class(exchanges[j - 1]['cm'], fix)
        if k:
            sig = {'clause': 'Framing' if pid == 'C08' else 'Archive'}
            sig.update(k)
            return sig
        j -= 1
        if j >= 1 and dones.get(j, {}).get('closed', True):
            break
    sig = {'clause': clause}
    sig.update(M.msg_class(exchanges[x - 1]['cm'], fix, weak=True) or M.plain_class(exchanges[x - 1]['cm']))
    return sig


def exchange_json(exs):
    out = []
    for ex in exs:
        j = M.to_json_msg(ex['cm'])
        j['lines'] = [[p, list(c), list(e), t] for (p, c, e, t) in ex['cm']['lines']]
        out.append({'cm': j, 'pieces': list(ex['pieces'])})
        if ex.get('post') is not None:
            out[-1]['post'] = list(ex['post'])
    return out


def exchange_from_json(js):
    out = []
    for ex in js:
        j = ex['cm']
        cm = {k: j[k] for k in ('method', 'status', 'hascl', 'clok', 'clv', 'chunked', 'trunc', 'sclose', 'coded', 'te')}
        for k in ('ihead', 'head', 'last', 'trailer', 'raw', 'content'):
            cm[k] = bytes(j[k])
        cm['chunks'] = [{k: bytes(c[k]) for k in ('hdr', 'data', 'end')} for c in j['chunks']]
        cm['lines'] = [(p, bytes(c), bytes(e), t) for (p, c, e, t) in j['lines']]
        out.append({'cm': cm, 'pieces': ex['pieces']})
        if ex.get('post') is not None:
            out[-1]['post'] = bytes(ex['post'])
    return out


MON_CFG = 'SPECIFICATION MSpec\nCONSTANTS NX = %d\nCONSTRAINT Record\nPOSTCONDITION Post\nCHECK_DEADLOCK FALSE\n'


def strict_cfg(NX, fix):
    return 'SPECIFICATION TSpec\n' + constants_text(NX, MIN_SPACE, fix, 'none') + \
           'CONSTRAINT Record\nPOSTCONDITION Post\nCHECK_DEADLOCK FALSE\n'


def describe(ex):
    cm = ex['cm']
    return '%s -> %r + %d body octets%s' % (cm['method'], (cm['ihead'] + cm['head'])[:160], len(M.wbody(cm)),
                                           '' if cm['trunc'] == M.NOTRUNC else ' cut at %d' % cm['trunc'])


def run(chk):
    logging.getLogger('wpull').setLevel(logging.CRITICAL)
    quick = chk.tier == 'quick'
    t00 = time.time()
    T = {}
    pid = chk.pid
    warc = pid == 'C04'
    rng = random.Random(chk.seed * 7919 + (4 if warc else 8))
    fix = probe_variant()
    chk.extra['code_variant'] = dict(zip(['FixTE', 'FixNoBody', 'Fix1xx', 'FixBadCL', 'FixTrailer', 'FixHold', 'FixStale'], fix))
    invs = C04_INVS if warc else C08_INVS

    # ---------------- 1. design checks (started now, collected at the end; they run beside the executions)
    if quick:
        designs = [
            ('framing', 1, space(methods=('GET', 'HEAD'), statuses=(200, 204), interims=(0, 1), te=ALL['te'], cl=ALL['cl'],
                                 bodies=(0, 2), split=(2,), tr=(True,)), 'none'),
            ('trunc', 1, space(te=('none', 'chunked'), cl=('none', 'exact', 'larger', 'smaller'), bodies=(2,), split=(2,),
                               tr=(True,)), 'all'),
            ('format', 1, space(te=('none', 'chunked', 'Chunked'), cl=('none', 'exact'), conn=('none', 'keep-alive'),
                                ver=ALL['ver'], fmt=ALL['fmt'], bodies=(13,), ext=(True,), tr=(True,), sclose=(False, True)),
             'none'),
            ('persist', 2, space(interims=(0, 1), cl=('exact', 'smaller'), bodies=(1,)), 'none'),
            ('persist-chunked', 2, space(interims=(0, 1), te=('none', 'chunked'), cl=('exact',), bodies=(1,)), 'none'),
            ('persist-surplus', 2, space(cl=('exact', 'smaller'), conn=('none', 'close'), bodies=(2,)), 'none'),
        ]
    else:
        A = ALL
        designs = [
            ('framing', 1, space(methods=A['methods'], statuses=A['statuses'], interims=(0, 1), te=A['te'], cl=A['cl'],
                                 bodies=(0, 1, 2), split=(2,), tr=(True,), sclose=(False, True)), 'all'),
            ('format', 1, space(methods=A['methods'], statuses=(200, 304), te=A['te'], cl=('none', 'exact', 'smaller', 'nonnum'),
                                conn=A['conn'], ver=A['ver'], fmt=A['fmt'], bodies=(2, 13), split=(2,), ext=(True,), tr=(True,),
                                sclose=(False, True)), 'none'),
            ('chunks', 1, space(te=('chunked', 'Chunked'), cl=('none', 'exact'), bodies=(0, 1, 2, 3, 13), split=(1, 2),
                                ext=(False, True), tr=(False, True), fmt=('crlf', 'lf'), sclose=(False, True)), 'all'),
            ('persist', 2, space(interims=(0, 1), te=('none', 'chunked'), cl=('exact', 'smaller'), conn=('none', 'close'),
                                 bodies=(1,)), 'none'),
            ('persist-surplus', 2, space(cl=('exact', 'smaller'), conn=('none', 'close'), bodies=(2, 3), sclose=(False, True)),
             'none'),
            ('persist-trunc', 2, space(te=('none', 'chunked'), cl=('exact',), bodies=(1,), tr=(True,)), 'all'),
        ]
    pool = ThreadPoolExecutor(max_workers=6)
    workers = 4 if quick else 6
    dfut = [(name, NX, sp, tr, pool.submit(tlc.run_tlc, 'HttpWire', design_cfg(NX, sp, fix, tr, invs), workers=workers,
                                           timeout=3000, coverage=(name in ('framing', 'trunc', 'chunks')), heap='4g'))
            for (name, NX, sp, tr) in designs]

    # ---------------- 2. scenarios on the real code
    runs = []      # (origin, NX, exchanges, Run)
    n_gen = (300, 200) if quick else (8000, 8000)
    gen_futs = []
    for NX, num in zip((1, 2), n_gen):
        scen = sample_choices(rng, max(200, num // 2), NX, ALL)
        gen_futs.append((NX, pool.submit(tlc_behaviours, NX, scen, fix, num, chk.seed + NX)))
    n_rand = (300, 300) if quick else (5000, 6000)
    if warc:
        n_rand = (n_rand[0] // 2, n_rand[1] // 2)
    for NX, num in zip((1, 2), n_rand):
        for _ in range(num):
            exs = random_scenario(rng, NX)
            r = Run(exs, warc=warc)
            r.execute()
            runs.append(('random', NX, exs, r))
    # directed renderings (every seed): alone, and followed by an ordinary exchange on the same connection
    import random as _random
    for k, ch in enumerate(M.directed_choices()):
        for NX in (1, 2):
            r_ = _random.Random(1000 + k)
            cm = M.build_cmsg(ch, r_)
            exs = [{'cm': cm, 'pieces': M.random_pieces(r_, len(M.sent(cm)))}]
            if NX == 2:
                cm2 = M.build_cmsg(dict(ch, te='none', cl='exact', interim=0, split_te=None, vspace=None, trailer_fix=None, fmt='crlf', sclose=False), r_)
                exs.append({'cm': cm2, 'pieces': M.random_pieces(r_, len(M.sent(cm2)))})
            r = Run(exs, warc=warc)
            r.execute()
            runs.append(('directed', NX, exs, r))
    if warc:
        # requests that carry a body (--post-data): the request record holds header block AND body
        npost = 0
        for (origin, NX, exs, r0) in list(runs):
            if npost >= (120 if quick else 2000):
                break
            if not all(ex['cm']['method'] == 'GET' for ex in exs):
                continue
            exs2 = [dict(ex, post=bytes(rng.choice(b'abc=&%20+') for _ in range(rng.choice([0, 1, 7, 300, 5000])))) for ex in exs]
            r = Run(exs2, warc=True)
            r.execute()
            runs.append(('post', NX, exs2, r))
            npost += 1
        chk.extra['post_runs'] = npost
        # --warc-dedup: the URL table knows some of the URLs with the payload about to be received -> revisit records
        nd = 0
        for (origin, NX, exs, r0) in list(runs):
            if nd >= (150 if quick else 3000):
                break
            dd = [x for x in range(1, NX + 1) if rng.random() < 0.7] or [1]
            r = Run(exs, warc=True, dedup=dd)
            r.execute()
            runs.append(('dedup', NX, exs, r))
            nd += 1
        chk.extra['dedup_runs'] = nd
    # --ignore-length: Content-Length does not delimit (read until the close), the other framings are untouched
    nil = 0
    for (origin, NX, exs, r0) in list(runs):
        if nil >= (150 if quick else 2500):
            break
        if NX != 1 or origin not in ('random', 'tlc'):
            continue
        cm = exs[0]['cm']
        if not (cm['te'] or cm['sclose'] or cm['method'] == 'HEAD' or cm['status'] in (204, 304)):
            continue            # (a length-delimited message on a connection the server keeps open: the client would wait)
        if cm['coded'] and not cm['te'] and cm['trunc'] != M.NOTRUNC:
            continue            # (without its length a coded body is delimited by the close only: a cut cannot be seen to be
                                #  one, and whether the decoder notices is C19's subject - as for messages built that way)
        r = Run(exs, warc=warc, ignore_length=True)
        r.execute()
        runs.append(('ignore-length', NX, exs, r))
        nil += 1
    chk.extra['ignore_length_runs'] = nil
    T['random_executed'] = time.time() - t00
    ngen = 0
    for NX, fut in gen_futs:
        scripts, res = fut.result()
        for sc in scripts:
            exs = scenario_of(sc, rng)
            r = Run(exs, warc=warc)
            r.execute()
            runs.append(('tlc', NX, exs, r))
            ngen += 1
    T['generated_executed'] = time.time() - t00
    chk.extra['tlc_generated_behaviours'] = ngen
    chk.extra['random_scenarios'] = sum(n_rand)

    # ---------------- 3. TLC validation
    groups = {}
    seen = set()
    for origin, NX, exs, r in runs:
        mt = mon_trace(r, pid)
        key = json.dumps(mt, sort_keys=True)
        chk.case(key=None)
        if key in seen:
            continue
        seen.add(key)
        chk.distinct.add(hash(key))
        groups.setdefault(NX, []).append((origin, exs, r, mt, None if (getattr(r, 'dedup', None) or getattr(r, 'ignore_length', False) or any(ex.get('post') is not None for ex in exs)) else strict_trace(r)))

    # one TLC job per chunk of traces, several at a time
    CH = 600 if quick else 1200
    jobs = []
    for NX in sorted(groups):
        items = groups[NX]
        for off in range(0, len(items), CH):
            part = items[off:off + CH]
            jobs.append((NX, 'mon', part))
            st_part = [it for it in part if it[4] is not None]
            if st_part:
                jobs.append((NX, 'strict', st_part))

    def do_job(job):
        NX, kind, part = job
        if kind == 'mon':
            return tlc.validate_batch('HttpWireMon', MON_CFG % NX, [it[3] for it in part])
        return tlc.validate_batch('HttpWireTrace', strict_cfg(NX, fix), [it[4] for it in part])

    outs = list(pool.map(do_job, jobs))
    results = []
    for NX in sorted(groups):
        mv, sv = [], {}
        mst = {'states': 0, 'distinct': 0}
        sst = {'states': 0, 'distinct': 0}
        for (jNX, kind, part), (v, st) in zip(jobs, outs):
            if jNX != NX:
                continue
            if kind == 'mon':
                mv += v
                mst = {k: mst[k] + st.get(k, 0) for k in mst}
            else:
                sv.update(zip([id(it) for it in part], v))
                sst = {k: sst[k] + st.get(k, 0) for k in sst}
        results.append((mv, mst, sv, sst))
    n_strict = n_unabs = strict_persist_notes = 0
    for NX, (mv, mst, sv, sst) in zip(sorted(groups), results):
        chk.trace_stats(mst)
        chk.trace_stats(sst)
        for it, m in zip(groups[NX], mv):
            origin, exs, r, mt, stt = it
            chk.validated(1)
            if len(chk.samples) < 4 and origin == 'tlc' and NX == 2:
                chk.samples.append({'origin': origin, 'messages': [describe(ex) for ex in exs],
                                    'pieces': [ex['pieces'] for ex in exs],
                                    'events': [{k: (v if not isinstance(v, (bytes, bytearray)) else v.decode('latin-1'))
                                                for k, v in e.items()} for e in r.ev[:60]]})
            if m['matched'] < m['len'] and m['bad'] == 0:
                raise tlc.TLCError('monitor did not consume a trace: %r' % (m,))
            for e in r.ev:
                if e['e'] == 'done' and e['out'] == 'ok' and not e['closed'] and e['unseen'] > 0 \
                        and not any(M.msg_class(ex['cm'], fix) for ex in exs[:e['x']]):
                    strict_persist_notes += 1
            if m['bad']:
                if m['bad'] not in CLAUSES:
                    raise tlc.TLCError('HttpWireMon reported an unknown clause %r' % (m,))
                clause = CLAUSES[m['bad']]
                e = mt['ev'][m['badline'] - 2] if 2 <= m['badline'] <= len(mt['ev']) + 1 else {}
                x = e.get('x')
                if x is None and e.get('e') in ('rec', 'warc_end'):
                    # a record clause: the exchange whose URL the record carries, else the first one that is wrong
                    x = next((i + 1 for i, u in enumerate(mt['urls']) if u == e.get('uri')), None)
                x = x or 1
                sig = signature(pid, clause, exs, x, {ev['x']: ev for ev in r.ev if ev['e'] == 'done'}, fix)
                chk.violation(sig, '%s violated at exchange %d (%s): %s; outcome events: %s'
                              % (clause, x, origin, ' | '.join(describe(ex) for ex in exs),
                                 json.dumps([{k: v for k, v in ev.items() if k not in ('srv',)}
                                             for ev in r.ev if ev['e'] in ('done', 'stall')])[:400]),
                              {'warc': warc, 'ignore_length': bool(getattr(r, 'ignore_length', False)), 'dedup': list(getattr(r, 'dedup', [])), 'exchanges': exchange_json(exs), 'clause': clause, 'exchange': x,
                               'origin': origin, 'errors': r.error_detail})
            elif stt is None:
                n_unabs += 1
            else:
                n_strict += 1
                s = sv[id(it)]
                if s['matched'] < s['len']:
                    nxt = stt['ev'][s['matched']] if s['matched'] < len(stt['ev']) else None
                    chk.drifted('strict HttpWire.tla rejects event %d %s (origin=%s NX=%d)'
                                % (s['matched'], json.dumps(nxt)[:200], origin, NX),
                                {'messages': [describe(ex) for ex in exs], 'pieces': [ex['pieces'][:40] for ex in exs]})
    chk.extra['strict_validated'] = n_strict
    chk.extra['no_abstract_counterpart'] = n_unabs
    if strict_persist_notes:
        chk.note('%d successful exchanges kept a connection while octets of the same message were still in flight '
                 '(surplus after a length-delimited body arriving later): outside the lenient reading of Persist'
                 % strict_persist_notes)

    # ---------------- binding self-test (cheap): a corrupted field must be rejected / flagged
    chk.extra['binding_selftest'] = binding_selftest(fix, pid)

    # ---------------- collect the design checks
    T['validated'] = time.time() - t00
    for name, NX, sp, tr, fut in dfut:
        res = fix_coverage(fut.result())
        chk.design('HttpWire[%s,NX=%d,trunc=%s]' % (name, NX, tr), res, constants=dict(NX=NX, trunc=tr, **{k: list(v) for k, v in sp.items()}),
                   expect_actions=None)
    taken = set(a.split('.')[-1] for a, n in chk.coverage_actions.items() if n > 0)
    missing = [a for a in ACTIONS if a not in taken]
    if missing:
        raise tlc.TLCError('vacuity guard: actions never taken in any design check: %s' % missing)
    pool.shutdown()
    chk.constants = {'design': [dict(name=n, NX=NX, trunc=tr, **{k: list(v) for k, v in sp.items()}) for (n, NX, sp, tr) in designs],
                     'generation_space': {k: list(v) for k, v in ALL.items()}}
    T['designs_collected'] = time.time() - t00
    chk.extra['timing_s'] = {k: round(v, 1) for k, v in T.items()}
    chk.extra['design_wall_s'] = {d['name']: d['wall_s'] for d in chk.design_runs}
    chk.rule = ('exchanges of the real wpull HTTP client over the in-memory network: TLC-generated behaviours '
                '(messages + piece sizes) rendered to octets, and seeded random concrete messages under random '
                'segmentations; distinct = distinct recorded executions')
    chk.exhaustive = False


def binding_selftest(fix, pid):
    """Corrupting one logged field makes the strict spec reject; corrupting an observation makes the monitor fire."""
    # a synthetic, correct execution (independent of the code under test): a Content-Length message in one piece
    cm = M.build_cmsg(dict(method='GET', status=200, te='none', cl='exact', fmt='crlf', content=b'abc'))
    reqb = b'GET /p1 HTTP/1.1\r\nHost: h.test\r\n\r\n'
    ev = [dict(e='conn', x=1), dict(e='breq', x=1), dict(e='req', x=1, data=reqb), dict(e='ans', x=1), dict(e='ereq', x=1),
          dict(e='feed', x=1, n=len(M.sent(cm)))]
    for (part, content, eol, t) in cm['lines']:
        ev.append(dict(e='rd', x=1, data=content + eol))
    ev += [dict(e='bresp', x=1), dict(e='rd', x=1, data=b'abc'), dict(e='dl', x=1, data=b'abc'), dict(e='eresp', x=1),
           dict(e='done', x=1, out='ok', closed=False, left=0, unseen=0, srv=reqb)]
    if pid == 'C04':
        from drivers.httpwire_exec import url_of
        ev += [dict(e='rec', t='request', uri=url_of(1), id='<urn:uuid:1>', conc='', ctype='', block=reqb),
               dict(e='rec', t='response', uri=url_of(1), id='<urn:uuid:2>', conc='<urn:uuid:1>', ctype='',
                    block=cm['head'] + b'abc'),
               dict(e='warc_end')]

    class Synthetic(object):
        pass
    r = Synthetic()
    r.ev = ev
    r.exchanges = [{'cm': cm, 'pieces': [len(M.sent(cm))]}]
    good = strict_trace(r)
    bad1 = json.loads(json.dumps(good))
    body_rd = [e for e in bad1['ev'] if e['e'] == 'rd' and all(b < 256 for b in e['data']) and len(e['data']) == 3]
    body_rd[-1]['data'][0] ^= 1
    bad2 = json.loads(json.dumps(good))
    bad2['ev'] = [e for e in bad2['ev'] if e['e'] != 'feed']
    bad3 = json.loads(json.dumps(good))
    for e in bad3['ev']:
        if e['e'] == 'done':
            e['closed'] = not e['closed']
    sv, _ = tlc.validate_batch('HttpWireTrace', strict_cfg(1, fix), [good, bad1, bad2, bad3])
    ok = [v['matched'] >= v['len'] for v in sv]
    mgood = mon_trace(r, pid)
    mbad = json.loads(json.dumps(mgood))
    for e in mbad['ev']:
        if e['e'] == ('rd' if pid == 'C04' else 'dl'):
            e['data'][-1] ^= 1
    mv, _ = tlc.validate_batch('HttpWireMon', MON_CFG % 1, [mgood, mbad])
    res = {'strict_accepts_recorded': ok[0], 'strict_rejects_corrupted_data': not ok[1],
           'strict_rejects_removed_events': not ok[2], 'strict_rejects_corrupted_field': not ok[3],
           'monitor_accepts_recorded': mv[0]['bad'] == 0, 'monitor_flags_corrupted_observation': mv[1]['bad'] != 0}
    if not all(res.values()):
        raise tlc.TLCError('binding self-test failed: %r' % (res,))
    return res


def selftest(chk):
    logging.getLogger('wpull').setLevel(logging.CRITICAL)
    print(json.dumps(binding_selftest(probe_variant(), chk.pid), indent=1))
    return 0


def replay(chk, path):
    logging.getLogger('wpull').setLevel(logging.CRITICAL)
    obj = json.load(open(path))
    rp = obj['replay']
    exs = exchange_from_json(rp['exchanges'])
    r = Run(exs, warc=rp.get('warc', False), dedup=rp.get('dedup', ()), ignore_length=rp.get('ignore_length', False))
    r.execute()
    for ex in exs:
        print('MESSAGE', describe(ex), 'pieces', ex['pieces'][:30])
    for e in r.ev:
        print({k: (v[:80] if isinstance(v, (bytes, bytearray)) else v) for k, v in e.items()})
    print('errors', r.error_detail)
    mt = mon_trace(r, chk.pid)
    mv, _ = tlc.validate_batch('HttpWireMon', MON_CFG % len(exs), [mt])
    print('monitor verdict:', CLAUSES.get(mv[0]['bad'], 'all clauses hold'), mv[0])
    return 1 if mv[0]['bad'] else 0
