"""C16 executor: the REAL wpull WebClient / WebSession (with CookieJarWrapper + DeFactoCookiePolicy + RedirectTracker,
wired as application/tasks/download.py ClientSetupTask._build_web_client does) fetching one URL over harness.fakenet
against a scripted server, and the projection of the BYTES the server received into the observation of C16.

Abstract URL: {scheme: http|https, host: h1|h2|h3, port: def|alt, path: token, creds: bool}
Script:       {start: URL, login: bool, referer: none|http|https, jar0: [hosts], maxred: int, proxy: bool,
               steps: [{status, loc: URL|'missing'|'bad', rel: bool, setcookie: bool}, ...]}
The i-th request received (on whichever listener) is answered with steps[i]; after the script: 200.
"""
import base64
import functools
import json
import http.cookiejar
import io
import re

from harness import vloop, fakenet
from wpull.cookie import DeFactoCookiePolicy
from wpull.cookiewrapper import CookieJarWrapper
from wpull.network.pool import ConnectionPool
from wpull.protocol.http.client import Client
from wpull.protocol.http.redirect import RedirectTracker
from wpull.protocol.http.request import Request
from wpull.protocol.http.stream import Stream
from wpull.protocol.http.web import WebClient
from wpull.processor.web import WebProcessorSession

HOSTS = {'h1': ('h1.test', '10.0.0.1'), 'h2': ('h2.test', '10.0.0.2'), 'h3': ('h3.test', '10.0.0.3')}
PORTS = {('http', 'def'): 80, ('http', 'alt'): 8080, ('https', 'def'): 443, ('https', 'alt'): 8443}
PROXY = ('10.9.9.9', 3128)
LOGIN = ('login', 'secret')


def creds_of(host):
    return ('u_' + host, 'p_' + host)


def authority(u):
    name = HOSTS[u['host']][0]
    return name if u['port'] == 'def' else '%s:%d' % (name, PORTS[(u['scheme'], 'alt')])


def url_text(u):
    ui = '%s:%s@' % creds_of(u['host']) if u.get('creds') else ''
    return '%s://%s%s/%s?k=%s' % (u['scheme'], ui, authority(u), u['path'], u['path'])


def target_of(u):
    return '/%s?k=%s' % (u['path'], u['path'])


STATUS_TEXT = {200: 'OK', 301: 'Moved Permanently', 302: 'Found', 303: 'See Other', 307: 'Temporary Redirect',
               308: 'Permanent Redirect', 401: 'Unauthorized', 500: 'Internal Server Error'}


class Script(fakenet.BaseServer):
    """One server object shared by every listener."""
    def __init__(self, steps, raw_steps=None):
        self.steps = steps
        self.requests = []     # (address, header block bytes, step answered)
        self.buf = {}

    def on_connect(self, ep):
        self.buf[ep.id] = b''
        self.addr = getattr(self, 'addr', {})
        self.addr[ep.id] = ep.address

    def on_data(self, ep, data):
        self.buf[ep.id] = self.buf.get(ep.id, b'') + data
        while b'\r\n\r\n' in self.buf[ep.id]:
            head, _, rest = self.buf[ep.id].partition(b'\r\n\r\n')
            self.buf[ep.id] = rest
            self.answer(ep, head + b'\r\n\r\n')

    def answer(self, ep, head):
        i = len(self.requests)
        if head.startswith(b'CONNECT '):
            ep.send(b'HTTP/1.1 200 Connection established\r\n\r\n')
            self.tunnels = getattr(self, 'tunnels', []) + [head]
            return
        step = self.steps[i] if i < len(self.steps) else {'status': 200, 'loc': 'missing', 'setcookie': False}
        self.requests.append((ep.address, head, step))
        ep.send(self.render(step, head))

    def render(self, step, head):
        if 'raw' in step:
            return step['raw']
        st = step['status']
        lines = ['HTTP/1.1 %d %s' % (st, STATUS_TEXT.get(st, 'X'))]
        loc = step.get('loc', 'missing')
        if loc == 'bad':
            lines.append('Location: http://[bad/')
        elif 'loc_text' in step:
            lines.append('Location: ' + step['loc_text'])
        elif loc != 'missing':
            lines.append('Location: ' + (target_of(loc) if step.get('rel') else url_text(loc)))
        if step.get('setcookie'):
            lines.append('Set-Cookie: c_%s=1; Path=/' % self.host_of_request(head, step))
        if st == 401:
            lines.append('WWW-Authenticate: Basic realm="r"')
        lines.append('Content-Length: 0')
        return ('\r\n'.join(lines) + '\r\n\r\n').encode('latin-1')

    def host_of_request(self, head, step):
        return step.get('_host', 'h1')


def listener_host(addr):
    for h, (name, ip) in HOSTS.items():
        if ip == addr[0]:
            for (sch, pc), p in PORTS.items():
                if p == addr[1]:
                    return h, sch, pc
    return None, None, None


# ------------------------------------------------------------------ projection of received bytes
_TOKEN = re.compile(rb"^[!#$%&'*+\-.^_`|~0-9A-Za-z]+$")


def parse_block(head):
    """Independent parse of a request header block.  Returns dict(wf, why, method, target, version, fields[(name,value)])."""
    out = {'wf': True, 'why': '', 'method': '', 'target': '', 'version': '', 'fields': [], 'ctl': False}

    def bad(why):
        if out['wf']:
            out['wf'] = False
            out['why'] = why

    if not head.endswith(b'\r\n\r\n'):
        bad('no terminating blank line')
    lines = head[:-4].split(b'\r\n') if head.endswith(b'\r\n\r\n') else head.split(b'\r\n')
    for ln in lines:
        if b'\r' in ln or b'\n' in ln:
            bad('bare CR or LF')
        if any(c < 0x20 and c != 0x09 or c == 0x7f for c in ln):
            out['ctl'] = True      # noted, not part of C16 ("no line break or space smuggled in")
    if not lines or not lines[0]:
        bad('empty request line')
        return out
    parts = lines[0].split(b' ')
    if len(parts) != 3:
        bad('request line does not have exactly three space separated parts')
    out['method'] = parts[0].decode('latin-1')
    out['target'] = b' '.join(parts[1:-1]).decode('latin-1') if len(parts) >= 3 else ''
    out['version'] = parts[-1].decode('latin-1')
    if not re.match(rb'^[A-Z]+$', parts[0]):
        bad('method')
    if not re.match(rb'^HTTP/1\.[01]$', parts[-1]):
        bad('version')
    if len(parts) == 3 and (not parts[1] or any(c <= 0x20 or c >= 0x7f for c in parts[1])):
        bad('request-target contains space, control or non-ASCII')
    for ln in lines[1:]:
        if not ln:
            bad('empty line inside the header block')
            continue
        if ln[:1] in b' \t':
            bad('folded line')
            continue
        name, sep, value = ln.partition(b':')
        if not sep or not _TOKEN.match(name):
            bad('field line without a valid name')
            continue
        out['fields'].append((name.decode('latin-1').lower(), value.strip(b' \t').decode('latin-1')))
    return out


def auth_owner(value):
    m = re.match(r'^Basic ([A-Za-z0-9+/=]+)$', value)
    if not m:
        return 'other'
    try:
        user, _, pw = base64.b64decode(m.group(1)).decode('latin-1').partition(':')
    except Exception:
        return 'other'
    if (user, pw) == LOGIN:
        return 'login'
    for h in HOSTS:
        if (user, pw) == creds_of(h):
            return h
    return 'other'


def referer_class(value):
    return 'https' if value.startswith('https://') else ('http' if value.startswith('http://') else 'other')


def referer_creds(value, to_host_name):
    """Does a Referer value carry user-info, and does it go to the host it belongs to?"""
    import urllib.parse
    try:
        sp = urllib.parse.urlsplit(value)
    except ValueError:
        return 'none'
    if '@' not in sp.netloc:
        return 'none'
    host = sp.netloc.rpartition('@')[2].rpartition(':')[0] or sp.netloc.rpartition('@')[2]
    return 'same' if host.lower() == (to_host_name or '').lower() else 'foreign'


def project(addr, head, client_url, proxied):
    """One `send` event: what the server saw, against where the request was delivered."""
    h, sch, pc = listener_host(addr)
    blk = parse_block(head)
    f = blk['fields']
    cookies = []
    for n, v in f:
        if n == 'cookie':
            for part in v.split(';'):
                nm = part.strip().partition('=')[0]
                cookies.append(nm[2:] if nm.startswith('c_') else 'other')
    return {'e': 'send',
            'at': {'host': h or 'proxy', 'scheme': sch or 'http', 'port': pc or 'def'},
            'pn': addr[1],
            'url': client_url,
            'target': blk['target'], 'method': blk['method'],
            'hosts': [v for n, v in f if n == 'host'],
            'auth': [auth_owner(v) for n, v in f if n == 'authorization'],
            '_authv': [v for n, v in f if n == 'authorization'],
            'cookies': cookies,
            'referer': ([referer_class(v) for n, v in f if n == 'referer'] or ['none'])[0],
            'nreferer': sum(1 for n, v in f if n == 'referer'),
            'refcred': ([referer_creds(v, ([hv for hn, hv in f if hn == 'host'] or [''])[0].rpartition(':')[0]
                                       or ([hv for hn, hv in f if hn == 'host'] or [''])[0])
                         for n, v in f if n == 'referer'] or ['none'])[0],
            'wf': blk['wf'], 'why': blk['why'], 'ctl': blk['ctl'], 'proxied': proxied}


# ------------------------------------------------------------------ the client, wired as the Builder does
def _Rec(parent_url, url_info):
    """The URLRecord the processor hands to WebProcessorSession._add_referrer: a REAL record (whatever attribute or
    property of it the code reads is there)."""
    from wpull.pipeline.item import URLRecord
    rec = URLRecord()
    rec.url = url_info.url
    rec.parent_url = parent_url
    rec.root_url = parent_url
    rec.level = 1
    rec.inline_level = None
    return rec


# request factories as the APPLICATION builds them from command-line options (ClientSetupTask._build_request_factory)
OPTSETS = [[], ['--header', 'X-Extra: 1'], ['--header', 'X-Extra: 1', '--header', 'Accept-Language: en', '--no-cache'],
           ['--http-compression']]
_FACTORIES = {}


def app_request_factory(optset, user_agent):
    key = (optset, user_agent)
    if key not in _FACTORIES:
        import types
        from wpull.application.options import AppArgumentParser
        from wpull.application.builder import Builder
        from wpull.application.tasks.download import ClientSetupTask
        args = AppArgumentParser().parse_args(['http://h1.test/', '-U', user_agent] + OPTSETS[optset])
        session = types.SimpleNamespace(args=args, factory=Builder(args).factory, default_user_agent=user_agent)
        _FACTORIES[key] = ClientSetupTask._build_request_factory(session)
    return _FACTORIES[key]


def build_client(net, maxred, proxy=False, user_agent='wpull-verif', optset=None):
    kw = dict(resolver=net.resolver(), connection_factory=net.connection_factory,
              ssl_connection_factory=net.connection_factory)
    if proxy:
        from wpull.proxy.client import HTTPProxyConnectionPool
        pool = HTTPProxyConnectionPool(PROXY, **kw)
    else:
        pool = ConnectionPool(**kw)
    stream_factory = functools.partial(Stream, ignore_length=False, keep_alive=True)
    http_client = Client(connection_pool=pool, stream_factory=stream_factory)
    jar = http.cookiejar.CookieJar()
    jar.set_policy(DeFactoCookiePolicy(cookie_jar=jar))
    wrapper = CookieJarWrapper(jar)

    def request_factory(*a, **k):
        r = Request(*a, **k)
        r.fields['User-Agent'] = user_agent
        return r

    if optset is not None:
        request_factory = app_request_factory(optset, user_agent)
    wc = WebClient(http_client, redirect_tracker_factory=functools.partial(RedirectTracker, max_redirects=maxred),
                   cookie_jar=wrapper, request_factory=request_factory)
    return wc, jar


def seed_cookie(jar, host):
    name = HOSTS[host][0]
    jar.set_cookie(http.cookiejar.Cookie(0, 'c_' + host, '1', None, False, name, False, False, '/', True, False,
                                         None, True, None, None, {}))


def run_script(sc, start_text=None, referer_text=None):
    """Returns (events, outcome)."""
    net = fakenet.FakeNet()
    steps = [dict(s) for s in sc['steps']]
    server = Script(steps)
    for h, (name, ip) in HOSTS.items():
        net.add_host(name, ip)
        for p in PORTS.values():
            net.listen(ip, p, server)
    net.listen(PROXY[0], PROXY[1], server)
    proxy = bool(sc.get('proxy'))
    # which request factory: the plain one, or one the application builds from options (chosen from the script itself,
    # so that a scenario always runs the same way)
    import zlib as _z
    pick = _z.crc32(json.dumps(sc, sort_keys=True, default=str).encode()) % (len(OPTSETS) + 2)
    wc, jar = build_client(net, sc.get('maxred', 3), proxy, optset=(pick if pick < len(OPTSETS) else None))
    for h in sc.get('jar0', []):
        seed_cookie(jar, h)
    start = start_text or url_text(sc['start'])
    req = wc.request_factory(start)
    ref = sc.get('referer', 'none')
    if referer_text is not None or ref != 'none':
        parent = referer_text if referer_text is not None else '%s://%s/parent' % (ref, HOSTS['h3'][0])
        WebProcessorSession._add_referrer(req, _Rec(parent, req.url_info))
    if sc.get('login'):
        req.username, req.password = LOGIN
    ev = []
    client_urls = []

    # the cookie a step sets belongs to the host the request was delivered to
    orig_answer = server.answer

    def answer(ep, head):
        i = len(server.requests)
        if i < len(steps) and not head.startswith(b'CONNECT '):
            steps[i]['_host'] = listener_host(ep.address)[0] or sc_host(client_urls[-1] if client_urls else None)
        orig_answer(ep, head)

    def sc_host(u):
        return u['host'] if u else 'h1'

    server.answer = answer

    async def go():
        session = wc.session(req)
        with session:
            while not session.done():
                nxt = session.next_request()
                client_urls.append(abstract_url(nxt.url_info))
                resp = await session.start()
                await session.download(file=io.BytesIO())
        return 'ok'

    kind, val = vloop.run(go, lambda: False)
    for i, (addr, head, step) in enumerate(server.requests):
        cu = client_urls[i] if i < len(client_urls) else None
        e = project(addr, head, cu, proxy)
        if proxy and e['at']['host'] == 'proxy' and cu:
            # plain-HTTP proxying: the request is delivered to the proxy; "where addressed" is the client's URL
            e['at'] = {'host': cu['host'], 'scheme': cu['scheme'], 'port': cu['port']}
        ev.append(e)
        loc = step.get('loc', 'missing')
        ev.append({'e': 'recv', 'status': step.get('status', 0), 'loc': loc if isinstance(loc, str) else 'url',
                   'setcookie': bool(step.get('setcookie'))})
    # bytes that never formed a complete header block are a (malformed) request too
    for epid, rest in sorted(server.buf.items()):
        if rest and not rest.startswith(b'CONNECT '):
            cu = client_urls[len(server.requests)] if len(server.requests) < len(client_urls) else None
            ev.append(project(server.addr[epid], rest, cu, proxy))
    # the requests that opened tunnels through the proxy (https): CONNECT authority, with its own Host field
    for head in getattr(server, 'tunnels', []):
        blk = parse_block(head)
        ev.append({'e': 'tunnel', 'target': blk['target'], 'hosts': [v for n, v in blk['fields'] if n == 'host'],
                   'wf': bool(blk['wf'] and blk['method'] == 'CONNECT')})
    if kind == 'ok':
        outcome = 'ok'
    elif kind == 'hang':
        outcome = 'hang'
    else:
        outcome = 'error:' + type(val).__name__
    ev.append({'e': 'outcome', 'v': outcome.split(':')[0], 'detail': outcome + (':' + str(val)[:80] if kind == 'exc' else '')})
    return ev, outcome


def abstract_url(ui):
    """The client's own view of the URL it is about to fetch, as an abstract URL (None if outside the alphabet)."""
    try:
        host = [h for h, (name, ip) in HOSTS.items() if name == ui.hostname]
        if not host:
            return {'host': 'other', 'scheme': ui.scheme, 'port': 'def', 'path': ui.path, 'text': ui.url}
        pc = [pc for (sch, pc), p in PORTS.items() if sch == ui.scheme and p == ui.port]
        return {'host': host[0], 'scheme': ui.scheme, 'port': pc[0] if pc else 'other', 'path': ui.path[1:],
                'creds': bool(ui.password)}
    except Exception:
        return None
