"""C14 - the URL table behaves as a keyed set with a status state machine.

1. design check: TLC, URLTable.tla (sequential reference model of sqltable.py / sqlmodel.py / wrap.py as the code
   executes here), every clause of URLTableProps.tla as an invariant over <projection before, call, result,
   projection after>, exhaustive for the tier's constants; once with the repair switches as detected on the code
   under test, once with all repairs on (then ALL clauses hold).
2. histories executed on the REAL SQLiteURLTable (':memory:' and on disk with close + reopen steps) and through
   URLTableHookWrapper:
     (a) spec -> code: one history per transition of the bounded reference model (URLTableGen.tla, exhaustive,
         history hidden by a VIEW), and TLC -simulate histories with more URLs and 30 calls;
     (b) code -> spec: seeded random histories of 50-200 calls over 10-20 arbitrary URL strings
         (drivers/urltable_hist.py).
3. every recorded trace (call, arguments, result, table contents read back after the call) is validated by TLC
   twice: URLTableMon (property clauses on the observed values only: decides VIOLATION) and URLTableTrace
   (is it a behaviour of URLTable.tla: decides MODEL-DRIFT).
"""
import json
import logging
import multiprocessing
import os
import random
import re
from concurrent.futures import ThreadPoolExecutor

from harness import tlc
from drivers import urltable_exec as X

CLAUSES = {1: 'ReAddIsNoop', 2: 'AddManyReportsExactlyNew', 3: 'NewRowAsGiven', 4: 'OnlyRemoveDeletes',
           5: 'RemoveExact', 6: 'OnlyMutatorsMutate', 7: 'StatusMachine', 8: 'TryMonotone', 9: 'DepthStable',
           10: 'CheckOutNotFoundIff', 11: 'CheckOutMarks', 12: 'CheckInStatusTry', 13: 'CheckInResult',
           14: 'CheckInOthersSame', 15: 'UpdateExact', 16: 'ReleaseExact', 17: 'ReopenIdentity', 18: 'ReadAgree',
           19: 'NoCrash', 20: 'FailureAtomic', 21: 'VisitSound', 22: 'VisitComplete', 23: 'ConvertSound',
           24: 'StoredOnce'}

ACTIONS = ['DoAddMany', 'DoCheckOut', 'DoCheckIn', 'DoRelease', 'DoRemove', 'DoReopen', 'DoUpdate', 'DoAddVisits',
           'DoGetRevisit', 'DoCount', 'DoGetAll', 'DoGetHostnames', 'DoRootTodo', 'DoGetOne', 'DoContains',
           'DoConvertOut', 'DoConvertIn']

ALL_OPS = '{"add", "core", "update", "visits", "reads", "convert", "empty"}'

# concrete strings for the tokens of the bounded model (URLTable.tla: DesignHost, Templates, Kvs, Next)
#   2, 3: two URLs on one host   4: no host name   5: another host   6: spare   7: post data   8: file name   9: root
DESIGN_STRINGS = [None, '', 'http://h100.example/a', 'http://h100.example/b?x=1&y=%zz', 'mailto:nobody@h.example',
                  "http://h101.example/ü '\"", 'http://h101.example/six', 'post=data&x=%41', 'dir/file name.html',
                  'http://root.example/']
BAD_URL = 'http://[bad/'


def _regressions():
    """Minimal histories for the defects found while building this check (kept as regression scenarios; they
    also give each known signature a short replay file)."""
    plain = {'u': 2, 'hp': False, 'par': 0, 'root': 0, 'st': 'none', 'try': -1, 'lv': -1, 'il': -1, 'lt': 'none',
             'pr': -1, 'post': 0}
    add = lambda *es: {'op': 'add_many', 'batch': list(es)}
    ci = {'op': 'check_in', 'u': 3, 'st': 'done', 'inc': True, 'hr': True, 'fn': 8, 'code': 200}
    cco = {'op': 'convert_check_out'}
    co = lambda st, lv=-1: {'op': 'check_out', 'st': st, 'lv': lv}
    return [
        # ItemSession.add_url(url) with its default URLProperties(): no parent_url / root_url in the whole batch
        [add(dict(plain, hp=True))],
        [add(dict(plain, hp=True, lv=1, par=3)), {'op': 'count'}],
        # queued_files.queued_url_id is filled with url_strings.id: diverges from queued_urls.id as soon as a
        # parent / root string that is not itself queued has been stored
        [add(dict(plain, hp=True, par=9, root=9)), add(dict(plain, u=3)), ci, cco],
        [add(dict(plain, hp=True, par=9, root=9)), add(dict(plain, u=3)), add(dict(plain, u=5)), ci, cco],
        # remove_many leaves the queued_files row behind; the row id is reused by the next URL added
        [add(dict(plain, u=3)), ci, {'op': 'remove_many', 'urls': [3]}, cco],
        [add(dict(plain, u=3)), ci, {'op': 'remove_many', 'urls': [3]}, add(dict(plain, u=5)), cco],
        # a URL is removed while checked out, another one takes its place, it is added again and only then checked in
        [add(dict(plain, u=2)), co('todo'), {'op': 'remove_many', 'urls': [2]}, add(dict(plain, u=3)), add(dict(plain, u=2)),
         dict(ci, u=2), {'op': 'get_all'}],
        [add(dict(plain, u=2), dict(plain, u=5)), co('todo'), co('todo'), {'op': 'remove_many', 'urls': [2, 5]},
         add(dict(plain, u=3)), add(dict(plain, u=5)), add(dict(plain, u=2)), dict(ci, u=5), dict(ci, u=2, st='error'),
         {'op': 'get_all'}, co('todo'), co('error')],
        # check-out with a depth bound that finds nothing, then without one / with a larger one
        [add(dict(plain, u=2, hp=True, lv=2)), co('todo', 1), co('todo', 2), {'op': 'release'}, co('todo', 0), co('todo')],
        [add(dict(plain, u=2, hp=True, lv=3), dict(plain, u=3, hp=True, lv=1)), co('todo', 0), co('todo', 1), co('todo', 2), co('todo', 3)],
    ]


def design_strings(nu, bad_last):
    s = list(DESIGN_STRINGS)
    if bad_last:
        s[nu + 1] = BAD_URL
    return s


def tla_bool(b):
    return 'TRUE' if b else 'FALSE'


def fix_consts(fix):
    return 'FixBind = %s FixFileId = %s FixRemoveFiles = %s' % tuple(tla_bool(fix[k]) for k in ('bind', 'fileid', 'remove'))


# ------------------------------------------------------------------ which repairs does the code under test have?
def detect_fixes():
    """Three tiny probes of the real table select the repair switches of the MODEL (they only decide what
    counts as model drift; the property clauses of the monitor do not depend on them)."""
    e = {'u': 2, 'hp': True, 'par': 0, 'root': 0, 'st': 'none', 'try': -1, 'lv': -1, 'il': -1, 'lt': 'none', 'pr': -1,
         'post': 0}
    plain = dict(e, hp=False)
    child = dict(e, par=9, root=9)
    ev = X.Runner(list(DESIGN_STRINGS), 'memory').run([{'op': 'add_many', 'batch': [e]}])
    bind = ev[0]['res']['k'] == 'ok'
    ci = {'op': 'check_in', 'u': 3, 'st': 'done', 'inc': True, 'hr': True, 'fn': 8, 'code': 200}
    ev = X.Runner(list(DESIGN_STRINGS), 'memory').run([{'op': 'add_many', 'batch': [child]},
                                                        {'op': 'add_many', 'batch': [dict(plain, u=3)]}, ci])
    fileid = ev[2]['fl'] == [[1, 2, 'todo']]
    ev = X.Runner(list(DESIGN_STRINGS), 'memory').run([{'op': 'add_many', 'batch': [dict(plain, u=3)]}, ci,
                                                        {'op': 'remove_many', 'urls': [3]}])
    remove = ev[2]['fl'] == []
    return {'bind': bind, 'fileid': fileid, 'remove': remove}


# ------------------------------------------------------------------ TLC configurations
def design_cfg(fix, nu, bad, pset, maxbatch, maxops, ops, full):
    s = 'SPECIFICATION Spec\nCONSTANTS %s\n NU = %d BadLast = %s PSet = %s MaxBatch = %d MaxOps = %d OpsOn = %s\n' \
        % (fix_consts(fix), nu, tla_bool(bad), pset, maxbatch, maxops, ops)
    s += 'INVARIANT TypeOK\nINVARIANT ModelClauses\n'
    if full:
        s += 'INVARIANT Clauses\n'
    return s + 'CHECK_DEADLOCK FALSE\n'


def gen_cfg(fix, nu, bad, pset, maxbatch, maxops, ops, simulate):
    s = 'SPECIFICATION %s\nCONSTANTS %s\n NU = %d BadLast = %s PSet = %s MaxBatch = %d MaxOps = %d OpsOn = %s\n' \
        % ('SimSpec' if simulate else 'GSpec', fix_consts(fix), nu, tla_bool(bad), pset, maxbatch, maxops, ops)
    s += 'CONSTRAINT EmitEnd\n' if simulate else 'VIEW GView\nINVARIANT EmitAll\n'
    return s + 'CHECK_DEADLOCK FALSE\n'


MON_CFG = 'SPECIFICATION MSpec\nCONSTRAINT Record\nPOSTCONDITION Post\nCHECK_DEADLOCK FALSE\n'


def trace_cfg(fix):
    return ('SPECIFICATION TSpec\nCONSTANTS %s\n NU = 1 BadLast = FALSE PSet = {} MaxBatch = 0 MaxOps = 0 OpsOn = {}\n'
            'CONSTRAINT Record\nPOSTCONDITION Post\nCHECK_DEADLOCK FALSE\n' % fix_consts(fix))


_RE_HIST = re.compile(r'<<"HIST", "(.*?)">>')


def parse_hists(out):
    seen = set()
    res = []
    for m in _RE_HIST.finditer(out):
        txt = m.group(1).replace('\\"', '"').replace('\\\\', '\\')
        if txt in seen:
            continue
        seen.add(txt)
        res.append([{k: v for k, v in o.items() if k != 'res'} for o in json.loads(txt)])
    return res


def tlc_histories(fix, nu, bad, pset, maxbatch, maxops, ops, simulate=None, seed=0, workers=1):
    cfg = gen_cfg(fix, nu, bad, pset, maxbatch, maxops, ops, bool(simulate))
    res = tlc.run_tlc('URLTableGen', cfg, workers=workers, simulate=simulate, depth=(maxops + 5) if simulate else None,
                      seed=seed if simulate else None, timeout=1500, heap='4g')
    if not simulate:
        tlc.require_ok(res, 'scenario generation')
    hs = parse_hists(res['out'])
    if not hs:
        raise tlc.TLCError('scenario generation produced no history\n' + '\n'.join(res['out'].splitlines()[-30:]))
    return hs, res


# ------------------------------------------------------------------ jobs for the worker processes
def _job(job):
    logging.disable(logging.CRITICAL)
    kind = job[0]
    if kind == 'fixed':
        _, strings, history, mode = job
        tr = X.execute(strings, history, mode, reuse=len(history) <= 8)
        tr['history'] = [o for o in history if not (o['op'] == 'reopen' and mode not in ('disk', 'wrapper-disk'))]
        return tr
    from drivers.urltable_hist import Generator
    _, seed, nops, mode = job
    return Generator(seed, nops, mode).run()


def slim(tr):
    return {'ev': tr['ev'], 'host': tr['host']}


def signature(tr, line, clause):
    e = tr['ev'][line]
    sig = {'clause': clause, 'op': e['op']}
    if clause == 'NoCrash':
        sig['exc'] = e.get('x') or e['res']['k']
    if e['op'] == 'convert_check_out':
        # did a removal hit a URL whose file was queued?  (separates the two defects of the file queue)
        filed = set()
        hit = False
        for p in tr['ev'][:line]:
            if p['op'] == 'check_in' and p['st'] == 'done' and p['hr'] and p['fn'] not in (0, 1):
                filed.add(p['u'])
            if p['op'] == 'remove_many' and filed & set(p['urls']):
                hit = True
        sig['after_remove'] = hit
    return sig


def describe(tr, line, clause):
    e = tr['ev'][line]
    S = tr['strings']
    args = {k: v for k, v in e.items() if k not in ('res', 'x', 'd', 'del', 'dup', 'ids', 'hn', 'fl', 'qc', 'dflt')}
    txt = '%s violated by %s on the real table (mode %s, call %d of the history): %s -> %s%s' % (
        clause, e['op'], tr['mode'], line + 1, json.dumps(args)[:300], e['res']['k'],
        (' (' + e['x'] + ')') if e.get('x') else '')
    if e['op'] in ('check_in', 'get_one', 'contains', 'update_one'):
        txt += '; url=%r' % (S[e['u']][:80] if S[e['u']] is not None else None,)
    return txt


_RE_VERDICT = re.compile(r'VERDICTS_BEGIN(.*?)VERDICTS_END', re.S)


def monitor_batch(traces):
    """Like tlc.validate_batch for URLTableMon, whose registers hold EVERY violated <<line, clause>> of a trace.
    -> ([{'len', 'matched', 'bad': [(event index, clause number), ...]}], stats)"""
    import os
    import tempfile
    tf = tempfile.NamedTemporaryFile('w', suffix='.json', delete=False)
    try:
        json.dump(traces, tf)
        tf.close()
        res = tlc.run_tlc('URLTableMon', MON_CFG, workers=1, timeout=1500, env={'TRACE_FILE': tf.name}, heap='3g',
                          depth_first=True, deadlock=False)
    finally:
        os.unlink(tf.name)
    m = _RE_VERDICT.search(res['out'])
    if not m:
        raise tlc.TLCError('URLTableMon produced no verdicts (rc=%s timed_out=%s)\n%s'
                           % (res['rc'], res['timed_out'], '\n'.join(res['out'].splitlines()[-60:])))
    nums = [int(x) for x in re.findall(r'-?\d+', m.group(1))]
    out = []
    p = 0
    for tr in traces:
        maxl, k = nums[p], nums[p + 1]
        pairs = nums[p + 2:p + 2 + 2 * k]
        p += 2 + 2 * k
        out.append({'len': len(tr['ev']), 'matched': maxl,
                    'bad': sorted((pairs[i] - 2, pairs[i + 1]) for i in range(0, 2 * k, 2))})
    if p != len(nums):
        raise tlc.TLCError('verdict vector of URLTableMon not understood')
    return out, {'states': res['states'], 'distinct': res['distinct'], 'wall_s': res['wall_s'], 'runs': 1}


def validate(traces, fix, chunk):
    """-> (monitor verdicts, strict verdicts, stats list)"""
    slims = [slim(t) for t in traces]
    parts = [slims[i:i + chunk] for i in range(0, len(slims), chunk)]
    jobs = [('URLTableMon', MON_CFG, p) for p in parts] + [('URLTableTrace', trace_cfg(fix), p) for p in parts]

    def one(j):
        if j[0] == 'URLTableMon':
            return monitor_batch(j[2])
        return tlc.validate_batch(j[0], j[1], j[2], timeout=1500, heap='3g')

    with ThreadPoolExecutor(max_workers=6) as ex:
        results = list(ex.map(one, jobs))
    k = len(parts)
    mv = [v for r in results[:k] for v in r[0]]
    sv = [v for r in results[k:] for v in r[0]]
    return mv, sv, [r[1] for r in results]


def run(chk):
    logging.disable(logging.CRITICAL)
    quick = chk.tier == 'quick'
    rng = random.Random(chk.seed)
    pool = multiprocessing.get_context('fork').Pool(6)
    try:
        _run(chk, quick, rng, pool)
    finally:
        pool.terminate()
        pool.join()


def _run(chk, quick, rng, pool):
    import time
    t0 = time.time()
    timing = chk.extra.setdefault('timing_s', {})
    fix = detect_fixes()
    allfix = {'bind': True, 'fileid': True, 'remove': True}
    chk.extra['repairs_detected_in_code_under_test'] = fix

    # ---------------- 1. design checks (run in threads while histories are executed)
    #                     (nu, bad, pset, maxbatch, maxops, ops, repairs, coverage)
    small = (2, True, '{1, 2, 3, 4}', 2, 2, ALL_OPS)
    if quick:
        designs = [small + (fix, True), small + (allfix, False),
                   (3, False, '{1, 2}', 1, 4, '{"add", "core", "update"}', fix, False)]
    else:
        designs = [small + (fix, True), small + (allfix, False),
                   (2, True, '{1, 2, 3, 4}', 2, 3, ALL_OPS, fix, False),
                   (2, True, '{1, 2, 3, 4}', 2, 3, ALL_OPS, allfix, False),
                   (3, True, '{1, 2, 3}', 2, 3, ALL_OPS, fix, False),
                   (3, False, '{1, 2}', 1, 5, '{"add", "core", "update"}', fix, False)]

    def design(d):
        nu, bad, pset, mb, mo, ops, fx, cov = d
        return tlc.run_tlc('URLTable', design_cfg(fx, nu, bad, pset, mb, mo, ops, fx == allfix), workers=3 if quick else 4,
                           timeout=2400, coverage=cov, heap='4g')

    light = bool(os.environ.get('VERIF_C14_LIGHT'))   # mutant screening (drivers/urltable_mutants.py): no design checks
    if light:
        designs = []
    dex = ThreadPoolExecutor(max_workers=2)
    dfut = [dex.submit(design, d) for d in designs]

    # ---------------- 2. histories
    jobs = []      # (origin, job)
    modes = X.MODES
    for i, h in enumerate(_regressions()):
        jobs.append(('regression', ('fixed', list(DESIGN_STRINGS), h, modes[i % 2 * 2])))
    # (a1) one history per transition of the bounded reference model
    if quick:
        gens = [(2, True, '{1, 2, 3, 4}', 2, 2, ALL_OPS, 2)]     # last field: execute every k-th of the longest histories
    else:
        gens = [(2, True, '{1, 2, 3, 4}', 2, 3, ALL_OPS, 4), (3, False, '{1, 2}', 1, 3, '{"add", "core", "update"}', 1)]
    per_transition = 0
    for g in gens:
        hs, res = tlc_histories(fix, *g[:6])
        nall = len(hs)
        # every history shorter than MaxOps, every k-th of those of length MaxOps
        hs = [h for i, h in enumerate(hs) if len(h) < g[4] or i % g[6] == 0]
        strings = design_strings(g[0], g[1])
        for i, h in enumerate(hs):
            has_reopen = any(o['op'] == 'reopen' for o in h)
            mode = modes[1 + 2 * (i % 2)] if has_reopen else modes[(0, 2, 0, 2, 1, 0, 2, 0, 2, 3)[i % 10]]
            jobs.append(('tlc-transition', ('fixed', strings, h, mode)))
        per_transition += len(hs)
        chk.extra.setdefault('transition_graphs', []).append(
            {'NU': g[0], 'BadLast': g[1], 'PSet': g[2], 'MaxBatch': g[3], 'MaxOps': g[4], 'OpsOn': g[5],
             'transitions': res['distinct'] - 1, 'histories_generated': nall, 'histories_executed': len(hs)})
    # (a2) simulation: more URLs, 30 calls, depth-5 histories with 3 URLs
    sims = [(5, True, '{1, 2, 3, 4}', 2, 30, ALL_OPS, 8 if quick else 40),
            (3, True, '{1, 2, 3, 4}', 2, 5, ALL_OPS, 24 if quick else 300)]
    for j, g in enumerate([] if light else sims):
        hs, res = tlc_histories(fix, *g[:6], simulate=g[6], seed=chk.seed + 11 + j)
        strings = design_strings(g[0], g[1])
        for i, h in enumerate(hs):
            jobs.append(('tlc-simulation', ('fixed', strings, h, modes[1 + 2 * (i % 2)] if i % 3 else modes[i % 4])))
    # (b) seeded random histories over arbitrary strings
    nrand = 40 if quick else 160
    for i in range(nrand):
        jobs.append(('random', ('random', rng.randrange(2 ** 30), rng.randrange(50, 201), modes[i % 4])))

    timing['generate'] = round(time.time() - t0, 1)
    timing['histories'] = len(jobs)
    traces = pool.map(_job, [j for (_, j) in jobs], chunksize=4)
    origins = [o for (o, _) in jobs]
    timing['execute'] = round(time.time() - t0, 1)

    # ---------------- design results
    for d, f in zip(designs, dfut):
        nu, bad, pset, mb, mo, ops, fx, cov = d
        name = 'URLTable[NU=%d,BadLast=%s,PSet=%s,MaxBatch=%d,MaxOps=%d,ops=%s,repairs=%s]' % (
            nu, bad, pset.replace(' ', ''), mb, mo, 'all' if ops == ALL_OPS else ops.replace(' ', '').replace('"', ''),
            'all' if fx == allfix else ''.join(k[0] for k in sorted(fx) if fx[k]) or 'none')
        chk.design(name, f.result(), constants=dict(NU=nu, BadLast=bad, PSet=pset, MaxBatch=mb, MaxOps=mo, OpsOn=ops,
                                                    repairs=fx),
                   expect_actions=ACTIONS if cov else None)
    dex.shutdown()
    timing['design_done'] = round(time.time() - t0, 1)
    chk.constants = {'design': [dict(zip('NU BadLast PSet MaxBatch MaxOps OpsOn repairs coverage'.split(), d))
                                for d in designs]}

    # ---------------- 3. TLC validation of every recorded trace
    mv, sv, stats = validate(traces, fix, 1000 if quick else 2500)
    for st in stats:
        chk.trace_stats(st)
    timing['validated'] = round(time.time() - t0, 1)
    ndrift = 0
    # shortest histories first: the replay file of a signature is written at its first occurrence
    order = sorted(range(len(traces)), key=lambda i: (len(traces[i]['ev']), i))
    for origin, tr, m, s in [(origins[i], traces[i], mv[i], sv[i]) for i in order]:
        chk.case(key=None)
        chk.validated(1)
        chk.distinct.add(json.dumps(tr['history'], sort_keys=True) + tr['mode'])
        if origin != 'tlc-transition' and len(chk.samples) < 3 and len(tr['ev']) >= 5:
            chk.samples.append({'origin': origin, 'mode': tr['mode'], 'calls': len(tr['ev']),
                                'first_events': [{k: v for k, v in e.items() if k not in ('ids', 'fl', 'hn')}
                                                 for e in tr['ev'][:4]]})
        if m['matched'] < m['len']:
            raise tlc.TLCError('monitor did not consume a trace: %r' % (m,))
        for line, c in m['bad']:
            clause = CLAUSES.get(c, str(c))
            chk.violation(signature(tr, line, clause), describe(tr, line, clause),
                          {'strings': tr['strings'], 'history': tr['history'][:line + 1], 'mode': tr['mode'],
                           'origin': origin, 'event': tr['ev'][line]})
        if not s['accepted'] and not any(line == s['matched'] for line, _ in m['bad']):
            ndrift += 1
            e = tr['ev'][s['matched']] if s['matched'] < len(tr['ev']) else None
            chk.drifted('strict URLTable.tla rejects call %d (%s, mode %s, origin %s)'
                        % (s['matched'] + 1, e and e['op'], tr['mode'], origin),
                        {'event': e and {k: v for k, v in e.items() if k != 'ids'}})
    chk.rule = ('operation histories executed on the real SQLiteURLTable (in memory; on disk with close+reopen steps) '
                'and through URLTableHookWrapper: one history per transition of the bounded reference model, '
                'TLC -simulate histories (5 URLs x 30 calls, 3 URLs x 5 calls), seeded random histories of 50-200 calls '
                'over 10-20 arbitrary URL strings; distinct = distinct (history, mode) pairs')
    chk.exhaustive = False
    chk.extra['origins'] = {o: origins.count(o) for o in ('regression', 'tlc-transition', 'tlc-simulation', 'random')}
    chk.extra['calls_executed'] = sum(len(t['ev']) for t in traces)
    chk.extra['modes'] = {m: sum(1 for t in traces if t['mode'] == m) for m in X.MODES}
    chk.extra['strict_rejections'] = ndrift
    ops = {}
    for t in traces:
        for e in t['ev']:
            key = e['op'] + ':' + e['res']['k']
            ops[key] = ops.get(key, 0) + 1
    chk.extra['calls_by_op_and_outcome'] = ops


# ------------------------------------------------------------------ replay / selftest
def replay(chk, path):
    logging.disable(logging.CRITICAL)
    rp = json.load(open(path))['replay']
    tr = X.execute(rp['strings'], rp['history'], rp['mode'])
    tr['history'] = rp['history']
    for e in tr['ev']:
        print(json.dumps({k: v for k, v in e.items() if k not in ('ids',)}))
    mv, mst = monitor_batch([slim(tr)])
    for line, c in mv[0]['bad']:
        clause = CLAUSES.get(c, str(c))
        print('VIOLATION reproduced:', json.dumps(signature(tr, line, clause)), '::', describe(tr, line, clause))
    if not mv[0]['bad']:
        print('no clause violated on replay (%d calls)' % len(tr['ev']))
    return 1 if mv[0]['bad'] else 0


def selftest(chk):
    """Binding self-test: corrupting one logged field (and dropping one event) makes the strict spec reject,
    and corruptions of observable results make the monitor name the right clause."""
    logging.disable(logging.CRITICAL)
    fix = detect_fixes()
    plain = {'u': 2, 'hp': False, 'par': 0, 'root': 0, 'st': 'none', 'try': -1, 'lv': -1, 'il': -1, 'lt': 'none',
             'pr': -1, 'post': 0}
    child = dict(plain, u=3, hp=True, par=2, root=2, lv=1)
    kv = {'st': 'error', 'try': -2, 'lv': -2, 'il': -2, 'lt': 'absent', 'pr': -2, 'post': -2, 'code': -2, 'fn': -2}
    history = [{'op': 'add_many', 'batch': [plain, child, dict(plain, lv=3, hp=True, par=3, root=3)]},
               {'op': 'check_out', 'st': 'todo', 'lv': -1},
               {'op': 'check_in', 'u': 2, 'st': 'done', 'inc': True, 'hr': True, 'fn': 8, 'code': 200},
               {'op': 'add_many', 'batch': [child, dict(plain, u=5)]},
               {'op': 'check_out', 'st': 'todo', 'lv': 1},
               {'op': 'reopen'}, {'op': 'release'}, {'op': 'update_one', 'u': 3, 'kv': kv},
               {'op': 'remove_many', 'urls': [5]}, {'op': 'count'}, {'op': 'get_all'}, {'op': 'get_one', 'u': 3}]
    base = X.execute(list(DESIGN_STRINGS), history, 'wrapper-disk')
    results = []

    def check(name, tr, want_strict_reject, want_clause=None):
        mv, _ = monitor_batch([slim(tr)])
        sv, _ = tlc.validate_batch('URLTableTrace', trace_cfg(fix), [slim(tr)])
        clause = CLAUSES.get(mv[0]['bad'][0][1]) if mv[0]['bad'] else None
        ok = (not sv[0]['accepted']) == want_strict_reject and (want_clause is None or clause == want_clause)
        results.append((name, ok, sv[0], clause))
        print('%-44s strict %s at %d/%d  monitor %s  -> %s' % (name, 'accepts' if sv[0]['accepted'] else 'REJECTS',
                                                               sv[0]['matched'], sv[0]['len'], clause, 'ok' if ok else 'FAILED'))

    def clone():
        return json.loads(json.dumps(base))

    ev = base['ev']
    check('unmodified', clone(), False)
    i_add = next(i for i, e in enumerate(ev) if e['op'] == 'add_many' and e['res']['urls'])
    t = clone(); t['ev'][i_add]['res']['urls'] = t['ev'][i_add]['res']['urls'][:-1]
    check('add_many result: one URL dropped', t, True, 'AddManyReportsExactlyNew')
    i_ci = next(i for i, e in enumerate(ev) if e['op'] == 'check_in' and e['d'] and e['inc'])
    t = clone(); t['ev'][i_ci]['d'][0]['try'] += 1
    check('check_in read-back: try count one too high', t, True, 'TryMonotone')
    i_co = next(i for i, e in enumerate(ev) if e['op'] == 'check_out' and e['res']['k'] == 'ok')
    t = clone(); t['ev'][i_co]['res']['k'] = 'notfound'; t['ev'][i_co]['res']['rows'] = []
    check('check_out result: ok -> notfound', t, True)
    t = clone(); t['ev'][i_co]['ids'] = list(reversed(t['ev'][i_co]['ids'])) if len(t['ev'][i_co]['ids']) > 1 else [[2, 99]]
    check('row ids permuted (internal only)', t, True, None)
    t = clone(); t['ev'][i_co]['qc'] += 1
    check('wrapper counter off by one (internal only)', t, True, None)
    t = clone(); del t['ev'][i_add]
    check('one event removed', t, True)
    bad = [r for r in results if not r[1]]
    print('selftest:', 'ok' if not bad else 'FAILED %r' % (bad,))
    return 0 if not bad else 2
