"""Run one C15 scenario through the real wpull path naming / file writer code and record the chosen path."""
import os
import signal
import shutil
import tempfile

from wpull.url import URLInfo
from wpull.path import PathNamer
from wpull.writer import OverwriteFileWriterSession
from wpull.protocol.http.request import Request as HTTPRequest, Response as HTTPResponse
from wpull.protocol.ftp.request import Request as FTPRequest, Response as FTPResponse

from drivers.urlnorm_exec import Livelock, _alarm, cps, text_of

WATCHDOG_S = 2.0
CD_PREFIX = 'attachment; filename='


def namer_for(root, cfg):
    return PathNamer(root, index='index.html', use_dir=cfg['ud'], cut=cfg['cut'], protocol=cfg['pr'],
                     hostname=cfg['hn'], os_type=cfg['os'], no_control=cfg['nc'], ascii_only=cfg['asc'],
                     case=None if cfg['cs'] == 'none' else cfg['cs'],
                     max_filename_length=cfg['ml'] or None)


_OPT_CACHE = {}


def namer_from_options(root, cfg, variant):
    """The PathNamer as the application builds it from the command line (FileWriterSetupTask._build_file_writer):
    the same configuration expressed as options.  variant chooses between equivalent spellings (default OS mode
    left out / named, order of the modes)."""
    import types
    from wpull.application.options import AppArgumentParser
    from wpull.application.builder import Builder
    from wpull.application.tasks.writer import FileWriterSetupTask
    modes = []
    if cfg['os'] == 'windows' or variant % 2 == 1:
        modes.append(cfg['os'])
    if not cfg['nc']:
        modes.append('nocontrol')
    if cfg['asc']:
        modes.append('ascii')
    if cfg['cs'] != 'none':
        modes.append(cfg['cs'])
    if variant % 4 >= 2:
        modes.reverse()
    argv = ['http://h/', '-P', root, '--default-page', 'index.html', '--cut-dirs', str(cfg['cut'])]
    argv += ['--force-directories'] if cfg['ud'] else ['--no-directories']
    if modes:
        argv.append('--restrict-file-names=' + ','.join(modes))
    if cfg['pr']:
        argv.append('--protocol-directories')
    if not cfg['hn']:
        argv.append('--no-host-directories')
    if cfg['ml']:
        argv += ['--max-filename-length', str(cfg['ml'])]
    args = AppArgumentParser().parse_args(argv)
    session = types.SimpleNamespace(args=args, factory=Builder(args).factory)
    writer = FileWriterSetupTask._build_file_writer(session)
    return writer._path_namer


class RecordingSession(OverwriteFileWriterSession):
    """The real session; open_file additionally notes the path it was asked to create and tolerates the
    operating system refusing it (name too long, NUL): C15 is about the path that was chosen."""
    chosen = None
    os_error = None

    @classmethod
    def open_file(cls, filename, response, mode='wb+'):
        cls.chosen = filename
        try:
            super().open_file(filename, response, mode)
        except (OSError, ValueError) as e:
            cls.os_error = type(e).__name__


def _inside(root, path):
    try:
        rr, rp = os.path.realpath(root), os.path.realpath(path)
    except ValueError:                      # embedded NUL: no file system lookup possible
        rr, rp = os.path.normpath(root), os.path.normpath(path)
    return rp.startswith(rr + os.sep)


def observe(rec, root, path):
    rec['oc'] = 'value'
    rec['pre'] = path.startswith(root + '/')
    rec['parts'] = [cps(p) for p in path[len(root) + 1:].split('/')] if rec['pre'] else []
    rec['inside'] = _inside(root, path)
    rec['path'] = path[len(root):] if rec['pre'] else path


def run_scenario(s, root):
    """s: scenario printed by PathNameGen.  Returns the trace record, or None when the URL does not parse."""
    cfg = s['cfg']
    rec = {'cl': s['cl'], 'cfg': cfg, 'part': s['part'], 'cd': s['cd'], 'hascd': s['hascd'], 'nurl': [],
           'raw': s['url'], 'oc': 'none', 'exc': '', 'pre': False, 'parts': [], 'inside': False,
           'os': cfg['os'], 'nc': cfg['nc'], 'opt': s.get('opt')}
    old = signal.signal(signal.SIGVTALRM, _alarm)
    signal.setitimer(signal.ITIMER_VIRTUAL, WATCHDOG_S)
    try:
        if s.get('opt') is not None:
            namer = namer_from_options(root, cfg, s['opt'])
        else:
            namer = namer_for(root, cfg)
        if s['cl'] == 'P':
            comp = namer.safe_filename(text_of(s['part']))
            # a single component: it is NOT split on the separator
            rec['oc'], rec['pre'], rec['parts'] = 'value', True, [cps(comp)]
            rec['inside'] = _inside(root, root + '/' + comp)
            rec['path'] = '/' + comp
            return rec
        try:
            info = URLInfo.parse(text_of(s['url']))
            rec['nurl'] = cps(info.url)
        except ValueError:
            return None
        if info.scheme not in ('http', 'https', 'ftp'):
            return None
        if s['cl'] == 'U':
            observe(rec, root, namer.get_filename(info))
            return rec
        # writer session with a Content-Disposition header
        RecordingSession.chosen = RecordingSession.os_error = None
        session = RecordingSession(namer, False, False, False, False, True, False)
        response = None
        try:
            if info.scheme == 'ftp':
                request = FTPRequest(text_of(s['url']))
                response = FTPResponse()
            else:
                request = HTTPRequest(text_of(s['url']))
                response = HTTPResponse(200, 'OK')
                response.fields['Content-Disposition'] = CD_PREFIX + text_of(s['cd'])
            response.request = request
            session.process_request(request)
            session.process_response(response)
        finally:
            body = getattr(response, 'body', None)
            if body is not None:
                try:
                    body.close()
                except Exception:   # noqa
                    pass
        if RecordingSession.chosen is None:
            rec['oc'], rec['exc'] = 'other', 'no-path-chosen'
        else:
            observe(rec, root, RecordingSession.chosen)
            rec['os_error'] = RecordingSession.os_error
        return rec
    except Livelock:
        rec['oc'], rec['exc'] = 'hang', 'Livelock'
        return rec
    except ValueError as e:
        rec['oc'], rec['exc'] = 'valueerror', type(e).__name__
        return rec
    except BaseException as e:   # noqa
        rec['oc'], rec['exc'] = 'other', type(e).__name__
        return rec
    finally:
        signal.setitimer(signal.ITIMER_VIRTUAL, 0)
        signal.signal(signal.SIGVTALRM, old)


def run_scenarios(scens):
    base = tempfile.mkdtemp(prefix='c15_')
    out = []
    try:
        hangs = 0
        for i, s in enumerate(scens):
            if hangs >= 12:             # hang budget: the violation is established, do not turn it into a stuck check
                out.append(None)
                continue
            root = os.path.join(base, 'r%d' % i)
            out.append(run_scenario(s, root))
            if out[-1] is not None and out[-1]['oc'] == 'hang':
                hangs += 1
            if s['cl'] == 'H' and i % 200 == 199:
                shutil.rmtree(base, ignore_errors=True)
                os.makedirs(base, exist_ok=True)
    finally:
        shutil.rmtree(base, ignore_errors=True)
    return out
