"""Run one input through the real wpull URL code and record what happened (C10, C11).

The record is the trace line evaluated by specs/UrlNormMon.tla (property clauses) and specs/UrlNormTrace.tla
(agreement with the transcription).  Text travels as lists of code points.
"""
import logging
import signal
import sys

from wpull.url import URLInfo, parse_url_or_log, normalize
import wpull.url
from wpull.scraper.util import urljoin_safe


class Livelock(BaseException):
    """CPU watchdog fired: the call did not return."""


def _alarm(signum, frame):
    raise Livelock()


WATCHDOG_S = 1.0          # CPU seconds per call on one input (normally < 1 ms)
LOW_RECURSION = 220       # first attempt; a RecursionError is confirmed under the interpreter's normal limit
NORMAL_RECURSION = 1000

JOIN_BASES = ['http://h/a/b', 'http://h/a/b?q#f', 'http://[::1]:81/d/', 'ftp://u:p@h/x/', 'mailto:x@y', '',
              'http://[', '//h/p', 'a.x/p']

# documented attributes / accessors of URLInfo, primitives first
ATTRS = ['url', 'raw', 'scheme', 'authority', 'path', 'query', 'fragment', 'userinfo', 'username', 'password',
         'host', 'hostname', 'port', 'resource', 'encoding', 'query_map', 'hostname_with_port']
METHODS = ['is_port_default', 'is_ipv6', 'split_path']
COMPOSITE = ['to_dict', '__repr__', '__hash__', '__eq__']


class _Sink(logging.Handler):
    """Formats every record (as a real handler would) and throws the text away."""
    def __init__(self):
        super().__init__()
        self.format_errors = 0
        self.records = 0

    def emit(self, record):
        self.records += 1
        try:
            self.format(record).encode('utf-8', 'backslashreplace')
        except Exception:   # noqa
            self.format_errors += 1


SINK = _Sink()
for _name in ('wpull', 'wpull.url', 'wpull.scraper.util'):
    _lg = logging.getLogger(_name)
    _lg.handlers[:] = [SINK]
    _lg.propagate = False
    _lg.setLevel(logging.WARNING)


def cps(s):
    return [ord(c) for c in s]


def text_of(cp_list):
    return ''.join(chr(c) for c in cp_list)


def _classify_exc(e):
    if isinstance(e, Livelock):
        return 'hang'
    if isinstance(e, ValueError):
        return 'valueerror'
    return 'other'


_confirmations = {'n': 0}


def guarded(fn):
    """Call fn() -> (outcome, value, exception type name).  A RecursionError under the lowered limit is confirmed
    under the interpreter's normal limit (the first 200 of a process and every 16th after that: a confirmation
    costs a 1000-deep recursion)."""
    try:
        return 'value', fn(), ''
    except RecursionError:
        _confirmations['n'] += 1
        if _confirmations['n'] > 200 and _confirmations['n'] % 16:
            return 'other', None, 'RecursionError'
    except Livelock as e:
        signal.setitimer(signal.ITIMER_VIRTUAL, WATCHDOG_S)      # re-arm for the next call on this input
        return 'hang', None, 'Livelock'
    except BaseException as e:   # noqa
        return _classify_exc(e), None, type(e).__name__
    old = sys.getrecursionlimit()
    sys.setrecursionlimit(NORMAL_RECURSION + 100)
    try:
        return 'value', fn(), ''
    except Livelock:
        signal.setitimer(signal.ITIMER_VIRTUAL, WATCHDOG_S)
        return 'hang', None, 'Livelock'
    except BaseException as e:   # noqa
        return _classify_exc(e), None, type(e).__name__
    finally:
        sys.setrecursionlimit(old)


def read_accessors(info):
    """Read every documented attribute and accessor.  Returns (acc, failures[(name, exc type, class)])."""
    fails = []
    for name in ATTRS:
        oc, _, exc = guarded(lambda: getattr(info, name))
        if oc != 'value':
            fails.append((name, exc, oc))
    for name in METHODS:
        oc, _, exc = guarded(lambda: getattr(info, name)())
        if oc != 'value':
            fails.append((name, exc, oc))
    if not fails:   # composites are only blamed when every primitive can be read
        for name, fn in (('to_dict', lambda: info.to_dict()), ('__repr__', lambda: repr(info)),
                         ('__hash__', lambda: hash(info)), ('__eq__', lambda: info == info and not (info != info))):
            oc, _, exc = guarded(fn)
            if oc != 'value':
                fails.append((name, exc, oc))
    return fails


def components(info, rec=None):
    """Component readings; a component that cannot be read is recorded as an accessor failure (not a harness crash)."""
    oc, val, exc = guarded(lambda: _components(info))
    if oc == 'value':
        return val
    if rec is not None:
        rec['acc'] = 'hang' if oc == 'hang' else 'raise'
        rec['accfail'] = rec.get('accfail', []) + [['components', exc]]
    return {'sch': [], 'hn': [], 'port': 0, 'path': [], 'query': [], 'frag': [], 'user': [], 'pass': []}


def _components(info):
    return {'sch': cps(info.scheme or ''), 'hn': cps(info.hostname or ''), 'port': int(info.port or 0),
            'path': cps(info.path or ''), 'query': cps(info.query or ''), 'frag': cps(info.fragment or ''),
            'user': cps(info.username or ''), 'pass': cps(info.password or '')}


def run_case(text, enc='utf-8', vk='base', joins=True, full=True):
    """Everything C10/C11 observe about one input (full=False: only what C10 looks at)."""
    rec = {'ref': False, 'in': cps(text), 'enc': enc, 'vk': vk,
           'oc': 'none', 'exc': '', 'uoc': 'none', 'net': False, 'url': [],
           'oc2': 'none', 'url2': [], 'oc3': 'none', 'url3': [], 'acc': 'none', 'accfail': [], 'log': 'none', 'join': 'none', 'joinfail': []}
    old_handler = signal.signal(signal.SIGVTALRM, _alarm)
    old_limit = sys.getrecursionlimit()
    signal.setitimer(signal.ITIMER_VIRTUAL, WATCHDOG_S)
    sys.setrecursionlimit(LOW_RECURSION)
    try:
        _run_case(rec, text, enc, joins, full)
    except Livelock:
        # the watchdog fired between guarded calls: attribute it to whatever was not finished
        for k in ('oc', 'uoc', 'acc', 'log', 'join'):
            if rec[k] == 'none':
                rec[k] = 'hang'
                break
    finally:
        signal.setitimer(signal.ITIMER_VIRTUAL, 0)
        signal.signal(signal.SIGVTALRM, old_handler)
        sys.setrecursionlimit(old_limit)
    return rec


def _run_case(rec, text, enc, joins, full):
    oc, info, exc = guarded(lambda: URLInfo.parse(text, encoding=enc))
    rec['oc'], rec['exc'] = oc, exc
    if oc == 'hang':
        return          # (parse_url_or_log would hang in the same place)
    if oc == 'value':
        uoc, url, uexc = guarded(lambda: info.url)
        rec['uoc'] = uoc
        if uoc != 'value':
            rec['exc'] = uexc
        if full:
            fails = read_accessors(info)
            rec['acc'] = 'ok' if not fails else ('hang' if any(f[2] == 'hang' for f in fails) else 'raise')
            rec['accfail'] = [[f[0], f[1]] for f in fails]
        if uoc == 'value':
            rec['net'] = info.scheme in wpull.url.RELATIVE_SCHEME_DEFAULT_PORTS
            rec['url'] = cps(url)
            if rec['net']:
                rec.update(components(info, rec))
                oc2, info2, _ = guarded(lambda: URLInfo.parse(url, encoding=enc))
                if oc2 == 'value':
                    oc2, url2, _ = guarded(lambda: info2.url)
                rec['oc2'] = oc2
                if oc2 == 'value':
                    rec['url2'] = cps(url2)
                    c2 = components(info2, rec)
                    for k in ('sch', 'hn', 'port', 'path', 'query'):
                        rec[k + '2'] = c2[k]
                # the normalised URL is ASCII: normalising it again WITHOUT knowing the document encoding (what the
                # crawler does with the URLs it stored) must change nothing either
                oc3, info3, _ = guarded(lambda: URLInfo.parse(url))
                if oc3 == 'value':
                    oc3, url3, _ = guarded(lambda: info3.url)
                rec['oc3'] = oc3
                if oc3 == 'value':
                    rec['url3'] = cps(url3)
    if not full:
        return
    # the logging variant used on scraped links never raises
    loc, linfo, lexc = guarded(lambda: parse_url_or_log(text, encoding=enc))
    rec['log'] = 'ok' if loc == 'value' else ('hang' if loc == 'hang' else 'raise')
    if loc != 'value':
        rec['logexc'] = lexc
    elif (linfo is None) != (oc == 'valueerror') and oc in ('value', 'valueerror'):
        rec['log'] = 'raise'
        rec['logexc'] = 'inconsistent-result'
    # joining a scraped link onto a base URL fails only with a value error
    if joins:
        worst = 'ok'
        for base in JOIN_BASES:
            for fn_name, fn in (('urljoin_safe', lambda: urljoin_safe(base, text, allow_fragments=False)),
                                ('urljoin', lambda: wpull.url.urljoin(base, text))):
                joc, _, jexc = guarded(fn)
                if joc == 'valueerror' and fn_name == 'urljoin_safe' and worst == 'ok':
                    worst = 'valueerror'
                if joc in ('other', 'hang'):
                    worst = joc if worst != 'hang' else worst
                    rec['joinfail'].append([fn_name, base, jexc])
        # ... also where the join really happens: the HTML scraper, with the text as a link, as the document base
        # and as the base of one element (codebase), next to ordinary and scheme-relative links
        if worst in ('ok', 'valueerror'):
            soc, sexc = scrape_join(text)
            if soc in ('other', 'hang'):
                worst = soc
                rec['joinfail'].append(['HTMLScraper.scrape', 'document', sexc])
        rec['join'] = worst


_SCRAPER = []
DOCS = ('<html><head><base href="%s"></head><body><a href="x">1</a><a href="//h2.test/y">2</a><img src="?q"></body></html>',
        '<html><body><a href="%s">1</a><img src="%s"><link rel="stylesheet" href="%s"><form action="%s"></form></body></html>',
        '<html><body><object codebase="%s" data="x" archive="//h2.test/y z"></object>'
        '<applet codebase="%s" code="//h2.test/c" archive="a.jar"></applet></body></html>',
        '<html><head><meta http-equiv="refresh" content="0; url=%s"></head><body style="background: url(%s)"></body></html>')


def scrape_join(text):
    """The text placed in every URL-bearing role of small HTML documents, scraped by the real HTMLScraper.
    Returns (outcome class, exception name); texts that cannot be written into a UTF-8 document are skipped."""
    import html
    import io
    try:
        text.encode('utf-8')
    except UnicodeError:
        return 'value', ''
    if not _SCRAPER:
        from wpull.document.htmlparse.html5lib_ import HTMLParser
        from wpull.scraper.html import HTMLScraper, ElementWalker
        from wpull.scraper.css import CSSScraper
        from wpull.scraper.javascript import JavaScriptScraper
        _SCRAPER.append(HTMLScraper(HTMLParser(), ElementWalker(css_scraper=CSSScraper(), javascript_scraper=JavaScriptScraper())))
    from wpull.protocol.http.request import Request, Response
    from wpull.body import Body
    esc = html.escape(text, quote=True)
    for d in DOCS:
        body = (d.replace('%s', esc)).encode('utf-8')

        def go():
            req = Request('http://h.test/dir/doc.html')
            resp = Response(200, 'OK')
            resp.fields['Content-Type'] = 'text/html; charset=utf-8'
            resp.body = Body(io.BytesIO(body))
            resp.request = req
            return _SCRAPER[0].scrape(req, resp)
        oc, _, exc = guarded(go)
        if oc in ('other', 'hang'):
            return oc, exc
    return 'value', ''


def ref_of(rec):
    return {'ref': True, 'oc': rec['oc'], 'uoc': rec['uoc'], 'net': rec['net'], 'url': rec['url']}


def run_family(fam, joins=True, full=True):
    """fam: dict(cl, tags, enc, m=[[kind, cps], ...]) as printed by UrlNormGen.  Returns the member records."""
    out = []
    for kind, cp in fam['m']:
        out.append(run_case(text_of(cp), fam['enc'], kind, joins, full))
    return out


HANG_BUDGET = 12     # a code under test that hangs on (nearly) every input must not turn into a stuck check


def run_families(fams, joins=True, full=True):
    """Member records per family; None for the families that were not executed because HANG_BUDGET inputs had
    already run into the watchdog in this process (the violation is established by then)."""
    out, hangs = [], 0
    for f in fams:
        if hangs >= HANG_BUDGET:
            out.append(None)
            continue
        recs = run_family(f, joins, full)
        hangs += sum(1 for r in recs if 'hang' in (r['oc'], r['uoc'], r['acc'], r['log'], r['join'], r['oc2']))
        out.append(recs)
    return out
