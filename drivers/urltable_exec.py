"""Execute an operation history on the REAL wpull URL table and record the event trace.

A history is a list of token-level calls (JSON-able dicts, the vocabulary of specs/URLTableProps.tla):
strings are small integers (0 = None, 1 = '', >= 2 index into `strings`), nullable ints use -1,
update_one keywords that are not passed are -2 / "absent".

  {'op': 'add_many', 'batch': [{'u','hp','par','root','st','try','lv','il','lt','pr','post'}, ...]}
  {'op': 'check_out', 'st', 'lv'}            {'op': 'check_in', 'u','st','inc','hr','fn','code'}
  {'op': 'update_one', 'u', 'kv': {...}}     {'op': 'release'}   {'op': 'remove_many', 'urls': [...]}
  {'op': 'add_visits', 'vs': [[u,w,d],..]}   {'op': 'get_revisit_id', 'u', 'dg'}
  {'op': 'count'|'get_all'|'get_hostnames'|'root_todo'}   {'op': 'get_one'|'contains', 'u'}
  {'op': 'convert_check_out'}                {'op': 'convert_check_in', 'fid', 'st'}
  {'op': 'reopen'}                           (close + new SQLiteURLTable on the same file; on-disk modes only)

Each recorded event = the call + 'res' {k, rows, n, urls} (+ 'x' exception class) + what was read back from
the database after the call: 'd' rows added/changed, 'del' URLs gone, 'dup' duplicate-URL rows, 'ids' [[url, id]..]
in id order, 'hn' host names in id order, 'fl' queued_files [[id, queued_url_id, status]..], 'qc' wrapper counter.
"""
import os
import signal
import shutil
import tempfile

from sqlalchemy import text

from wpull.database.base import NotFound, AddURLInfo
from wpull.database.sqltable import SQLiteURLTable
from wpull.database.wrap import URLTableHookWrapper
from wpull.pipeline.item import Status, LinkType, URLProperties, URLData, URLResult
from wpull.url import URLInfo

NOQC = -1000000
MODES = ('memory', 'disk', 'wrapper', 'wrapper-disk')
INT_LIMIT = 2 ** 31 - 1

_SQL_ROWS = text(
    'select q.id, s.url, p.url, r.url, q.status, q.try_count, q.level, q.inline_level, q.link_type, q.priority, '
    'q.post_data, q.status_code, q.filename from queued_urls q '
    'left join url_strings s on s.id = q.url_string_id '
    'left join url_strings p on p.id = q.parent_url_string_id '
    'left join url_strings r on r.id = q.root_url_string_id order by q.id')
_SQL_HOSTS = text('select hostname from hostnames order by id')
_SQL_FILES = text('select id, queued_url_id, status from queued_files order by id')


class Hang(BaseException):
    """A table call did not return within the watchdog time (recorded as an observation, never a stuck check)."""


def _alarm(signum, frame):
    raise Hang()


WATCHDOG_S = 30


class BadResult(Exception):
    """The table returned something that is not of the documented shape."""


class Strings(object):
    """token <-> string dictionary of one history (0 = None, 1 = '')."""

    def __init__(self, strings=None):
        self.strings = list(strings) if strings else [None, '']
        assert self.strings[0] is None and self.strings[1] == ''
        self.index = {s: i for i, s in enumerate(self.strings)}

    def tok(self, s):
        if s is None:
            return 0
        if not isinstance(s, str):
            raise BadResult('not a string: %r' % (s,))
        t = self.index.get(s)
        if t is None:
            t = len(self.strings)
            self.strings.append(s)
            self.index[s] = t
        return t

    def s(self, t):
        return self.strings[t]

    def hosts(self):
        """host[t-1] for every token t >= 1: -1 not parseable, 0 no host name, else the host name's token."""
        out = []
        i = 1
        while i < len(self.strings):
            try:
                h = URLInfo.parse(self.strings[i]).hostname
                out.append(self.tok(h) if h is not None else 0)
            except ValueError:
                out.append(-1)
            i += 1
        return out


def _int(v, none=-1):
    if v is None:
        return none
    if isinstance(v, bool) or not isinstance(v, int):
        raise BadResult('not an int: %r' % (v,))
    return max(-INT_LIMIT, min(INT_LIMIT, v))


_RESET = [text('delete from ' + t) for t in ('queued_files', 'queued_urls', 'url_strings', 'hostnames', 'warc_visits')]
_SHARED = {}


def _shared_memory_table():
    """One in-memory table per process, emptied between histories (row ids restart at 1: the schema has no
    AUTOINCREMENT).  Saves the DDL and statement compilation of a fresh engine; used for the short model-generated
    histories only.  Falls back to a fresh table if the emptied table is not observably empty."""
    t = _SHARED.get('t')
    if t is not None:
        try:
            with t._session() as session:
                for q in _RESET:
                    session.execute(q)
            with t._session() as session:
                left = sum(len(list(session.execute(q))) for q in (_SQL_ROWS, _SQL_HOSTS, _SQL_FILES))
                left += len(list(session.execute(text('select id from url_strings union all select 1 from warc_visits'))))
            if left == 0:
                return t
        except Exception:
            pass
        try:
            t.close()
        except Exception:
            pass
    t = _SHARED['t'] = SQLiteURLTable(':memory:')
    return t


class Runner(object):
    def __init__(self, strings, mode='memory', reuse=False):
        assert mode in MODES
        self.reuse = reuse and mode in ('memory', 'wrapper')
        self.S = strings if isinstance(strings, Strings) else Strings(strings)
        self.mode = mode
        self.dir = None
        self.path = ':memory:'
        if mode in ('disk', 'wrapper-disk'):
            # a memory-backed file system when there is one: same SQLite code path (file, WAL, locks), cheap fsync
            base = '/dev/shm' if os.path.isdir('/dev/shm') and os.access('/dev/shm', os.W_OK) else None
            self.dir = tempfile.mkdtemp(prefix='c14_', dir=base)
            self.path = os.path.join(self.dir, 'table.db')
        self.events = []
        self.prev = {}
        self._open()

    # ------------------------------------------------------------------ table life cycle
    def _open(self):
        self.raw = _shared_memory_table() if self.reuse else SQLiteURLTable(self.path)
        self.table = URLTableHookWrapper(self.raw) if self.mode.startswith('wrapper') else self.raw

    def close(self):
        try:
            if not self.reuse:
                self.table.close()
        finally:
            if self.dir:
                shutil.rmtree(self.dir, ignore_errors=True)
                self.dir = None

    @property
    def can_reopen(self):
        return self.dir is not None

    # ------------------------------------------------------------------ token <-> python values
    def _row_from_record(self, r):
        t = self.S.tok
        st = r.status
        lt = r.link_type
        return {'u': t(r.url), 'st': st.value if isinstance(st, Status) else str(st), 'try': _int(r.try_count),
                'lv': _int(r.level), 'il': _int(r.inline_level), 'par': t(r.parent_url), 'root': t(r.root_url),
                'lt': 'none' if lt is None else (lt.value if isinstance(lt, LinkType) else str(lt)),
                'pr': _int(r.priority), 'post': t(r.post_data), 'code': _int(r.status_code), 'fn': t(r.filename)}

    def _row_from_sql(self, x):
        t = self.S.tok
        return {'u': t(x[1]), 'st': str(x[4]), 'try': _int(x[5]), 'lv': _int(x[6]), 'il': _int(x[7]), 'par': t(x[2]),
                'root': t(x[3]), 'lt': 'none' if x[8] is None else str(x[8]), 'pr': _int(x[9]), 'post': t(x[10]),
                'code': _int(x[11]), 'fn': t(x[12])}

    def _add_info(self, e):
        s = self.S.s
        props = None
        data = None
        if e['hp']:
            props = URLProperties()
            props.parent_url = s(e['par'])
            props.root_url = s(e['root'])
            props.status = None if e['st'] == 'none' else Status(e['st'])
            props.try_count = None if e['try'] == -1 else e['try']
            props.level = None if e['lv'] == -1 else e['lv']
            props.inline_level = None if e['il'] == -1 else e['il']
            props.link_type = None if e['lt'] == 'none' else LinkType(e['lt'])
            props.priority = None if e['pr'] == -1 else e['pr']
            data = URLData()
        if e['post'] != 0:
            data = URLData()
            data.post_data = s(e['post'])
        return AddURLInfo(s(e['u']), props, data)

    def _kwargs(self, kv):
        s = self.S.s
        out = {}
        if kv['st'] != 'absent':
            out['status'] = kv['st']
        for key, name in (('try', 'try_count'), ('lv', 'level'), ('pr', 'priority')):
            if kv[key] != -2:
                out[name] = kv[key]
        for key, name in (('il', 'inline_level'), ('code', 'status_code')):
            if kv[key] != -2:
                out[name] = None if kv[key] == -1 else kv[key]
        if kv['lt'] != 'absent':
            out['link_type'] = None if kv['lt'] == 'none' else kv['lt']
        for key, name in (('post', 'post_data'), ('fn', 'filename')):
            if kv[key] != -2:
                out[name] = s(kv[key])
        return out

    # ------------------------------------------------------------------ one call
    def _call(self, o):
        """Returns (rows, n, urls)."""
        T = self.table
        s = self.S.s
        op = o['op']
        if op == 'add_many':
            r = T.add_many([self._add_info(e) for e in o['batch']])
            return [], 0, [self.S.tok(u) for u in r]
        if op == 'check_out':
            if o['lv'] == -1:
                r = T.check_out(Status(o['st']))
            else:
                r = T.check_out(Status(o['st']), o['lv'])
            return [self._row_from_record(r)], 0, []
        if op == 'check_in':
            res = None
            if o['hr']:
                res = URLResult()
                res.filename = s(o['fn'])
                res.status_code = None if o['code'] == -1 else o['code']
            if o['inc'] and not o['hr'] and o.get('dflt'):
                r = T.check_in(s(o['u']), Status(o['st']))        # both optional arguments left to their defaults
            else:
                r = T.check_in(s(o['u']), Status(o['st']), increment_try_count=o['inc'], url_result=res)
            return [], 0, []
        if op == 'update_one':
            T.update_one(s(o['u']), **self._kwargs(o['kv']))
            return [], 0, []
        if op == 'release':
            T.release()
            return [], 0, []
        if op == 'remove_many':
            T.remove_many([s(u) for u in o['urls']])
            return [], 0, []
        if op == 'add_visits':
            T.add_visits([(s(v[0]), s(v[1]), s(v[2])) for v in o['vs']])
            return [], 0, []
        if op == 'get_revisit_id':
            return [], self.S.tok(T.get_revisit_id(s(o['u']), s(o['dg']))), []
        if op == 'count':
            return [], _int(T.count(), None), []
        if op == 'root_todo':
            return [], _int(T.get_root_url_todo_count(), None), []
        if op == 'get_one':
            return [self._row_from_record(T.get_one(s(o['u'])))], 0, []
        if op == 'contains':
            r = T.contains(s(o['u']))
            if not isinstance(r, bool):
                raise BadResult('contains returned %r' % (r,))
            return [], 1 if r else 0, []
        if op == 'get_all':
            return [self._row_from_record(r) for r in T.get_all()], 0, []
        if op == 'get_hostnames':
            return [], 0, [self.S.tok(h) for h in T.get_hostnames()]
        if op == 'convert_check_out':
            fid, rec = T.convert_check_out()
            return [self._row_from_record(rec)], _int(fid, None), []
        if op == 'convert_check_in':
            T.convert_check_in(o['fid'], Status(o['st']))
            return [], 0, []
        if op == 'reopen':
            self.table.close()
            self._open()
            return [], 0, []
        raise AssertionError(op)

    def _read_back(self):
        with self.raw._session() as session:
            rows = list(session.execute(_SQL_ROWS))
            hn = [x[0] for x in session.execute(_SQL_HOSTS)]
            fl = [[_int(x[0]), _int(x[1]), str(x[2])] for x in session.execute(_SQL_FILES)]
        cur = {}
        ids = []
        dup = 0
        for x in rows:
            row = self._row_from_sql(x)
            if row['u'] in cur:
                dup += 1
            cur[row['u']] = row
            ids.append([row['u'], _int(x[0])])
        return cur, ids, dup, [self.S.tok(h) for h in hn], fl

    def step(self, o):
        o = dict(o)
        if o['op'] == 'reopen' and not self.can_reopen:
            return None
        ev = dict(o)
        x = None
        old = signal.signal(signal.SIGALRM, _alarm)
        signal.setitimer(signal.ITIMER_REAL, WATCHDOG_S)
        try:
            try:
                rows, n, urls = self._call(o)
                k = 'ok'
            finally:
                signal.setitimer(signal.ITIMER_REAL, 0)
                signal.signal(signal.SIGALRM, old)
        except Hang:
            k, rows, n, urls, x = 'crash', [], 0, [], 'Hang'
        except NotFound:
            k, rows, n, urls = 'notfound', [], 0, []
        except BadResult as e:
            k, rows, n, urls, x = 'crash', [], 0, [], 'BadResult'
        except ValueError as e:
            k, rows, n, urls, x = 'valueerror', [], 0, [], type(e).__name__
        except Exception as e:
            k, rows, n, urls, x = 'crash', [], 0, [], type(e).__name__
        ev['res'] = {'k': k, 'rows': rows, 'n': n, 'urls': urls}
        ev['x'] = x or ''
        cur, ids, dup, hn, fl = self._read_back()
        ev['d'] = [cur[u] for u in cur if self.prev.get(u) != cur[u]]
        ev['del'] = [u for u in self.prev if u not in cur]
        ev['dup'] = dup
        ev['ids'] = ids
        ev['hn'] = hn
        ev['fl'] = fl
        ev['qc'] = self.table.queue_count() if self.mode.startswith('wrapper') else NOQC
        self.prev = cur
        self.events.append(ev)
        return ev

    def run(self, history):
        try:
            for o in history:
                self.step(o)
        finally:
            self.close()
        return self.events


def execute(strings, history, mode, reuse=False):
    """-> trace dict for tlc.validate_batch: {'ev': [...], 'host': [...], plus bookkeeping}."""
    S = Strings(strings)
    r = Runner(S, mode, reuse)
    ev = r.run(history)
    return {'ev': ev, 'host': S.hosts(), 'mode': mode, 'strings': S.strings}


def execute_job(job):
    """Picklable entry point for process pools: job = (strings, history, mode)."""
    from harness import wpull_compat  # noqa: F401
    return execute(*job)
