"""C17 - each FTP command is one line, replies are read whole, a transfer completes only after close + confirmation.

1. design check: TLC, FtpControl.tla, exhaustive for the tier's constants
     A  hostile arguments (every alphabet string in user / password / path position) on the repaired model
     A0 the same on the model of the code as found: TLC must find the OneLine counterexample (finding 18)
     B  every reply shape x every cut of the control stream x every data-connection timing x dropped connections
     C  two sessions on one client (login cache, connection reuse)
2. scenarios on the REAL wpull.protocol.ftp.client.Client / Session over harness.fakenet under harness.vloop:
     (a) every server strategy TLC enumerates from FtpControlGen.tla (small constants, exhaustive)
     (b) behaviours TLC simulates from FtpControlGen.tla (all shapes, all cuts, two sessions)
     (c) every alphabet string percent-encoded in user / password / path position of the URL, and
         Command.to_bytes directly
     (d) one reply in every shape at every step, cut at every byte position / byte by byte / every composition
3. every recorded conversation is validated by TLC twice: FtpControlMon (property clauses on the observed bytes,
   Reply objects and completion notifications: decides VIOLATION) and FtpControlTrace (is it a behaviour of
   FtpControl.tla: decides DRIFT).
"""
import json
import os
import random
import re
import sys
import time
from concurrent.futures import ThreadPoolExecutor

from harness import tlc
from drivers import ftpcontrol_gen as G
from drivers.ftpcontrol_exec import run_scenario, command_bytes, rejects_control_chars

CLAUSES = {1: 'OneLine', 2: 'AutomatonPath', 3: 'ReplyAssembly', 4: 'CutIndependent', 5: 'CompleteAfterEOF',
           6: 'CompleteAfterFinal', 7: 'CompleteBody'}
INVS = ['TypeOK', 'OkMeansDone', 'OneLine', 'AutomatonPath', 'ReplyAssembly', 'CompleteAfterEOF', 'CompleteAfterFinal',
        'CompleteBody']
ACTIONS = ['Connect', 'ReadLine', 'ReadEOF', 'DataConnect', 'ReadData', 'ReadDataEOF', 'DeliverAny', 'ServerReply',
           'ServerFinal', 'ServerDrop', 'DataSendAny', 'DataClose', 'NextSessionAny']
NOREF = {'has': False, 'replies': [], 'cmds': [], 'v': ''}
_RE_COV = re.compile(r'^<(\w+) line \d+, col \d+ to line \d+, col \d+ of module FtpControl(?: \([\d ]+\))?>: (\d+):(\d+)', re.M)


_T0 = time.time()


def _dbg(*a):
    if os.environ.get('C17_DEBUG'):
        print('[%.1fs]' % (time.time() - _T0), *a, file=sys.stderr)


def design_cfg(consts):
    return 'SPECIFICATION Spec\n' + G.constants(*consts) + ''.join('INVARIANT %s\n' % i for i in INVS) + 'CHECK_DEADLOCK FALSE\n'


def run_design(consts, workers, timeout, coverage=True):
    res = tlc.run_tlc('FtpControl', design_cfg(consts), workers=workers, timeout=timeout, coverage=coverage, heap='4g')
    cov = {}
    for m in _RE_COV.finditer(res['out']):
        cov[m.group(1)] = cov.get(m.group(1), 0) + int(m.group(3))
    for outer, inner in (('DataSendAny', 'DataSend'), ('DeliverAny', 'Deliver'), ('NextSessionAny', 'NextSession')):
        cov[outer] = cov.get(outer, 0) + cov.pop(inner, 0)
    res['coverage'] = cov
    return res


def const_dict(c):
    return dict(zip('RejectCtl ArgLen Shapes MaxOdd CutMode MaxSess MaxData Drops Modes'.split(), c))


# ---------------------------------------------------------------------- traces
def summary(ev):
    return {'has': True,
            'replies': [[e['code'], e['text']] for e in ev if e['e'] == 'reply'],
            'cmds': [e['b'] for e in ev if e['e'] == 'cmd'],
            'v': [e['v'] for e in ev if e['e'] == 'end'][-1]}


def direct_trace(arg):
    """Command(name, arg).to_bytes() for a command sequence that is a path of the automaton."""
    ev = [{'e': 'session', 'mode': 'listing', 'restart': False, 'user': [], 'pass': [], 'path': []}, {'e': 'conn'}]
    for name in ('USER', 'PASS', 'SIZE', 'REST', 'TYPE', 'PASV', 'MLSD', 'LIST'):
        b = command_bytes(name, arg)
        if b is not None:
            ev.append({'e': 'cmd', 'b': b})
    return ev


def classify_oneline(ev):
    """Input class of a OneLine violation (for the signature)."""
    for e in ev:
        if e['e'] == 'cmd':
            b = bytes(e['b'])
            if not (b.endswith(b'\r\n') and b.count(b'\r') == 1 and b.count(b'\n') == 1):
                body = b[:-2] if b.endswith(b'\r\n') else b
                if b.endswith(b'\r\n') and (b'\r' in body or b'\n' in body):
                    return 'CR or LF of the decoded argument written into the command line'
                return 'command not terminated by exactly one CRLF'
    return 'unknown'


def run(chk):
    quick = chk.tier == 'quick'
    rng = random.Random(chk.seed)
    reject = rejects_control_chars()
    chk.extra['code_rejects_control_chars_in_arguments'] = reject
    ALLM = ['file', 'rest', 'listing']

    # ---------------- 1. design checks (run in the background while the scenarios execute)
    # (name, constants, collect action coverage?)   coverage costs ~1.6x, so only the run that reaches every action has it
    if quick:
        designs = [('A', (True, 1, ['single'], 0, 'whole', 1, 1, False, ALLM), False),
                   ('B', (True, 0, ['single', 'multi_dig', 'lf', 'cr_code', 'other'], 1, 'edge', 1, 1, False, ['rest']), False),
                   ('C', (True, 0, ['single'], 0, 'whole', 2, 1, True, ['file']), True)]
    else:
        designs = [('A', (True, 2, ['single'], 0, 'whole', 1, 1, False, ALLM), False),
                   ('B', (True, 0, G.ALL_SHAPES, 1, 'all', 1, 1, True, ALLM), False),
                   ('B2', (True, 0, ['single', 'other'], 2, 'edge', 1, 2, True, ['rest', 'listing']), False),
                   ('C', (True, 0, ['single', 'multi'], 1, 'whole', 2, 1, True, ['file', 'listing']), True)]
    if os.environ.get('C17_NO_DESIGN'):      # development aid for mutant runs: the design checks do not depend on the code
        designs = []
    pool = ThreadPoolExecutor(max_workers=6)
    dfut = [(name, c, cov, pool.submit(run_design, c, 3 if quick else 4, 300 if quick else 850, cov))
            for name, c, cov in designs]
    a0 = (False, 1, ['single'], 0, 'whole', 1, 1, False, ALLM)
    a0fut = pool.submit(run_design, a0, 1, 300, False)

    # ---------------- 2. scenarios
    if quick:
        gen_ex = pool.submit(G.tlc_scenarios, reject, 0, ['single'], 0, 'whole', 1, 1, False, ['listing'], None, 0, 600, 2)
    else:
        gen_ex = pool.submit(G.tlc_scenarios, reject, 0, ['single'], 0, 'whole', 1, 1, True, ALLM, None, 0, 600, 2)
    nsim, per = (1, 250) if quick else (3, 1200)
    gen_sims = [pool.submit(G.tlc_scenarios, reject, 1, G.ALL_SHAPES, 3, 'all', 2, 2, True, ALLM, per,
                            chk.seed * 100 + 1 + j, 800) for j in range(nsim)]
    scen = []    # (origin, scenario)
    for sc in G.url_scenarios(2 if quick else 3):
        scen.append(('url', sc))
    if quick:
        steps_of = lambda n: sorted({0, n - 1})     # greeting, closing reply
        cut_shapes = G.ALL_SHAPES
    else:
        steps_of = lambda n: range(n)
        cut_shapes = G.ALL_SHAPES
    for sc in G.cut_scenarios(cut_shapes, steps_of, all_compositions_upto=0 if quick else 8):
        scen.append(('cut', sc))
    # bytes that Python's text methods take for line ends or digits: greeting, one middle step, closing reply
    for sc in G.cut_scenarios(G.EXTRA_SHAPES, lambda n: sorted({0, n // 2, n - 1}), all_compositions_upto=0):
        if len(sc['cuts']) and (len(set(sc['cuts'][-2:])) > 1 or quick):
            scen.append(('cut-odd', sc))
    for sc in G.stall_scenarios():
        scen.append(('stall', sc))
    for sc in G.torn_scenarios():
        scen.append(('torn', sc))
    for sc in G.long_line_scenarios():
        scen.append(('cut-long', sc))
    _dbg('enumerated', len(scen))
    ex, exres = gen_ex.result()
    _dbg('gen_ex', len(ex), exres['wall_s'])
    tlc.require_ok(exres, 'FtpControlGen exhaustive')
    chk.extra['tlc_enumerated_strategies'] = len(ex)
    if quick:
        ex = rng.sample(ex, min(len(ex), 300))
    scen += [('tlc-exhaustive', sc) for sc in ex]
    sim = []
    for f in gen_sims:
        part, simres = f.result()
        _dbg('gen_sim', len(part), simres['wall_s'])
        if not part:
            raise tlc.TLCError('FtpControlGen -simulate produced no script\n' + simres['out'][-3000:])
        sim += part
    chk.extra['tlc_simulated_behaviours'] = len(sim)
    scen += [('tlc-simulate', sc) for sc in sim]

    # execute; runs that differ only in the cuts share the reference run (whole pieces)
    refs = {}
    items = []     # (origin, scenario, trace)
    seen = set()
    for origin, sc in scen:
        chk.case(key=None)
        key = json.dumps(sc, sort_keys=True)
        if key in seen:
            continue
        seen.add(key)
        ev = run_scenario(sc)
        ref = NOREF
        if sc.get('cuts'):
            base = G.strip_cuts(sc)
            bkey = json.dumps(base, sort_keys=True)
            if bkey not in refs:
                refs[bkey] = summary(run_scenario(base))
            ref = refs[bkey]
        items.append((origin, sc, {'ev': ev, 'ref': ref}))
    # timing pairs: judged by the CutIndependent clause against the run in which the closing reply comes last
    for late, early in G.timing_pairs():
        chk.case(key=None)
        ref = summary(run_scenario(late))
        items.append(('timing', early, {'ev': run_scenario(early), 'ref': ref}))
    # Command.to_bytes directly
    alpha = [G.ALPHABET[k] for k in ('P', 'CR', 'LF', 'NUL', 'SP', 'PCT')]
    for arg in G.strings(alpha, 2 if quick else 4):
        chk.case(key=None)
        items.append(('direct', {'arg': arg}, {'ev': direct_trace(arg), 'ref': NOREF}))

    _dbg('executed', len(items), 'refs', len(refs))
    # ---------------- 3. TLC validation
    mon_cfg = 'SPECIFICATION MSpec\nCONSTRAINT Record\nPOSTCONDITION Post\nCHECK_DEADLOCK FALSE\n'
    str_cfg = ('SPECIFICATION TSpec\n' + G.constants(reject, 0, ['single'], 0, 'all', 99, 999, True, ['file'])
               + 'CONSTRAINT Record\nPOSTCONDITION Post\nCHECK_DEADLOCK FALSE\n')
    traces = [t for (_, _, t) in items]
    # the model has no line limit: over-long-line scenarios are monitored only
    strict_idx = [i for i, (o, _, _) in enumerate(items) if o not in ('direct', 'cut-long', 'stall', 'timing')]   # (no timers in the model)
    nchunks = 4 if quick else 6
    size = max(1, (len(traces) + nchunks - 1) // nchunks)

    def mon(part):
        return tlc.validate_batch('FtpControlMon', mon_cfg, part)

    def strict(part):
        return tlc.validate_batch('FtpControlTrace', str_cfg, part)

    mparts = [traces[i:i + size] for i in range(0, len(traces), size)]
    straces = [traces[i] for i in strict_idx]
    ssize = max(1, (len(straces) + nchunks - 1) // nchunks)
    sparts = [straces[i:i + ssize] for i in range(0, len(straces), ssize)]
    mfut = [pool.submit(mon, p) for p in mparts]
    sfut = [pool.submit(strict, p) for p in sparts]
    mv = []
    for f in mfut:
        v, st = f.result()
        mv += v
        chk.trace_stats(st)
    sv = {}
    k = 0
    for f in sfut:
        v, st = f.result()
        chk.trace_stats(st)
        for x in v:
            sv[strict_idx[k]] = x
            k += 1

    _dbg('validated', len(traces))
    origins = {}
    for i, ((origin, sc, t), m) in enumerate(zip(items, mv)):
        origins[origin] = origins.get(origin, 0) + 1
        chk.validated(1)
        chk.distinct.add(json.dumps(t['ev'], sort_keys=True))
        if len(chk.samples) < 4 and origin in ('tlc-simulate', 'url') and len(t['ev']) > 30 and i % 7 == 0:
            chk.samples.append({'origin': origin, 'scenario': sc, 'trace': t['ev']})
        if m['matched'] < m['len'] and m['bad'] == 0:
            raise tlc.TLCError('monitor did not consume a trace: %r' % (m,))
        if m['bad']:
            clause = CLAUSES.get(m['bad'], str(m['bad']))
            sig = {'clause': clause}
            if clause == 'OneLine':
                sig['input'] = classify_oneline(t['ev'])
            what = t['ev'][m['badline'] - 2] if 2 <= m['badline'] <= len(t['ev']) + 1 else None
            chk.violation(sig, '%s violated by the real FTP client at event %d %s (origin=%s, sessions=%s)'
                          % (clause, m['badline'] - 1, _short(what), origin, _short(sc.get('sessions', sc))),
                          {'origin': origin, 'scenario': sc, 'trace': t['ev'], 'ref': t['ref']})
        elif i in sv and not sv[i]['accepted']:
            s = sv[i]
            nxt = t['ev'][s['matched']] if s['matched'] < len(t['ev']) else None
            chk.drifted('strict FtpControl.tla rejects event %d %s (origin=%s)' % (s['matched'], _short(nxt), origin),
                        {'scenario': sc, 'trace_prefix': t['ev'][max(0, s['matched'] - 3):s['matched'] + 1]})

    # ---------------- design results
    for name, c, cov, f in dfut:
        res = f.result()
        _dbg('design', name, res['distinct'], res['wall_s'])
        chk.design('FtpControl[%s]' % name, res, constants=const_dict(c),
                   expect_actions=ACTIONS if cov else None)
    res0 = a0fut.result()
    chk.extra['model_of_code_as_found'] = {
        'constants': const_dict(a0), 'tlc_verdict': res0['violated'],
        'meaning': 'with RejectCtl = FALSE (Command.to_bytes writes CR / LF / NUL of the argument) TLC finds the '
                   'OneLine counterexample: the model reproduces finding 18'}
    if res0['violated'] != 'invariant:OneLine':
        raise tlc.TLCError('the model of the unrepaired code must violate OneLine, got %r\n%s'
                           % (res0['violated'], res0['out'][-2000:]))
    pool.shutdown()
    chk.constants = {'design': [dict(name=n, **const_dict(c)) for n, c, _, _ in dfut]}
    chk.extra['origins'] = origins
    chk.extra['trace_constants'] = {'RejectCtl': reject}
    chk.rule = ('conversations of the real wpull FTP client with a scripted server: every server strategy TLC enumerates '
                'for small constants, TLC-simulated behaviours (all reply shapes, all cuts, two sessions), every '
                'alphabet string {plain,CR,LF,NUL,space,percent} up to the tier length percent-encoded in user / password '
                '/ path position, Command.to_bytes directly, every reply shape at the chosen steps under every two-piece cut / '
                'byte-wise delivery / (thorough) every composition; distinct = distinct recorded event traces')
    chk.exhaustive = False


def _short(x, n=260):
    s = json.dumps(x)
    return s if len(s) <= n else s[:n] + '...'


def replay(chk, path):
    rp = json.load(open(path))['replay']
    sc = rp['scenario']
    if 'sessions' not in sc:
        ev = direct_trace(sc['arg'])
    else:
        ev = run_scenario(sc)
    for e in ev:
        e = dict(e)
        for k in ('b', 'text', 'user', 'pass', 'path'):
            if k in e:
                e[k] = repr(bytes(e[k]))
        print(json.dumps(e))
    mon_cfg = 'SPECIFICATION MSpec\nCONSTRAINT Record\nPOSTCONDITION Post\nCHECK_DEADLOCK FALSE\n'
    v, _ = tlc.validate_batch('FtpControlMon', mon_cfg, [{'ev': ev, 'ref': rp.get('ref') or NOREF}])
    print('monitor verdict:', v[0], CLAUSES.get(v[0]['bad'], 'no clause violated'))
    return 1 if v[0]['bad'] else 0


# ---------------------------------------------------------------------- binding self-test
def selftest(chk):
    """The strict trace spec accepts what the real client does and rejects every single-field corruption of it;
    the monitor flags a corrupted command."""
    import copy
    reject = rejects_control_chars()
    sess = {'mode': 'file', 'restart': True, 'user': [117], 'pass': [112], 'path': [97]}
    sc1 = G.happy_scenario(sess, shapes={0: 'multi_sp', 6: 'multi_dig'}, cuts=[3, 9, 5, 1, 1])
    sc2 = G.happy_scenario({'mode': 'listing', 'restart': False, 'user': [], 'pass': [], 'path': []}, fallback=True,
                           final_shape='multi')
    sc2['sessions'].append({'mode': 'file', 'restart': False, 'user': [98], 'pass': [], 'path': []})
    sc2['replies'] += [{'b': list(G.shape_bytes(c, t, 'single')), 'xfer': x, 'drop': False}
                       for c, t, x in ((331, b'ok', False), (230, b'ok', False), (213, b'7', False), (200, b'ok', False),
                                       (227, G.A1, False), (150, b'ok', True))]
    sc2['xfers'].append({'eager_final': True, 'moves': [['final', list(b'226 ok\r\n')], ['data', 1], ['close']]})
    good = [run_scenario(sc1), run_scenario(sc2)]

    def idx(ev, kind, nth=0):
        return [i for i, e in enumerate(ev) if e['e'] == kind][nth]

    def corrupt(ev, kind, nth, field, fn):
        ev = copy.deepcopy(ev)
        e = ev[idx(ev, kind, nth)]
        e[field] = fn(e[field])
        return ev

    bad = [
        ('reply code', corrupt(good[0], 'reply', 2, 'code', lambda c: c + 1)),
        ('reply text', corrupt(good[0], 'reply', 0, 'text', lambda t: t[:-1] + [t[-1] ^ 1])),
        ('command byte', corrupt(good[0], 'cmd', 3, 'b', lambda b: b[:5] + [b[5] ^ 1] + b[6:])),
        ('piece length', corrupt(good[0], 'piece', 1, 'n', lambda n: n + 1)),
        ('server bytes', corrupt(good[0], 'sent', 1, 'b', lambda b: [b[0] + 1] + b[1:])),
        ('body length', corrupt(good[0], 'complete', 0, 'body', lambda n: n + 1)),
        ('outcome', corrupt(good[1], 'end', 1, 'v', lambda v: 'error')),
        ('data piece', corrupt(good[1], 'dpiece', 0, 'n', lambda n: n + 1)),
        ('second session mode', corrupt(good[1], 'session', 1, 'mode', lambda m: 'listing')),
    ]
    dropped = copy.deepcopy(good[1])
    del dropped[idx(dropped, 'deof', 0)]
    bad.append(('data EOF event removed', dropped))
    str_cfg = ('SPECIFICATION TSpec\n' + G.constants(reject, 0, ['single'], 0, 'all', 99, 999, True, ['file'])
               + 'CONSTRAINT Record\nPOSTCONDITION Post\nCHECK_DEADLOCK FALSE\n')
    traces = [{'ev': ev, 'ref': NOREF} for ev in good] + [{'ev': ev, 'ref': NOREF} for _, ev in bad]
    sv, _ = tlc.validate_batch('FtpControlTrace', str_cfg, traces)
    ok = True
    for i, v in enumerate(sv[:len(good)]):
        print('strict spec on recorded conversation %d: %s' % (i + 1, 'accepted' if v['accepted'] else 'REJECTED at %d' % v['matched']))
        ok = ok and v['accepted']
    for (what, _), v in zip(bad, sv[len(good):]):
        print('strict spec, corrupted %-22s: %s' % (what, 'rejected at event %d' % v['matched'] if not v['accepted'] else 'ACCEPTED'))
        ok = ok and not v['accepted']
    # the monitor: a command with an injected line, a completion without EOF, a wrong reference
    mon_cfg = 'SPECIFICATION MSpec\nCONSTRAINT Record\nPOSTCONDITION Post\nCHECK_DEADLOCK FALSE\n'
    inj = corrupt(good[0], 'cmd', 3, 'b', lambda b: b[:-2] + [13, 10, 68, 69, 76, 69, 13, 10])
    wrongref = dict(summary(good[0]))
    wrongref['replies'] = wrongref['replies'][:-1]
    mtr = [{'ev': good[0], 'ref': summary(good[0])}, {'ev': inj, 'ref': NOREF}, {'ev': dropped, 'ref': NOREF},
           {'ev': good[0], 'ref': wrongref}]
    mv, _ = tlc.validate_batch('FtpControlMon', mon_cfg, mtr)
    want = [0, 1, 5, 4]
    for v, w, what in zip(mv, want, ('recorded conversation', 'injected command line', 'completion without data EOF',
                                     'reference run differs')):
        print('monitor, %-28s: clause %s' % (what, CLAUSES.get(v['bad'], '-')))
        ok = ok and v['bad'] == w
    print('SELFTEST', 'ok' if ok else 'FAILED')
    return 0 if ok else 2
