"""Messages for the HttpWire checks (C08 / C04).

Two forms of the same message:
  * abstract (amsg): the record of specs/HttpWireProps.tla over the model alphabet - every header line is ONE
    token Tok(kind, val, style) followed by its real line ending; everything after the header block is real octets;
  * concrete (cmsg): the same record over real octets 0..255 (bytes objects here, int lists in JSON).
`concrete_of` renders an abstract message (TLC-generated scenarios, spec -> code); `abstract_of` computes the
abstraction of a concrete one (seeded random messages, code -> spec).  A cmsg additionally carries `lines`:
the header lines [(content, eol, token)] of ihead + head, which is the token <-> octets dictionary of that message.
"""
import gzip as _gzip
import io

NOTRUNC = 999999
KSTATUS, KTE, KCL, KCONN, KPAD = 1, 2, 3, 4, 5
CL_NONNUM, CL_NEG = 9998, 9999

STATUS = {1: (100, b'Continue'), 2: (200, b'OK'), 3: (204, b'No Content'), 4: (304, b'Not Modified'),
          5: (500, b'Internal Server Error'), 6: (102, b'Processing'), 7: (103, b'Early Hints'),
          8: (205, b'Reset Content'), 9: (404, b'Not Found')}
STATUS_IDX = {100: 1, 200: 2, 204: 3, 304: 4, 205: 8, 404: 9}
TE_TEXT = {1: b'chunked', 2: b'Chunked', 3: b'gzip, chunked'}
CONN_TEXT = {1: b'close', 2: b'keep-alive'}
PADS = [(b'X-Pad', b'v'), (b'Date', b'Sat, 26 Sep 2026 10:00:00 GMT'), (b'Server', b'fake/1.0'),
        (b'Content-Type', b'text/html; charset=utf-8'), (b'Content-Encoding', b'gzip'),
        (b'Set-Cookie', b'a=b; path=/'), (b'Set-Cookie', b'c=d'), (b'X-Colon', b'a:b:c'), (b'Vary', b'Accept-Encoding'),
        (b'ETag', b'"abc"')]
PAD_CE_GZIP = 4


VSPACE_SEPS = [b'\xc3\x85', b'\x85', b'\x0c', b'\x0b', b'\x1c', b'\x1d', b'\x1e']
VSPACE_FIELDS = [b'Content-Length: 1', b'Content-Length: 0', b'Transfer-Encoding: chunked', b'Connection: close',
                 b'Content-Encoding: gzip']


def directed_choices():
    """Renderings that the random generator produces only now and then, each forced at least once whatever the seed:
    the transfer-coding list spread over two field lines, a folded line holding only white space, every line-break
    octet in front of every framing-like text, interim responses with each status code."""
    base = dict(method='GET', status=200, interim=0, icode=100, ver='1.1', te='none', cl='exact', conn='none', fmt='crlf',
                content=b'hello world', gzip=False, trunc_frac=None, sclose=False)
    out = []
    for cl in ('none', 'exact'):
        for conn in ('none', 'close'):
            out.append(dict(base, te='gzip, chunked', cl=cl, conn=conn, split_te=True))
            out.append(dict(base, te='gzip, chunked', cl=cl, conn=conn, split_te=False))
    for fmt in ('foldblank', 'folded', 'dup', 'lf', 'nospace'):
        for te in ('none', 'chunked'):
            out.append(dict(base, fmt=fmt, te=te, cl='none' if te != 'none' else 'exact'))
    for i in range(len(VSPACE_SEPS)):
        for j in range(len(VSPACE_FIELDS)):
            out.append(dict(base, vspace=(i, j), cl='exact' if (i + j) % 2 else 'none', sclose=True))
    # the content coding under each of its names, with each framing
    for ce in (b'gzip', b'GZip', b'x-gzip', b'X-Gzip'):
        for te in ('none', 'chunked'):
            out.append(dict(base, gzip=True, ce_value=ce, te=te, cl='none' if te != 'none' else 'exact'))
    # chunked bodies with and without trailer fields (never announced by a Trailer header field), chunk extensions
    for tr in (b'', b'X-Trailer: v\r\n', b'X-T:1\r\nX-U: 2\r\n', b'Content-Length: 999\r\n'):
        for conn in ('none', 'keep-alive', 'close'):
            out.append(dict(base, te='chunked', cl='none', conn=conn, trailer_fix=tr))
    for icode in (100, 102, 103):
        for te in ('none', 'chunked'):
            out.append(dict(base, interim=1, icode=icode, te=te, cl='none' if te != 'none' else 'exact'))
    return out


def tok(kind, val, style=0):
    return 1000 + kind * 100000 + val * 10 + style


def untok(t):
    t -= 1000
    return t // 100000, (t % 100000) // 10, t % 10


def is_tok(t):
    return t >= 100000


def field_text(kind, val):
    """(name, value) of a header field token."""
    if kind == KTE:
        return b'Transfer-Encoding', TE_TEXT[val]
    if kind == KCL:
        return b'Content-Length', (b'abc' if val == CL_NONNUM else b'-1' if val == CL_NEG else str(val).encode())
    if kind == KCONN:
        return b'Connection', CONN_TEXT[val]
    if kind == KPAD:
        return PADS[(val - 1) % len(PADS)]
    raise ValueError(kind)


def line_text(t, name=None, value=None):
    """Concrete octets (without the line ending) of a header-line token."""
    kind, val, style = untok(t)
    if kind == KSTATUS:
        code, reason = STATUS[val // 2]
        return b'HTTP/1.%d %d %s' % (0 if val % 2 else 1, code, reason)
    n, v = field_text(kind, val)
    n = name if name is not None else n
    v = value if value is not None else v
    if style == 0:
        return n + b': ' + v
    if style == 1:
        return n + b':' + v
    if style == 2:
        return n + b':'
    return b' ' + v


# ------------------------------------------------------------------------------------------ abstract -> concrete
def _split_lines(seq):
    """Abstract header block -> [(token or None, eol ints)]."""
    out = []
    i = 0
    while i < len(seq):
        t = None
        if is_tok(seq[i]):
            t = seq[i]
            i += 1
        eol = []
        while i < len(seq) and seq[i] in (13, 10):
            eol.append(seq[i])
            i += 1
            if eol[-1] == 10:
                break
        out.append((t, eol))
    return out


def concrete_of(am):
    """Render an abstract message (dict as printed by TLC's ToJson) into a cmsg."""
    cm = {k: am[k] for k in ('method', 'status', 'hascl', 'clok', 'clv', 'chunked', 'trunc', 'sclose')}
    cm['te'] = list(am['te'])
    lines = []
    for part in ('ihead', 'head'):
        b = b''
        for t, eol in _split_lines(list(am[part])):
            content = line_text(t) if t is not None else b''
            lines.append((part, content, bytes(eol), t))
            b += content + bytes(eol)
        cm[part] = b
    cm['lines'] = lines
    cm['chunks'] = [{k: bytes(c[k]) for k in ('hdr', 'data', 'end')} for c in am['chunks']]
    for k in ('last', 'trailer', 'raw'):
        cm[k] = bytes(am[k])
    cm['coded'] = False
    cm['content'] = b''
    # truncation point: abstract index -> concrete index (token boundaries)
    cm['trunc'] = NOTRUNC if am['trunc'] == NOTRUNC else a2c_offset(cm, am['trunc'])
    return cm


def a2c_offset(cm, aoff):
    """Abstract offset into Full(msg) -> concrete offset."""
    a = c = 0
    for part, content, eol, t in cm['lines']:
        n = (1 if t is not None else 0)
        if aoff < a + n + len(eol):
            # inside this line: before the token, or inside the line ending
            if aoff == a:
                return c
            return c + len(content) + (aoff - a - n)
        a += n + len(eol)
        c += len(content) + len(eol)
    return c + (aoff - a)


def boundaries(cm):
    """[(concrete offset, abstract offset)] for every offset of Full(msg) that exists in both forms."""
    out = []
    a = c = 0
    for part, content, eol, t in cm['lines']:
        out.append((c, a))
        if t is not None:
            c += len(content)
            a += 1
        elif content:
            # a line without a token (random garbage): not abstractable inside
            c += len(content)
            a += len(content)
        for _ in eol:
            out.append((c, a))
            c += 1
            a += 1
    n = len(wbody(cm))
    for i in range(n + 1):
        out.append((c + i, a + i))
    return out


# ------------------------------------------------------------------------------------------ common operators
def wbody(cm):
    if cm['chunked']:
        return b''.join(c['hdr'] + c['data'] + c['end'] for c in cm['chunks']) + cm['last'] + cm['trailer']
    return cm['raw']


def full(cm):
    return cm['ihead'] + cm['head'] + wbody(cm)


def sent(cm):
    f = full(cm)
    return f if cm['trunc'] == NOTRUNC else f[:cm['trunc']]


# ------------------------------------------------------------------------------------------ concrete -> abstract
def abstract_of(cm):
    """The abstraction of a concrete message: header lines -> tokens, the rest unchanged."""
    am = {k: cm[k] for k in ('method', 'status', 'hascl', 'clok', 'clv', 'chunked', 'sclose')}
    am['te'] = list(cm['te'])
    for part in ('ihead', 'head'):
        seq = []
        for p, content, eol, t in cm['lines']:
            if p != part:
                continue
            if t is not None:
                seq.append(t)
            else:
                seq += list(content)
            seq += list(eol)
        am[part] = seq
    am['chunks'] = [{k: list(c[k]) for k in ('hdr', 'data', 'end')} for c in cm['chunks']]
    for k in ('last', 'trailer', 'raw'):
        am[k] = list(cm[k])
    am['coded'] = False
    am['content'] = []
    if cm['trunc'] == NOTRUNC:
        am['trunc'] = NOTRUNC
    else:
        m = dict(boundaries(cm))
        if cm['trunc'] not in m:
            return None          # cut inside a header token: no abstract counterpart
        am['trunc'] = m[cm['trunc']]
    return am


def to_json_msg(cm):
    """cmsg -> JSON-able record of HttpWireProps (octets as int lists)."""
    j = {k: cm[k] for k in ('method', 'status', 'hascl', 'clok', 'clv', 'chunked', 'trunc', 'sclose', 'coded')}
    j['te'] = list(cm['te'])
    for k in ('ihead', 'head', 'last', 'trailer', 'raw', 'content'):
        j[k] = list(cm[k])
    j['chunks'] = [{k: list(c[k]) for k in ('hdr', 'data', 'end')} for c in cm['chunks']]
    return j


# ------------------------------------------------------------------------------------------ random concrete messages
def _case(rng, name):
    r = rng.random()
    if r < 0.5:
        return name
    if r < 0.7:
        return name.lower()
    if r < 0.85:
        return name.upper()
    return bytes(ch ^ 0x20 if (65 <= ch <= 90 or 97 <= ch <= 122) and rng.random() < 0.5 else ch for ch in name)


def random_choice(rng, allow_trunc=True, persistent=False):
    """A seeded random point of the message space (the same dimensions as Choices of HttpWire.tla, larger bodies)."""
    ch = {}
    ch['method'] = 'HEAD' if rng.random() < 0.12 else 'GET'
    # 205 and 404 are ordinary statuses as far as framing goes (monitored only: outside the model's status alphabet)
    ch['status'] = rng.choice([200] * 8 + [204, 304, 205, 404])
    ch['interim'] = 1 if rng.random() < 0.08 else 0
    # which interim status: the abstraction only knows "an interim 1xx"; 102 / 103 executions are monitored only
    ch['icode'] = rng.choice([100, 100, 102, 103])
    ch['ver'] = '1.0' if rng.random() < 0.1 else '1.1'
    ch['te'] = 'none' if ch['ver'] == '1.0' else rng.choice(['none'] * 4 + ['chunked'] * 4 + ['Chunked', 'gzip, chunked'])
    ch['cl'] = rng.choice(['none', 'exact', 'exact', 'exact', 'larger', 'smaller', 'nonnum', 'neg'])
    if ch['te'] != 'none' and rng.random() < 0.8:
        ch['cl'] = 'none'
    ch['conn'] = rng.choice(['none', 'none', 'close', 'keep-alive'])
    ch['fmt'] = rng.choice(['crlf'] * 4 + ['lf', 'nospace', 'folded', 'dup', 'foldblank'])
    size = rng.choice([0, 1, 2, 3, 5, 17, 64, 200] + ([1000, 5000, 9000] if rng.random() < 0.15 else []))
    ch['content'] = bytes(rng.choice(b'abcdefghij \n<>/') if rng.random() < 0.9 else rng.randrange(256) for _ in range(size))
    ch['gzip'] = rng.random() < 0.3
    ch['trunc_frac'] = rng.random() if (allow_trunc and rng.random() < 0.25) else None
    ch['sclose'] = False if persistent else rng.random() < 0.3
    return ch


def build_cmsg(ch, rng=None):
    """Concrete message of a choice record.  With rng: random header-name case, value spellings, chunk sizes,
    extensions and trailers; without: the canonical rendering (the one concrete_of gives for the model's tokens)."""
    method, status, te, cl, fmt = ch['method'], ch['status'], ch['te'], ch['cl'], ch['fmt']
    ver = ch.get('ver', '1.1').encode()
    conn = ch.get('conn', 'none')
    content = ch.get('content', b'')
    bodyless = method == 'HEAD' or status in (204, 304)
    coded = (not bodyless) and bool(ch.get('gzip')) and te != 'gzip, chunked' and cl in ('none', 'exact')
    if te == 'gzip, chunked' and ch.get('gzip'):
        body = _gzip_bytes(content)     # transfer-coding gzip: delivered as is by a client that only delimits
        content = body
    elif coded:
        body = _gzip_bytes(content)
    else:
        body = content
    if len(body) > 9000:
        body = body[:9000]
        content = body
        coded = False
    if cl == 'smaller' and not body:
        cl = 'exact'
    n = len(body)
    r = rng
    clv = {'exact': n, 'larger': n + (r.choice([1, 2, 50]) if r else 2), 'smaller': max(n - (r.choice([1, 2, 7]) if r else 1), 0),
           'nonnum': CL_NONNUM, 'neg': CL_NEG, 'none': 0}[cl]
    eol = b'\n' if fmt == 'lf' else b'\r\n'
    lines = []
    nonabs = []

    def add_field(kind, val, primary):
        name, value = field_text(kind, val)
        if r:
            name = _case(r, name)
            if kind == KTE and val == 2:
                value = r.choice([b'Chunked', b'CHUNKED', b'chunkeD'])
            if kind == KTE and val == 3:
                value = r.choice([b'gzip, chunked', b'gzip,chunked', b'gzip, Chunked'])
            if kind == KCL and val == CL_NONNUM:
                value = r.choice([b'abc', b'12a', b'1 2', b'0x10'])
            if kind == KCL and val == CL_NEG:
                value = r.choice([b'-1', b'-20'])
            if kind == KPAD and val == PAD_CE_GZIP + 1:
                # spellings of the coding name: case-insensitive, "x-gzip" is gzip (RFC 7230 4.2.3)
                value = ch.get('ce_value') or r.choice([b'gzip', b'gzip', b'GZip', b'x-gzip', b'X-GZIP'])
        if fmt == 'nospace':
            lines.append(('head', line_text(tok(kind, val, 1), name, value), eol, tok(kind, val, 1)))
        elif fmt == 'folded' and primary:
            lines.append(('head', line_text(tok(kind, val, 2), name, value), eol, tok(kind, val, 2)))
            lead = r.choice([b' ', b'\t', b'  ']) if r else b' '
            lines.append(('head', lead + value, eol, tok(kind, val, 3)))
        elif r and kind == KTE and val == 3 and (ch['split_te'] if ch.get('split_te') is not None else r.random() < 0.5):
            # the coding list spread over two field lines: "gzip" and "chunked" (equivalent to one comma-separated line)
            lines.append(('head', name + b': gzip', eol, None))
            lines.append(('head', _case(r, b'Transfer-Encoding') + b': ' + r.choice([b'chunked', b'Chunked']), eol, None))
            nonabs.append(1)
        elif fmt == 'dup' and primary:
            lines.append(('head', line_text(tok(kind, val, 0), name, value), eol, tok(kind, val, 0)))
            lines.append(('head', line_text(tok(kind, val, 0), name, value), eol, tok(kind, val, 0)))
        else:
            lines.append(('head', line_text(tok(kind, val, 0), name, value), eol, tok(kind, val, 0)))

    if ch.get('interim'):
        t = tok(KSTATUS, {100: 1, 102: 6, 103: 7}[ch.get('icode', 100)] * 2, 0)
        lines.append(('ihead', line_text(t), eol, t))
        lines.append(('ihead', b'', eol, None))
    t = tok(KSTATUS, STATUS_IDX[status] * 2 + (1 if ver == b'1.0' else 0), 0)
    lines.append(('head', line_text(t), eol, t))
    fold_te = te != 'none'
    fold_cl = not fold_te and cl != 'none'
    if r and (ch.get('vspace') is not None or r.random() < 0.05):
        # ONE field line (lines end at LF) whose value holds an octet that str.splitlines() takes for a line end,
        # followed by text that looks like a framing field: it is part of that value and frames nothing
        sep = r.choice(VSPACE_SEPS)
        ph = r.choice(VSPACE_FIELDS)
        if ch.get('vspace') is not None:
            sep, ph = VSPACE_SEPS[ch['vspace'][0]], VSPACE_FIELDS[ch['vspace'][1]]
        lines.append(('head', b'X-Author: J' + sep + ph, eol, None))
        nonabs.append(2)
    fields = []
    pads = r.sample(range(2, len(PADS) + 1), r.randrange(0, 4)) if r else []
    if coded and PAD_CE_GZIP + 1 not in pads:
        pads.append(PAD_CE_GZIP + 1)
    if not coded and PAD_CE_GZIP + 1 in pads:
        pads.remove(PAD_CE_GZIP + 1)
    if te != 'none':
        fields.append((KTE, {'chunked': 1, 'Chunked': 2, 'gzip, chunked': 3}[te], fmt == 'folded' and fold_te))
    if cl != 'none':
        fields.append((KCL, clv, (fmt == 'folded' and fold_cl) or fmt == 'dup'))
    if conn != 'none':
        fields.append((KCONN, {'close': 1, 'keep-alive': 2}[conn], False))
    for p in pads + [1]:
        fields.append((KPAD, p, p == 1 and ((fmt == 'folded' and not fold_te and not fold_cl) or (fmt == 'dup' and cl == 'none'))))
    if r:
        r.shuffle(fields)
    for k_, f in enumerate(fields):
        add_field(*f)
        if fmt == 'foldblank' and k_ == (len(fields) - 1) // 2:
            # obs-fold whose continuation holds nothing but white space: still part of the header block, not its end
            lines.append(('head', (r.choice([b' ', b'\t', b'  \t ']) if r else b' '), eol, None))
            nonabs.append(1)
    lines.append(('head', b'', eol, None))
    chk = te != 'none' and not bodyless
    cm = {'method': method, 'status': status,
          'te': {'none': [], 'chunked': ['chunked'], 'Chunked': ['chunked'], 'gzip, chunked': ['gzip', 'chunked']}[te],
          'hascl': cl != 'none', 'clok': cl in ('exact', 'larger', 'smaller'), 'clv': clv,
          'lines': lines, 'chunked': chk, 'chunks': [], 'last': b'', 'trailer': b'', 'raw': b'',
          'coded': coded and not bodyless, 'content': content if (coded and not bodyless) else b''}
    cm['ihead'] = b''.join(c + e for (p, c, e, t) in lines if p == 'ihead')
    cm['interim_code'] = ch.get('icode', 100) if ch.get('interim') else 100
    cm['nonabstract'] = bool(nonabs) or status in (205, 404)
    cm['vspace'] = 2 in nonabs
    cm['head'] = b''.join(c + e for (p, c, e, t) in lines if p == 'head')
    if chk:
        pos = 0
        ext0 = b';x' if ch.get('ext') else b''
        while pos < len(body):
            if r:
                k = r.choice([1, 2, 3, 16, 255, 256, 4096, 5000, len(body)])
            else:
                k = 1 if (ch.get('split') == 2 and pos == 0 and len(body) >= 2) else len(body)
            data = body[pos:pos + k]
            pos += len(data)
            hx = (b'%x' if (not r or r.random() < 0.7) else b'%X') % len(data)
            if r and r.random() < 0.15:
                hx = b'0' + hx
            ext = r.choice([b'', b'', b'', b';x', b';name=value', b' ;q=1']) if r else ext0
            cm['chunks'].append({'hdr': hx + ext + b'\r\n', 'data': data, 'end': b'\r\n'})
        cm['last'] = (r.choice([b'0', b'0', b'00', b'0;x']) if r else b'0' + ext0) + b'\r\n'
        if r:
            cm['trailer'] = r.choice([b'', b'', b'X-Trailer: v\r\n', b'X-T:1\r\nX-U: 2\r\n']) + b'\r\n'
            if ch.get('trailer_fix') is not None:
                cm['trailer'] = ch['trailer_fix'] + b'\r\n'
        else:
            cm['trailer'] = (b'T:v\r\n' if ch.get('tr') else b'') + b'\r\n'
    elif not bodyless:
        cm['raw'] = body
    f = full(cm)
    must_close = (not bodyless) and te == 'none' and cl == 'larger'
    # a coded body delimited by the close of the connection cannot be seen to be cut short: C19's subject
    close_delimited = (not bodyless) and te == 'none' and cl in ('none', 'nonnum', 'neg')
    cm['trunc'] = NOTRUNC
    if ch.get('trunc') is not None:
        cm['trunc'] = ch['trunc']
    elif ch.get('trunc_frac') is not None and len(f) > 0 and not (coded and close_delimited):
        cm['trunc'] = int(ch['trunc_frac'] * len(f))
    cm['sclose'] = True if (cm['trunc'] != NOTRUNC or must_close) else bool(ch.get('sclose'))
    return cm


def random_cmsg(rng, allow_trunc=True, persistent=False):
    """A seeded random concrete message (real header names, real gzip bodies) with its framing fields."""
    return build_cmsg(random_choice(rng, allow_trunc, persistent), rng)


def _gzip_bytes(data):
    b = io.BytesIO()
    with _gzip.GzipFile(fileobj=b, mode='wb', mtime=0) as g:
        g.write(data)
    return b.getvalue()


def random_pieces(rng, n):
    """A random segmentation of n octets into piece lengths (down to single octets)."""
    if n == 0:
        return []
    mode = rng.random()
    if mode < 0.15:
        return [n]
    if mode < 0.3:
        return [1] * n if n <= 400 else _chunks(rng, n, 1, 7)
    if mode < 0.6:
        return _chunks(rng, n, 1, 9)
    if mode < 0.85:
        return _chunks(rng, n, 1, 200)
    return _chunks(rng, n, 1000, 6000)


def _chunks(rng, n, lo, hi):
    out = []
    while n > 0:
        k = min(n, rng.randint(lo, hi))
        out.append(k)
        n -= k
    return out


# ------------------------------------------------------------------------------------------ input classes (signatures)
def msg_class(cm, fix=(False, False, False, False, False), weak=False):
    """The input class of a message, as used in violation signatures (None: an ordinary message).  fix = the
    variant of the code under test (FixTE, FixNoBody, Fix1xx, FixBadCL as probed by the driver): a class whose
    defect is repaired in that variant is an ordinary input there."""
    fix_te, fix_nb, fix_1xx, fix_cl = fix[:4]
    toks = [untok(t) for (p, c, e, t) in cm['lines'] if t is not None and p == 'head']
    bodyless = cm['method'] == 'HEAD' or cm['status'] in (204, 304)
    if cm['ihead'] and not fix_1xx:
        return {'class': 'interim-1xx'}
    if bodyless and (cm['hascl'] or cm['te']) and not fix_nb:
        kind = 'HEAD' if cm['method'] == 'HEAD' else str(cm['status'])
        return {'class': 'bodyless-with-framing-header', 'kind': kind}
    if not fix_te:
        for kind, val, style in toks:
            if kind == KTE and val in (2, 3) and style != 2:
                return {'class': 'te-spelling', 'te': TE_TEXT[val].decode()}
    if cm['hascl'] and not cm['clok'] and not cm['te'] and not bodyless and not fix_cl:
        return {'class': 'invalid-content-length', 'cl': 'nonnum' if cm['clv'] == CL_NONNUM else 'neg'}
    if cm['hascl'] and cm['clok'] and not cm['te'] and not bodyless and cm['clv'] == 0 and len(cm['raw']) > 0 \
            and not (len(fix) > 6 and fix[6]):
        return {'class': 'overrun', 'cl': 0}
    if weak and cm.get('vspace'):
        # a description only (asked for last, so that it never hides an inherited class)
        return {'class': 'line-break-octet-inside-field-value'}
    return None


def plain_class(cm):
    """Coarse description of an ordinary message: framing headers and where it is cut."""
    n = len(cm['raw'])
    if cm['te']:
        fr = 'chunked'
    elif cm['hascl']:
        fr = 'length-exact' if cm['clv'] == n else ('length-short-body' if cm['clv'] > n else 'length-overrun')
    else:
        fr = 'close'
    if cm['method'] == 'HEAD' or cm['status'] in (204, 304):
        fr = 'none'
    t = cm['trunc']
    he = len(cm['ihead']) + len(cm['head'])
    if t == NOTRUNC:
        cut = 'no'
    elif t < he:
        cut = 'header'
    elif cm['chunked']:
        cb = he + sum(len(c['hdr']) + len(c['data']) + len(c['end']) for c in cm['chunks'])
        cut = 'chunks' if t < cb else ('last-chunk' if t < cb + len(cm['last']) else 'trailer')
    else:
        cut = 'body'
    return {'framing': fr, 'cut': cut}
