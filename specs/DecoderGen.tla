----------------------------- MODULE DecoderGen -----------------------------
(***************************************************************************)
(* Scenario generation for C19 (spec -> code).  Decoder.tla instantiated   *)
(* with the measured profiles of REAL zlib-produced bodies (JSON file      *)
(* IOEnv.BODIES_FILE), plus a history of the piece lengths chosen.  TLC    *)
(* explores every behaviour (= every composition of the body length into   *)
(* positive parts, up to the first failing call); each finished behaviour  *)
(* prints its script and the model's outcome.  The driver feeds exactly    *)
(* these pieces to the real decoders.                                      *)
(* For bodies longer than FullN the compositions are restricted to: every  *)
(* set of cuts inside the first Zone bytes, and at most MaxPieces pieces   *)
(* anywhere.                                                               *)
(***************************************************************************)
EXTENDS Decoder, Json, IOUtils

CONSTANTS FullN, Zone, MaxPieces

Bodies == JsonDeserialize(IOEnv.BODIES_FILE)

VARIABLES bid, hist
gvars == <<vars, bid, hist>>

GInit == /\ bid \in 1..Len(Bodies) /\ hist = <<>>
         /\ InitWith(Bodies[bid].prof, Bodies[bid].dec, "class")

Allowed(n) == \/ prof.n <= FullN
              \/ pos + n = prof.n
              \/ pos + n <= Zone
              \/ Len(hist) + 2 <= MaxPieces

GNext == \/ \E n \in 1..(prof.n - pos) : Allowed(n) /\ Feed(n) /\ hist' = Append(hist, n) /\ UNCHANGED bid
         \/ Flush /\ UNCHANGED <<bid, hist>>

GSpec == GInit /\ [][GNext]_gvars

Emit == IF Ended
        THEN PrintT(<<"SCRIPT", ToJson([b |-> bid, p |-> hist, o |-> Outcome])>>) /\ FALSE
        ELSE TRUE
=============================================================================
