-------------------------- MODULE WarcWriterTrace --------------------------
(***************************************************************************)
(* Strict trace validation: is a recorded execution of the real            *)
(* wpull.warc.recorder.WARCRecorder (one event per file-system operation,  *)
(* each with the projection of what is on disk at that moment) a behaviour *)
(* of WarcWriter.tla?  A rejection is MODEL-DRIFT, never an alarm (the     *)
(* properties are decided by WarcWriterMon on the same events).            *)
(*                                                                         *)
(* Batch[tid] = [par, runs (the scenario), mid, ev].  mid = TRUE: the      *)
(* recording starts at the write_record call that receives the injected    *)
(* I/O error (the prefix is identical to the fault-free run and is not     *)
(* recorded again); the model state is then initialised from the first     *)
(* observation and only the append machine is followed.                    *)
(***************************************************************************)
EXTENDS WarcWriter, Json, IOUtils, TLCExt

Batch == JsonDeserialize(IOEnv.TRACE_FILE)
NT    == Len(Batch)

VARIABLES tid, l, obs
tvars == <<vars, tid, l, obs>>

Ev  == Batch[tid].ev
Cur == Ev[l]
Scn == Batch[tid].runs
Is(name) == l <= Len(Ev) /\ Cur.e = name

NoObs == [m |-> <<>>, j |-> "absent", jn |-> 0, x |-> FALSE]
Has(ch, f) == \E i \in 1..Len(ch) : ch[i].f = f
Ent(ch, f) == ch[CHOOSE i \in 1..Len(ch) : ch[i].f = f]
FoldObs(o, ch) == [f \in Files |-> IF Has(ch, f)
                                   THEN [m |-> Ent(ch, f).m, j |-> Ent(ch, f).j, jn |-> Ent(ch, f).jn, x |-> Ent(ch, f).x]
                                   ELSE o[f]]

\* the observation made at an event describes the state BEFORE the operation of that event is performed
Match(o) ==
  \A f \in Files :
    LET v == View(f) IN
      /\ Len(o[f].m) = Len(v)
      /\ \A i \in 1..Len(v) : /\ (o[f].m[i].s = "complete") = v[i].ok
                              /\ v[i].ok => (o[f].m[i].t = v[i].ty /\ o[f].m[i].l = v[i].len)
      /\ o[f].j = jr[f].st
      /\ jr[f].st = "offset" => o[f].jn = jr[f].n

Consume == /\ l' = l + 1 /\ UNCHANGED tid
           /\ obs' = FoldObs(obs, Cur.ch) /\ Match(FoldObs(obs, Cur.ch))
Silent  == UNCHANGED <<tid, l, obs>>

(* ---- initial states ---- *)
ObsMember(m) == [NoRec EXCEPT !.ty = m.t, !.rid = m.r, !.ok = (m.s = "complete"), !.len = m.l]

MidInit(fx) ==
  LET e == Ev[1]
      o == FoldObs([f \in Files |-> NoObs], e.ch) IN
  /\ par = Batch[tid].par /\ fix = fx
  /\ disk = [f \in Files |-> [i \in 1..Len(o[f].m) |-> ObsMember(o[f].m[i])]]
  /\ tail = [f \in Files |-> FALSE]
  /\ jr = [f \in Files |-> [st |-> o[f].j, n |-> o[f].jn]]
  /\ cdx = <<>> /\ ex = {f \in Files : o[f].x} /\ cdxEx = TRUE
  \* (the constructor appends the first warcinfo record before it sets up the CDX index: e.cx says which it is)
  /\ pc = "idle" /\ todo = <<S("append", e.ty, "none")>> \o (IF par.cdx /\ ~e.cx THEN <<S("cdxinit", "none", "none")>> ELSE <<>>)
  /\ cur = e.fi /\ seq = 0 /\ winfo = 0 /\ appending = TRUE
  /\ rec = NoRec /\ ap = NoAp
  /\ nextRid = 30 /\ runs = 1 /\ exch = 0 /\ faults = 0 /\ crashes = 0
  /\ lastFault = NoFault /\ overJournal = 0

TInit ==
  /\ tid \in 1..NT /\ l = 1
  /\ obs = [f \in Files |-> NoObs]
  /\ \E fx \in FixSpace : IF Batch[tid].mid THEN MidInit(fx) ELSE InitWith(Batch[tid].par, fx)

(* ---- events ---- *)
TBoot  == Is("boot") /\ Consume /\ runs < Len(Scn) /\ Startup(Scn[runs + 1].appending)
TStart == Is("start") /\ Consume /\ IF Cur.refused \/ ~Cur.ok THEN pc = "off" /\ UNCHANGED vars ELSE Started
TAbegin == Is("abegin") /\ Consume /\ Step("append") /\ Head(todo)[2] = Cur.ty /\ cur = Cur.fi /\ BeginAppend(Cur.len)
TAend  == Is("aend") /\ Consume /\ IF Cur.ok THEN ADone ELSE Raise
TSend  == Is("send") /\ Consume /\ SessEnd

(* the full projection at the end of a fault-free process: digest ranges, revisit cut, CDX lines *)
OPdo(m) == IF ~m.pdp THEN "none"
           ELSE IF m.t = "revisit" THEN (IF m.pdw THEN "wire" ELSE "other")
           ELSE IF ~m.http THEN "none"
           ELSE IF m.pdf /\ m.hlf /\ m.pdk = m.hl THEN "wire" ELSE "other"
OTr(m)  == IF m.t # "revisit" THEN "na" ELSE IF m.hlf /\ m.bl = m.hl THEN "wire" ELSE "other"
OHdr(F, ln) == \E i \in 1..Len(F.files) : \E k \in 1..Len(F.files[i].m) :
                  LET m == F.files[i].m[k] IN m.r = ln.r /\ ln.st = m.st /\ ln.mi = m.mi
FinalMatch ==
  IF ~Cur.hasfull THEN TRUE ELSE
  LET F == Cur.full IN
  /\ \A i \in 1..Len(F.files) :
       LET e == F.files[i]
           v == View(e.f) IN
         /\ Len(e.m) = Len(v)
         /\ \A k \in 1..Len(v) : v[k].ok => (OPdo(e.m[k]) = v[k].pdo /\ OTr(e.m[k]) = v[k].tr)
  /\ par.cdx => /\ Len(F.cdx) = Len(cdx)
                /\ \A j \in 1..Len(cdx) : /\ F.cdx[j].g = cdx[j].f /\ F.cdx[j].o = cdx[j].off /\ F.cdx[j].l = cdx[j].len
                                          /\ OHdr(F, F.cdx[j]) = cdx[j].hdr

TEnd == /\ Is("end") /\ Consume /\ FinalMatch
        /\ IF Cur.how = "closed" THEN Closed ELSE pc = "off" /\ UNCHANGED vars

Op(name) == Is("op") /\ Cur.op = name
Inj == Cur.inj

TOp ==
  /\ Is("op") /\ Consume
  /\ \/ Op("a.trunc") /\ Trunc
     \/ Op("a.exists") /\ (IF pc = "a_exists" THEN AExists ELSE Step("newfile") /\ UNCHANGED vars)
     \/ Op("a.getsize") /\ (IF pc = "a_getsize" THEN AGetsize ELSE IF pc = "a_getsize2" THEN AGetsize2
                            ELSE par.maxsize > 0 /\ Flush)
     \/ Op("j.open") /\ (IF Inj THEN ErrJOpen ELSE JOpen)
     \/ Op("j.write") /\ (IF Inj THEN ErrJWrite ELSE JWrite)
     \/ Op("j.close") /\ (IF pc = "j_fclose" THEN JFClose ELSE IF Inj THEN ErrJClose ELSE JClose)
     \/ Op("a.open") /\ (IF pc = "r_open" THEN ROpen ELSE IF Inj THEN ErrAOpen ELSE AOpen)
     \/ Op("a.write") /\ (IF Inj THEN ErrAWrite ELSE \E fl \in BOOLEAN : AWrite(fl))
     \/ Op("a.close") /\ (IF pc = "a_fclose" THEN \E fl \in BOOLEAN : AFClose(fl)
                          ELSE IF pc = "r_close" THEN RClose
                          ELSE IF Inj THEN ErrAClose ELSE AClose)
     \/ Op("a.truncate") /\ RTrunc
     \/ Op("j.remove") /\ (IF pc = "j_fremove" THEN JFRemove ELSE IF Inj THEN ErrJRemove ELSE JRemove)
     \/ Op("j.exists") /\ UNCHANGED vars
     \/ Op("c.trunc") /\ CdxInit
     \/ Op("c.exists") /\ CdxInit
     \/ Op("c.getsize") /\ CGetsize
     \/ Op("c.open") /\ (IF pc = "rc_open" THEN RCOpen ELSE IF pc = "c_open" THEN (IF Inj THEN ErrCOpen ELSE COpen)
                          ELSE CHdr(FALSE))
     \/ Op("c.write") /\ (IF pc = "c_w" THEN (IF Inj THEN ErrCWrite ELSE CWrite) ELSE CHdr(FALSE))
     \/ Op("c.close") /\ (IF pc = "c_fclose" THEN \E fl \in BOOLEAN : CFClose(fl)
                          ELSE IF pc = "rc_close" THEN RCClose
                          ELSE IF pc = "c_w" THEN (IF Inj THEN ErrCClose ELSE CClose) ELSE CHdr(TRUE))
     \/ Op("c.truncate") /\ RCTrunc
     \/ Op("a.move") /\ Step("move") /\ Head(todo)[2] = "a" /\ Move
     \/ Op("c.move") /\ Step("move") /\ Head(todo)[2] = "c" /\ Move

IsOvl(e) == "ovl" \in DOMAIN e /\ e.ovl
BodyOf(e) == IF e.body = "empty" THEN "empty" ELSE "data"
\* steps of the model that perform no file-system operation
TSilent ==
  /\ Silent
  /\ \/ NewFile
     \/ (par.maxsize = 0 /\ Flush)
     \/ (~Batch[tid].mid /\ runs >= 1 /\ runs <= Len(Scn) /\ exch < Len(Scn[runs].ex)
         /\ LET a == Scn[runs].ex[exch + 1] IN
            IF IsOvl(a) /\ exch + 1 < Len(Scn[runs].ex)
            THEN LET b == Scn[runs].ex[exch + 2] IN SessionOvl(a.shape, BodyOf(a), b.k, b.shape, BodyOf(b))
            ELSE Session(a.k, a.shape, BodyOf(a)))
     \/ (~Batch[tid].mid /\ runs >= 1 /\ runs <= Len(Scn) /\ exch = Len(Scn[runs].ex) /\ Close)

TNext == TBoot \/ TStart \/ TAbegin \/ TAend \/ TSend \/ TEnd \/ TOp \/ TSilent
TSpec == TInit /\ [][TNext]_tvars

-----------------------------------------------------------------------------
ASSUME \A i \in 1..(2 * NT) : TLCSet(i, 0)

Record == IF TLCGet(tid) < l THEN TLCSet(tid, l) ELSE TRUE

Post == PrintT(<<"VERDICTS_BEGIN",
                 [i \in 1..NT |-> <<TLCGet(i) - 1, TLCGet(NT + i) \div 100000, TLCGet(NT + i) % 100000>>],
                 "VERDICTS_END">>)
=============================================================================
