------------------------------- MODULE Cache -------------------------------
(***************************************************************************)
(* wpull/cache.py: FIFOCache and LRUCache (the DNS cache, the pool's        *)
(* happy-eyeballs preference table, the FTP listing cache).                *)
(* Implementation-shaped: the cache is ONE sequence of items [k, v, t]     *)
(* (t = access_time; the deque / LinkedList `_seq`), `_map` is its key     *)
(* index.  One action per public call; trim() is the function Trim, called *)
(* where the code calls it (NOT on a set of an existing key, NOT on len /  *)
(* iteration).  Time is the integer `now` (time.time() of the code).       *)
(* MaxItems = 0 is "no limit" (`if self._max_items:`); TTL >= Inf is "none".*)
(***************************************************************************)
EXTENDS Naturals, Sequences, FiniteSets, TLC

CONSTANTS Keys, Vals, MaxItems, TTL, MaxTime, Lru

VARIABLES seq, now, last, truth
vars == <<seq, now, last, truth>>

None == "none"
Miss == "miss"

KeysOf(s)     == {s[i].k : i \in 1..Len(s)}
Idx(s, k)     == CHOOSE i \in 1..Len(s) : s[i].k = k
Without(s, k) == SelectSeq(s, LAMBDA it : it.k # k)

RECURSIVE DropExpired(_, _)
DropExpired(s, t) == IF s # <<>> /\ s[1].t + TTL < t THEN DropExpired(Tail(s), t) ELSE s   \* expire_time < now_time
RECURSIVE DropOver(_)
DropOver(s) == IF MaxItems > 0 /\ Len(s) > MaxItems THEN DropOver(Tail(s)) ELSE s
Trim(s, t)  == DropOver(DropExpired(s, t))

\* __setitem__
SetF(s, t, k, v) ==
  IF k \in KeysOf(s)
  THEN IF Lru THEN Append(Without(s, k), [k |-> k, v |-> v, t |-> t])             \* value, touch(): to the end
              ELSE [s EXCEPT ![Idx(s, k)].v = v]                                  \* value only: place and time stay
  ELSE Trim(Append(s, [k |-> k, v |-> v, t |-> t]), t)

\* __getitem__: trim first; the answer and the state afterwards
GetRes(s, t, k) == LET s1 == Trim(s, t) IN IF k \in KeysOf(s1) THEN s1[Idx(s1, k)].v ELSE Miss
GetExp(s, t, k) == LET s1 == Trim(s, t) IN IF k \in KeysOf(s1) THEN s1[Idx(s1, k)].t ELSE 0
GetF(s, t, k) ==
  LET s1 == Trim(s, t) IN
  IF k \in KeysOf(s1) /\ Lru THEN Append(Without(s1, k), [s1[Idx(s1, k)] EXCEPT !.t = t]) ELSE s1

Init == seq = <<>> /\ now = 0 /\ last = [op |-> "init", k |-> None, res |-> None, exp |-> 0]
        /\ truth = [k \in Keys |-> None]

Tick  == now < MaxTime /\ now' = now + 1 /\ UNCHANGED <<seq, truth>> /\ last' = [op |-> "tick", k |-> None, res |-> None, exp |-> 0]
Set(k, v) == /\ seq' = SetF(seq, now, k, v) /\ truth' = [truth EXCEPT ![k] = v]
             /\ last' = [op |-> "set", k |-> k, res |-> None, exp |-> 0] /\ UNCHANGED now
Get(k) == /\ seq' = GetF(seq, now, k)
          /\ last' = [op |-> "get", k |-> k, res |-> GetRes(seq, now, k), exp |-> GetExp(seq, now, k)]
          /\ UNCHANGED <<now, truth>>
Clear == seq' = <<>> /\ truth' = [k \in Keys |-> None] /\ UNCHANGED now
         /\ last' = [op |-> "clear", k |-> None, res |-> None, exp |-> 0]

Next == Tick \/ Clear \/ (\E k \in Keys : Get(k) \/ \E v \in Vals : Set(k, v))
Spec == Init /\ [][Next]_vars

-----------------------------------------------------------------------------
(* What a user of the cache relies on                                       *)
Unique     == \A i, j \in 1..Len(seq) : seq[i].k = seq[j].k => i = j
SizeBound  == MaxItems > 0 => Len(seq) <= MaxItems
\* trim() looks at the head only: sound because the sequence is ordered by access time
Sorted     == \A i, j \in 1..Len(seq) : i < j => seq[i].t <= seq[j].t
NoStaleHit == (last.op = "get" /\ last.res # Miss) => last.exp + TTL >= now
HitLatest  == (last.op = "get" /\ last.res # Miss) => last.res = truth[last.k]
Stored     == \A i \in 1..Len(seq) : seq[i].v = truth[seq[i].k]
\* a key set and not yet expired, with room for everything (no limit): never a miss
NoLoss     == (last.op = "get" /\ last.res = Miss /\ MaxItems = 0 /\ TTL >= MaxTime) => truth[last.k] = None
=============================================================================
