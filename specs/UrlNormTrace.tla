--------------------------- MODULE UrlNormTrace ---------------------------
(***************************************************************************)
(* Strict trace spec for C10/C11: is what the real wpull.url code did with *)
(* an input what the transcription Norm of UrlNorm.tla does with it?       *)
(* One trace = one input, ev = << member >>.  A rejected trace is          *)
(* MODEL-DRIFT (the transcription and the code disagree), never an alarm.  *)
(***************************************************************************)
EXTENDS UrlNorm, Json, IOUtils, TLCExt

Batch == JsonDeserialize(IOEnv.TRACE_FILE)
NT    == Len(Batch)

VARIABLES tid, l
tvars == <<tid, l>>
Ev == Batch[tid].ev

Agrees(e) ==
  LET r == Norm(e.in, e.enc) IN
  \/ r.oc = "unmodelled"
  \/ r.oc = "valueerror" /\ e.oc = "valueerror"
  \/ r.oc = "urlerror" /\ e.oc = "value" /\ e.uoc = "valueerror"
  \/ /\ r.oc = "value" /\ e.oc = "value" /\ e.uoc = "value"
     /\ r.net = e.net /\ r.url = e.url
     /\ r.net => /\ r.scheme = e.sch /\ r.hostname = e.hn /\ r.port = e.port
                 /\ r.path = e.path /\ r.query = e.query /\ r.fragment = e.frag
                 /\ r.username = e.user /\ r.password = e.pass

TInit == tid \in 1..NT /\ l = 1
TNext == l <= Len(Ev) /\ Agrees(Ev[l]) /\ l' = l + 1 /\ UNCHANGED tid
TSpec == TInit /\ [][TNext]_tvars

ASSUME \A i \in 1..(2 * NT) : TLCSet(i, 0)
Record == IF TLCGet(tid) < l THEN TLCSet(tid, l) ELSE TRUE
Post == PrintT(<<"VERDICTS_BEGIN",
                 [i \in 1..NT |-> <<TLCGet(i) - 1, TLCGet(NT + i) \div 100000, TLCGet(NT + i) % 100000>>],
                 "VERDICTS_END">>)
=============================================================================
