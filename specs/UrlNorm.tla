------------------------------ MODULE UrlNorm ------------------------------
(***************************************************************************)
(* C10 / C11: URL normalisation and parsing of wpull/url.py.               *)
(*                                                                         *)
(* Text is a sequence of code points (naturals < 2^31).  The module has    *)
(* no variables; it is shared by                                           *)
(*   UrlNormGen    input-space enumeration (scenario generator) + design   *)
(*                 check of the properties on the transcription Norm       *)
(*   UrlNormMon    the property predicates evaluated on the outputs of the *)
(*                 REAL code  (decides VIOLATION)                          *)
(*   UrlNormTrace  real output = Norm(input)?  (decides DRIFT only)        *)
(*                                                                         *)
(* Parts:  1 text helpers   2 numbers, IPv4, IPv6, IDNA, codecs            *)
(*         3 Norm = transcription of URLInfo.parse + URLInfo.url           *)
(*         4 property predicates over an output string                     *)
(*         5 the input space: alphabet, catalogues, clusters, Variants     *)
(***************************************************************************)
EXTENDS Integers, Sequences, FiniteSets, TLC

CONSTANTS FixUrlEager,   \* TRUE: parse() builds .url itself, so un-encodable user info is a ValueError of parse()
          FixPctCase,    \* TRUE: uppercase_percent_encoding matches %[0-9a-fA-F]{2}  (finding 7 repaired)
          FixIdnaFirst,  \* TRUE: host is IDNA-mapped/lower-cased before the IPv4 forms are tried (finding 8 repaired)
          FixUserPct     \* TRUE: '%' is in the userinfo encode sets and userinfo is re-encoded with the
                         \*       document encoding (userinfo re-encoding repaired)

-----------------------------------------------------------------------------
(* 1. text helpers                                                          *)

Slice(s, m, n) == IF m > n THEN <<>> ELSE SubSeq(s, m, n)
From(s, m)     == Slice(s, m, Len(s))
Idx(s, c)      == {i \in 1..Len(s) : s[i] = c}
MinOf(S)       == CHOOSE x \in S : \A y \in S : x <= y
MaxOf(S)       == CHOOSE x \in S : \A y \in S : x >= y
Find(s, c)     == IF Idx(s, c) = {} THEN 0 ELSE MinOf(Idx(s, c))      \* 1-based, 0 = absent
RFind(s, c)    == IF Idx(s, c) = {} THEN 0 ELSE MaxOf(Idx(s, c))
Has(s, c)      == \E i \in 1..Len(s) : s[i] = c
Count(s, c)    == Cardinality(Idx(s, c))
StartsWith(s, p) == Len(s) >= Len(p) /\ SubSeq(s, 1, Len(p)) = p
LastIs(s, c)   == Len(s) > 0 /\ s[Len(s)] = c
AllAscii(s)    == \A i \in 1..Len(s) : s[i] < 128

RECURSIVE Split(_, _)
Split(s, c) == LET i == Find(s, c) IN
               IF i = 0 THEN <<s>> ELSE <<Slice(s, 1, i - 1)>> \o Split(From(s, i + 1), c)
RECURSIVE Join(_, _)
Join(ps, c) == IF Len(ps) = 0 THEN <<>> ELSE IF Len(ps) = 1 THEN ps[1] ELSE ps[1] \o <<c>> \o Join(Tail(ps), c)
RECURSIVE Flat(_)
Flat(ss) == IF Len(ss) = 0 THEN <<>> ELSE Head(ss) \o Flat(Tail(ss))

\* str.partition(c): <<before, found, after>>
Partition(s, c)  == LET i == Find(s, c) IN
                    IF i = 0 THEN <<s, FALSE, <<>>>> ELSE <<Slice(s, 1, i - 1), TRUE, From(s, i + 1)>>
\* str.rpartition(c): <<before, found, after>> (not found: everything in `after`)
RPartition(s, c) == LET i == RFind(s, c) IN
                    IF i = 0 THEN <<<<>>, FALSE, s>> ELSE <<Slice(s, 1, i - 1), TRUE, From(s, i + 1)>>

\* str.strip(): Unicode white space (the alphabet only has SPACE and TAB; the rest for completeness)
IsSpace(c) == c \in {9, 10, 11, 12, 13, 28, 29, 30, 31, 32, 133, 160, 12288}
Strip(s) == LET keep == {i \in 1..Len(s) : ~IsSpace(s[i])} IN
            IF keep = {} THEN <<>> ELSE SubSeq(s, MinOf(keep), MaxOf(keep))

IsUpperAZ(c) == c \in 65..90
IsLowerAZ(c) == c \in 97..122
LowerC(c) == IF IsUpperAZ(c) THEN c + 32 ELSE c       \* str.lower() on the alphabet
UpperC(c) == IF IsLowerAZ(c) THEN c - 32 ELSE c
LowerS(s) == [i \in 1..Len(s) |-> LowerC(s[i])]
UpperS(s) == [i \in 1..Len(s) |-> UpperC(s[i])]

IsDigit(c)  == c \in 48..57
IsHex(c)    == c \in 48..57 \/ c \in 97..102 \/ c \in 65..70
IsLowHex(c) == c \in 48..57 \/ c \in 97..102            \* [a-f0-9]
HexVal(c)   == IF c \in 48..57 THEN c - 48 ELSE IF c \in 97..102 THEN c - 87 ELSE c - 55
HexU(d)     == IF d < 10 THEN 48 + d ELSE 55 + d
HexL(d)     == IF d < 10 THEN 48 + d ELSE 87 + d
PctByte(b)  == <<37, HexU(b \div 16), HexU(b % 16)>>     \* '%{:02X}'
RECURSIVE Dec(_)
Dec(n) == IF n < 10 THEN <<48 + n>> ELSE Dec(n \div 10) \o <<48 + (n % 10)>>
RECURSIVE HexStr(_)
HexStr(n) == IF n < 16 THEN <<HexL(n)>> ELSE HexStr(n \div 16) \o <<HexL(n % 16)>>

\* ---- writing constant text: S("http://") = <<104, 116, ...>>
ASCIIP == " !\"#$%&'()*+,-./0123456789:;<=>?@ABCDEFGHIJKLMNOPQRSTUVWXYZ[\\]^_`abcdefghijklmnopqrstuvwxyz{|}~"
OrdTab == [i \in 1..95 |-> SubSeq(ASCIIP, i, i)]
Ord(ch) == 31 + (CHOOSE i \in 1..95 : OrdTab[i] = ch)
S(str)  == [i \in 1..Len(str) |-> Ord(SubSeq(str, i, i))]

COLON == 58  SLASH == 47  QM == 63  HASH == 35  AT == 64  PCT == 37  DOT == 46  LBR == 91  RBR == 93  BSL == 92
SPC == 32    TAB == 9     PLUS == 43
EAC  == 233      \* e-acute           (2-byte UTF-8, a Latin-1 character)
FWX  == 65368    \* fullwidth small x (NFKC/IDNA maps it to "x"; not Latin-1)
IDOT == 12290    \* ideographic full stop (IDNA label separator)
SUR  == 55296    \* lone surrogate    (no codec encodes it)
RCH  == 65533    \* U+FFFD

-----------------------------------------------------------------------------
(* 2a. integers as 4 little-endian bytes + overflow flag (TLC integers are 32 bit) *)

NumZero == [b |-> <<0, 0, 0, 0>>, ov |-> FALSE]
MulAdd(n, base, d) ==
  LET t1 == n.b[1] * base + d
      t2 == n.b[2] * base + (t1 \div 256)
      t3 == n.b[3] * base + (t2 \div 256)
      t4 == n.b[4] * base + (t3 \div 256)
  IN [b |-> <<t1 % 256, t2 % 256, t3 % 256, t4 % 256>>, ov |-> n.ov \/ t4 >= 256]
ShiftB(n, k) == [b  |-> [j \in 1..4 |-> IF j - k >= 1 THEN n.b[j - k] ELSE 0],
                 ov |-> n.ov \/ \E j \in 1..4 : j + k > 4 /\ n.b[j] # 0]
AddN(x, y) ==
  LET t1 == x.b[1] + y.b[1]
      t2 == x.b[2] + y.b[2] + (t1 \div 256)
      t3 == x.b[3] + y.b[3] + (t2 \div 256)
      t4 == x.b[4] + y.b[4] + (t3 \div 256)
  IN [b |-> <<t1 % 256, t2 % 256, t3 % 256, t4 % 256>>, ov |-> x.ov \/ y.ov \/ t4 >= 256]
IsZeroN(n) == ~n.ov /\ n.b = <<0, 0, 0, 0>>

DigitVal(c, base) == IF IsDigit(c) /\ c - 48 < base THEN c - 48
                     ELSE IF base = 16 /\ IsHex(c) THEN HexVal(c) ELSE -1
RECURSIVE FoldDigits(_, _, _)
FoldDigits(s, base, acc) == IF Len(s) = 0 THEN acc ELSE FoldDigits(Tail(s), base, MulAdd(acc, base, DigitVal(Head(s), base)))

\* int(text, base) of Python for the alphabet: surrounding white space, a sign, "0x" with base 16
PyInt(text, base) ==
  LET t   == Strip(text)
      sg  == IF Len(t) > 0 /\ t[1] \in {43, 45} THEN t[1] ELSE 0
      u   == IF sg # 0 THEN Tail(t) ELSE t
      v   == IF base = 16 /\ Len(u) >= 2 /\ u[1] = 48 /\ u[2] \in {120, 88} THEN From(u, 3) ELSE u
  IN IF Len(v) = 0 \/ \E i \in 1..Len(v) : DigitVal(v[i], base) < 0
     THEN [ok |-> FALSE]
     ELSE [ok |-> TRUE, neg |-> (sg = 45), n |-> FoldDigits(v, base, NumZero)]

\* url.py parse_ipv4_int
ParseIpv4Int(text) ==
  IF StartsWith(text, <<48, 120>>) THEN PyInt(text, 16)
  ELSE IF StartsWith(text, <<48>>) THEN PyInt(text, 8)
  ELSE PyInt(text, 10)

Dotted(n) == Dec(n.b[4]) \o <<DOT>> \o Dec(n.b[3]) \o <<DOT>> \o Dec(n.b[2]) \o <<DOT>> \o Dec(n.b[1])

\* url.py normalize_ipv4_address: [ok, v]; ok = FALSE stands for the ValueError the caller swallows
NormIpv4(addr) ==
  LET nd == Count(addr, DOT) IN
  IF nd = 0 THEN
     LET r == ParseIpv4Int(addr) IN
     IF r.ok /\ ~r.n.ov /\ (~r.neg \/ IsZeroN(r.n)) THEN [ok |-> TRUE, v |-> Dotted(r.n)] ELSE [ok |-> FALSE]
  ELSE IF nd = 3 THEN
     LET ps == Split(addr, DOT)
         rs == [i \in 1..4 |-> ParseIpv4Int(ps[i])] IN
     IF \E i \in 1..4 : ~rs[i].ok \/ (rs[i].neg /\ ~IsZeroN(rs[i].n)) THEN [ok |-> FALSE]
     ELSE LET sum == AddN(AddN(ShiftB(rs[1].n, 3), ShiftB(rs[2].n, 2)), AddN(ShiftB(rs[3].n, 1), rs[4].n)) IN
          IF sum.ov THEN [ok |-> FALSE] ELSE [ok |-> TRUE, v |-> Dotted(sum)]
  ELSE IF nd \in {1, 2} THEN
     \* a.b (8 + 24 bits) and a.b.c (8 + 8 + 16 bits): every part but the last is one octet, the last fills the rest
     LET ps == Split(addr, DOT)
         rs == [i \in 1..(nd + 1) |-> ParseIpv4Int(ps[i])] IN
     IF \E i \in 1..(nd + 1) : ~rs[i].ok \/ rs[i].n.ov \/ (rs[i].neg /\ ~IsZeroN(rs[i].n)) THEN [ok |-> FALSE]
     ELSE IF \E i \in 1..nd : rs[i].n.b[2] # 0 \/ rs[i].n.b[3] # 0 \/ rs[i].n.b[4] # 0 THEN [ok |-> FALSE]
     ELSE IF rs[nd + 1].n.b[4] # 0 \/ (nd = 2 /\ rs[nd + 1].n.b[3] # 0) THEN [ok |-> FALSE]
     ELSE LET sum == IF nd = 1 THEN AddN(ShiftB(rs[1].n, 3), rs[2].n)
                     ELSE AddN(AddN(ShiftB(rs[1].n, 3), ShiftB(rs[2].n, 2)), rs[3].n) IN
          [ok |-> TRUE, v |-> Dotted(sum)]
  ELSE [ok |-> FALSE]

-----------------------------------------------------------------------------
(* 2b. ipaddress.IPv6Address(text).compressed  (CPython 3.12)               *)

\* strict dotted quad of ipaddress.IPv4Address(str): 4 parts, 1-3 ASCII digits, no leading zero, <= 255
StrictOctet(p) == IF Len(p) \in 1..3 /\ (\A i \in 1..Len(p) : IsDigit(p[i])) /\ ~(Len(p) > 1 /\ p[1] = 48)
                  THEN LET v == FoldDigits(p, 10, NumZero) IN IF v.b[2] = 0 THEN v.b[1] ELSE -1
                  ELSE -1
StrictIpv4(text) == LET ps == Split(text, DOT) IN
                    IF Len(ps) # 4 THEN [ok |-> FALSE]
                    ELSE LET os == [i \in 1..4 |-> StrictOctet(ps[i])] IN
                         IF \E i \in 1..4 : os[i] < 0 THEN [ok |-> FALSE] ELSE [ok |-> TRUE, o |-> os]

Hextet(p) == IF Len(p) \in 1..4 /\ \A i \in 1..Len(p) : IsHex(p[i])
             THEN LET v == FoldDigits(p, 16, NumZero) IN v.b[1] + 256 * v.b[2] ELSE -1

\* longest run of zero hextets (first one wins, length > 1), as <<start, len>> (start 1-based; len 0 = none)
RunLen(h, i) == IF h[i] # 0 THEN 0
                ELSE LET ends == {j \in i..8 : \A k \in i..j : h[k] = 0} IN MaxOf(ends) - i + 1
BestRun(h) == LET starts == {i \in 1..8 : h[i] = 0 /\ (i = 1 \/ h[i - 1] # 0)}
                  best   == IF starts = {} THEN 0 ELSE MaxOf({RunLen(h, i) : i \in starts}) IN
              IF best <= 1 THEN <<0, 0>> ELSE <<MinOf({i \in starts : RunLen(h, i) = best}), best>>
FmtHextets(h, from, to) == Join([i \in 1..(to - from + 1) |-> HexStr(h[from + i - 1])], COLON)
CompressV6(h) == LET r == BestRun(h) IN
                 IF r[2] = 0 THEN FmtHextets(h, 1, 8)
                 ELSE FmtHextets(h, 1, r[1] - 1) \o <<COLON, COLON>> \o FmtHextets(h, r[1] + r[2], 8)

\* parse_ipv6_hostname admits only these inside the brackets (address characters, and RFC 6874 zone characters)
V6Char(c) == IsDigit(c) \/ c \in 65..90 \/ c \in 97..122 \/ c \in {COLON, DOT, PCT, 45, 95, 126}
Ipv6Compressed(text) ==
  LET sp    == Partition(text, PCT)
      addr  == sp[1]
      scope == sp[3]
      \* (parse_ipv6_hostname itself refuses other characters: ipaddress takes any text as a zone)
      scopeOK == (~sp[2] \/ (Len(scope) > 0 /\ ~Has(scope, PCT))) /\ \A i \in 1..Len(text) : V6Char(text[i])
      ps0   == Split(addr, COLON)
      v4    == IF Len(ps0) > 0 /\ Has(ps0[Len(ps0)], DOT) THEN StrictIpv4(ps0[Len(ps0)]) ELSE [ok |-> FALSE]
      hasV4 == Len(ps0) > 0 /\ Has(ps0[Len(ps0)], DOT)
      ps    == IF hasV4 /\ v4.ok
               THEN SubSeq(ps0, 1, Len(ps0) - 1) \o <<HexStr(v4.o[1] * 256 + v4.o[2]), HexStr(v4.o[3] * 256 + v4.o[4])>>
               ELSE ps0
      n     == Len(ps)
      skips == {i \in 2..(n - 1) : Len(ps[i]) = 0}
      Bad   == [ok |-> FALSE]
  IN
  IF ~scopeOK \/ Len(addr) = 0 \/ Len(ps0) < 3 \/ (hasV4 /\ ~v4.ok) \/ n > 9 \/ Cardinality(skips) > 1 THEN Bad
  ELSE
   LET sk  == IF skips = {} THEN 0 ELSE MinOf(skips)
       hi0 == IF sk = 0 THEN n ELSE sk - 1
       lo0 == IF sk = 0 THEN 0 ELSE n - sk
       e1  == Len(ps[1]) = 0
       eN  == Len(ps[n]) = 0
       hi  == IF sk # 0 /\ e1 THEN hi0 - 1 ELSE hi0
       lo  == IF sk # 0 /\ eN THEN lo0 - 1 ELSE lo0
       structOK == IF sk = 0 THEN n = 8 /\ ~e1 /\ ~eN
                   ELSE (e1 => hi = 0) /\ (eN => lo = 0) /\ 8 - (hi + lo) >= 1
   IN IF ~structOK THEN Bad
      ELSE LET his == [i \in 1..hi |-> Hextet(ps[i])]
               los == [i \in 1..lo |-> Hextet(ps[n - lo + i])]
               h   == [i \in 1..8 |-> IF i <= hi THEN his[i] ELSE IF i > 8 - lo THEN los[i - (8 - lo)] ELSE 0]
           IN IF \E i \in 1..8 : h[i] < 0 THEN Bad
              ELSE [ok |-> TRUE, v |-> CompressV6(h) \o (IF sp[2] THEN <<PCT>> \o scope ELSE <<>>)]

-----------------------------------------------------------------------------
(* 2c. hostname.encode('idna').decode('ascii').lower()                      *)
(* The alphabet's non-ASCII characters: FWX -> "x", IDOT = label separator, *)
(* SUR prohibited, EAC kept (label is then Punycode-encoded: table for the  *)
(* labels of the catalogue; any other non-ASCII label is "unmodelled").     *)

LabelLenOK(l) == Len(l) > 0 /\ Len(l) < 64
IsDotC(c) == c \in {DOT, IDOT, 65294, 65377}
RECURSIVE SplitDots(_)
SplitDots(s) == LET ix == {i \in 1..Len(s) : IsDotC(s[i])} IN
                IF ix = {} THEN <<s>> ELSE <<Slice(s, 1, MinOf(ix) - 1)>> \o SplitDots(From(s, MinOf(ix) + 1))

NamePrepC(c) == IF c = FWX THEN 120 ELSE LowerC(c)
tACE == S("xn--")
PunyTab == << <<<<EAC>>, S("xn--9ca")>>, <<<<97, EAC>>, S("xn--a-bga")>>, <<<<EAC, 97>>, S("xn--a-9fa")>> >>
ToAscii(label) ==
  IF AllAscii(label) THEN (IF LabelLenOK(label) THEN [ok |-> "ok", v |-> label] ELSE [ok |-> "err"])
  ELSE IF Has(label, SUR) THEN [ok |-> "err"]
  ELSE LET np == [i \in 1..Len(label) |-> NamePrepC(label[i])] IN
       IF AllAscii(np) THEN (IF LabelLenOK(np) THEN [ok |-> "ok", v |-> np] ELSE [ok |-> "err"])
       ELSE IF StartsWith(np, tACE) THEN [ok |-> "err"]
       ELSE IF \E k \in 1..Len(PunyTab) : PunyTab[k][1] = np
            THEN [ok |-> "ok", v |-> PunyTab[CHOOSE k \in 1..Len(PunyTab) : PunyTab[k][1] = np][2]]
            ELSE [ok |-> "unmodelled"]

IdnaEncode(h) ==
  IF Len(h) = 0 THEN [ok |-> "ok", v |-> <<>>]
  ELSE IF AllAscii(h) THEN
       LET ls == Split(h, DOT) n == Len(ls) IN
       IF (\A i \in 1..(n - 1) : LabelLenOK(ls[i])) /\ Len(ls[n]) < 64 THEN [ok |-> "ok", v |-> h] ELSE [ok |-> "err"]
  ELSE LET ls0 == SplitDots(h)
           trail == Len(ls0[Len(ls0)]) = 0
           ls  == IF trail THEN SubSeq(ls0, 1, Len(ls0) - 1) ELSE ls0
           rs  == [i \in 1..Len(ls) |-> ToAscii(ls[i])] IN
       IF \E i \in 1..Len(ls) : rs[i].ok = "err" THEN [ok |-> "err"]
       ELSE IF \E i \in 1..Len(ls) : rs[i].ok = "unmodelled" THEN [ok |-> "unmodelled"]
       ELSE [ok |-> "ok", v |-> Join([i \in 1..Len(ls) |-> rs[i].v], DOT) \o (IF trail THEN <<DOT>> ELSE <<>>)]

\* url.py normalize_hostname
NormHostname(h) == LET r == IdnaEncode(h) IN IF r.ok = "ok" THEN [ok |-> "ok", v |-> LowerS(r.v)] ELSE r

-----------------------------------------------------------------------------
(* 2d. codecs: utf-8, latin-1, ascii; anything else is "unmodelled"         *)

Modelled(enc) == enc \in {"utf-8", "latin-1", "ascii"}
EncCp(c, enc) ==
  IF enc = "utf-8" THEN
     IF c < 128 THEN <<c>>
     ELSE IF c < 2048 THEN <<192 + (c \div 64), 128 + (c % 64)>>
     ELSE IF c \in 55296..57343 THEN <<-1>>
     ELSE IF c < 65536 THEN <<224 + (c \div 4096), 128 + ((c \div 64) % 64), 128 + (c % 64)>>
     ELSE <<240 + (c \div 262144), 128 + ((c \div 4096) % 64), 128 + ((c \div 64) % 64), 128 + (c % 64)>>
  ELSE IF enc = "latin-1" THEN (IF c < 256 THEN <<c>> ELSE <<-1>>)
  ELSE (IF c < 128 THEN <<c>> ELSE <<-1>>)
\* text.encode(enc): [ok, v]; ok = FALSE is UnicodeEncodeError (a ValueError)
Encode(text, enc) == LET bs == Flat([i \in 1..Len(text) |-> EncCp(text[i], enc)]) IN
                     IF Has(bs, -1) THEN [ok |-> FALSE] ELSE [ok |-> TRUE, v |-> bs]

IsCont(b) == b \in 128..191
\* bytes.decode(enc, 'replace')
RECURSIVE Decode(_, _)
Decode(bs, enc) ==
  IF Len(bs) = 0 THEN <<>>
  ELSE LET b == bs[1] n == Len(bs) IN
   IF enc = "latin-1" THEN <<b>> \o Decode(Tail(bs), enc)
   ELSE IF b < 128 THEN <<b>> \o Decode(Tail(bs), enc)
   ELSE IF enc = "ascii" THEN <<RCH>> \o Decode(Tail(bs), enc)
   ELSE IF b \in 194..223 THEN
        (IF n >= 2 /\ IsCont(bs[2]) THEN <<(b - 192) * 64 + (bs[2] - 128)>> \o Decode(From(bs, 3), enc)
         ELSE <<RCH>> \o Decode(Tail(bs), enc))
   ELSE IF b \in 224..239 THEN
        LET lo2 == IF b = 224 THEN 160 ELSE 128
            hi2 == IF b = 237 THEN 159 ELSE 191 IN
        IF n >= 2 /\ bs[2] \in lo2..hi2
        THEN (IF n >= 3 /\ IsCont(bs[3])
              THEN <<(b - 224) * 4096 + (bs[2] - 128) * 64 + (bs[3] - 128)>> \o Decode(From(bs, 4), enc)
              ELSE <<RCH>> \o Decode(From(bs, 3), enc))
        ELSE <<RCH>> \o Decode(Tail(bs), enc)
   ELSE <<RCH>> \o Decode(Tail(bs), enc)        \* 4-byte forms are not in the alphabet

\* urllib.parse.unquote_to_bytes on an ASCII chunk
RECURSIVE UnqBytes(_)
UnqBytes(s) == IF Len(s) = 0 THEN <<>>
               ELSE IF s[1] = PCT /\ Len(s) >= 3 /\ IsHex(s[2]) /\ IsHex(s[3])
                    THEN <<HexVal(s[2]) * 16 + HexVal(s[3])>> \o UnqBytes(From(s, 4))
                    ELSE <<s[1]>> \o UnqBytes(Tail(s))
\* urllib.parse.unquote(text, encoding, errors='replace'): ASCII runs are unquoted and decoded one by one
RECURSIVE Unquote(_, _)
Unquote(s, enc) ==
  IF ~Has(s, PCT) THEN s
  ELSE LET na == {i \in 1..Len(s) : s[i] >= 128} IN
       IF na = {} THEN Decode(UnqBytes(s), enc)
       ELSE LET i == MinOf(na) IN
            (IF i = 1 THEN <<>> ELSE Decode(UnqBytes(Slice(s, 1, i - 1)), enc)) \o <<s[i]>> \o Unquote(From(s, i + 1), enc)

\* the percent-encode sets of url.py
DefaultSet  == {32, 34, 35, 60, 62, 63, 96}
PasswordSet == DefaultSet \cup {47, 64, 92} \cup (IF FixUserPct THEN {37} ELSE {})
UsernameSet == PasswordSet \cup {58}
QuerySet    == {34, 35, 60, 62, 96}
FragmentSet == {32, 34, 60, 62, 96}

\* url.py percent_encode: [ok, v]
PctEncode(text, set, enc) ==
  LET e == Encode(text, enc) IN
  IF ~e.ok THEN [ok |-> FALSE]
  ELSE [ok |-> TRUE,
        v  |-> Flat([i \in 1..Len(e.v) |-> IF e.v[i] < 32 \/ e.v[i] > 126 \/ e.v[i] \in set THEN PctByte(e.v[i]) ELSE <<e.v[i]>>])]

\* url.py uppercase_percent_encoding: re.sub('%[a-f0-9][a-f0-9]', upper)
EscPair(x, y) == IF FixPctCase THEN IsHex(x) /\ IsHex(y) ELSE IsLowHex(x) /\ IsLowHex(y)
UpperPct(s) == [i \in 1..Len(s) |->
                 IF \/ (i >= 2 /\ i + 1 <= Len(s) /\ s[i - 1] = PCT /\ EscPair(s[i], s[i + 1]))
                    \/ (i >= 3 /\ s[i - 2] = PCT /\ EscPair(s[i - 1], s[i]))
                 THEN UpperC(s[i]) ELSE s[i]]

\* url.py flatten_path(path, flatten_slashes=True)
RECURSIVE FoldParts(_, _)
FoldParts(ps, acc) == IF Len(ps) = 0 THEN acc
                      ELSE LET p == Head(ps) IN
                           IF p = <<DOT>> \/ Len(p) = 0 THEN FoldParts(Tail(ps), acc)
                           ELSE IF p # <<DOT, DOT>> THEN FoldParts(Tail(ps), Append(acc, p))
                           ELSE IF Len(acc) > 0 THEN FoldParts(Tail(ps), SubSeq(acc, 1, Len(acc) - 1))
                           ELSE FoldParts(Tail(ps), acc)
FlattenPath(path) ==
  IF Len(path) = 0 \/ path = <<SLASH>> THEN <<SLASH>>
  ELSE LET p  == IF path[1] = SLASH THEN Tail(path) ELSE path
           np == FoldParts(Split(p, SLASH), <<>>)
           ps == Split(p, SLASH)
           \* a final "." or ".." names a directory, like a final "/"
           n2 == IF LastIs(p, SLASH) \/ Len(np) = 0 \/ ps[Len(ps)] \in {<<DOT>>, <<DOT, DOT>>}
                 THEN Append(np, <<>>) ELSE np
       IN <<SLASH>> \o Join(n2, SLASH)

\* url.py normalize_userinfo_text: [ok, v]
PctOctets(text, set, enc) ==
  LET e == Encode(text, enc) IN
  IF ~e.ok THEN [ok |-> FALSE]
  ELSE LET b == UnqBytes(e.v) IN
       [ok |-> TRUE, v |-> Flat([i \in 1..Len(b) |-> IF b[i] < 32 \/ b[i] > 126 \/ b[i] \in set THEN PctByte(b[i]) ELSE <<b[i]>>])]

NormPath(path, enc) == LET p == IF StartsWith(path, <<SLASH>>) THEN path ELSE <<SLASH>> \o path
                           e == PctEncode(FlattenPath(p), DefaultSet, enc) IN
                       IF e.ok THEN [ok |-> TRUE, v |-> UpperPct(e.v)] ELSE e
NormQuery(q, enc) == LET e == PctEncode(q, QuerySet, enc) IN
                     IF e.ok THEN [ok |-> TRUE, v |-> UpperPct([i \in 1..Len(e.v) |-> IF e.v[i] = SPC THEN PLUS ELSE e.v[i]])] ELSE e
NormFragment(f, enc) == LET e == PctEncode(f, FragmentSet, enc) IN
                        IF e.ok THEN [ok |-> TRUE, v |-> UpperPct(e.v)] ELSE e

-----------------------------------------------------------------------------
(* 3. Norm: URLInfo.parse(url, encoding=enc) followed by reading .url       *)
(* Result: [oc |-> "valueerror"] | [oc |-> "unmodelled"] |                   *)
(*   [oc |-> "value", net |-> FALSE, url, scheme] |                          *)
(*   [oc |-> "value", net |-> TRUE, url, scheme, hostname, port, path, query, fragment, username, password, v6] *)

\* (text constants are 0-ary definitions: TLC evaluates them once)
HTTP == S("http")  tFTP == S("ftp")  tGOPHER == S("gopher")  tHTTPS == S("https")  tWS == S("ws")  tWSS == S("wss")
tCSS == S("://")   tLOCALHOST == S("localhost")
DefaultPort(sch) == IF sch = tFTP THEN 21 ELSE IF sch = tGOPHER THEN 70 ELSE IF sch = HTTP THEN 80
                    ELSE IF sch = tHTTPS THEN 443 ELSE IF sch = tWS THEN 80 ELSE IF sch = tWSS THEN 443 ELSE 0
ForbiddenHostChars == {35, 37, 47, 58, 63, 64, 91, 92, 93, 32}
VErr == [oc |-> "valueerror"]
UnM  == [oc |-> "unmodelled"]

\* parse_hostname: [ok \in {"ok","err","unmodelled"}, v]
ParseHostname(hn) ==
  IF StartsWith(hn, <<LBR>>) THEN
     (IF ~LastIs(hn, RBR) THEN [ok |-> "err"]
      ELSE LET r == Ipv6Compressed(Slice(hn, 2, Len(hn) - 1)) IN
           IF r.ok THEN [ok |-> "ok", v |-> r.v] ELSE [ok |-> "err"])
  ELSE IF ~FixIdnaFirst THEN
     LET v4 == NormIpv4(hn)
         h1 == IF v4.ok THEN v4.v ELSE hn
         r  == NormHostname(h1) IN
     IF r.ok # "ok" THEN r
     ELSE IF \E i \in 1..Len(r.v) : r.v[i] \in ForbiddenHostChars THEN [ok |-> "err"] ELSE r
  ELSE
     LET r0 == NormHostname(hn) IN
     IF r0.ok # "ok" THEN r0
     ELSE LET v4 == NormIpv4(r0.v)
              h1 == IF v4.ok THEN v4.v ELSE r0.v IN
          IF \E i \in 1..Len(h1) : h1[i] \in ForbiddenHostChars THEN [ok |-> "err"] ELSE [ok |-> "ok", v |-> h1]

\* parse_host: [ok, hostname, port]   (port PortNone = None; 0 is a port like any other)
PortNone == 0 - 1
ParseHost(host) ==
  IF LastIs(host, RBR) THEN LET r == ParseHostname(host) IN [ok |-> r.ok, hostname |-> IF r.ok = "ok" THEN r.v ELSE <<>>, port |-> PortNone]
  ELSE LET rp == RPartition(host, COLON) IN
       IF rp[2] THEN
          LET pi == PyInt(rp[3], 10) IN
          IF ~pi.ok \/ (pi.neg /\ ~IsZeroN(pi.n)) \/ pi.n.ov \/ pi.n.b[3] # 0 \/ pi.n.b[4] # 0
          THEN [ok |-> "err", hostname |-> <<>>, port |-> PortNone]
          ELSE LET r == ParseHostname(rp[1]) IN
               [ok |-> r.ok, hostname |-> IF r.ok = "ok" THEN r.v ELSE <<>>, port |-> pi.n.b[1] + 256 * pi.n.b[2]]
       ELSE LET r == ParseHostname(host) IN [ok |-> r.ok, hostname |-> IF r.ok = "ok" THEN r.v ELSE <<>>, port |-> PortNone]

NormRel(url, scheme, rem0, enc) ==
  LET rem  == IF StartsWith(rem0, <<SLASH, SLASH>>) THEN From(rem0, 3) ELSE rem0
      n    == Len(rem)
      pi   == Find(rem, SLASH)
      qi   == Find(rem, QM)
      fi   == Find(rem, HASH)
      nz3  == {x \in {pi, qi, fi} : x > 0}
      ai   == IF nz3 = {} THEN n + 1 ELSE MinOf(nz3)
      nz2  == {x \in {qi, fi} : x > 0}
      pe   == IF nz2 = {} THEN n + 1 ELSE MinOf(nz2)
      qe   == IF fi > 0 THEN fi ELSE n + 1
      authority == Slice(rem, 1, ai - 1)
      path0 == Slice(rem, ai + 1, pe - 1)
      path  == IF Len(path0) = 0 THEN <<SLASH>> ELSE path0
      query == Slice(rem, pe + 1, qe - 1)
      frag  == Slice(rem, qe + 1, n)
      pa   == Partition(authority, AT)
      userinfo == IF pa[2] THEN pa[1] ELSE <<>>
      host == IF pa[2] THEN pa[3] ELSE authority
      ph   == ParseHost(host)
      pu   == Partition(userinfo, COLON)
  IN
  IF ph.ok = "err" THEN VErr
  ELSE IF ph.ok = "unmodelled" THEN UnM
  ELSE IF Len(ph.hostname) = 0 THEN VErr
  ELSE
   LET np == NormPath(path, enc)
       nq == NormQuery(query, enc)
       nf == NormFragment(frag, enc) IN
   IF ~np.ok \/ ~nq.ok \/ ~nf.ok THEN VErr
   ELSE
    LET username == Unquote(pu[1], enc)
        password == Unquote(pu[3], enc)
        port == IF ph.port = PortNone THEN DefaultPort(scheme) ELSE ph.port
        v6   == StartsWith(host, <<LBR>>)
        \* the .url property (normalize_userinfo_text): the user info AS WRITTEN is encoded, its escapes are undone
        \* octet-wise, and the octets are escaped again - so octets that were escaped stay what they were, whatever
        \* the encoding (decoding them as text and encoding the text again is not repeatable under another encoding)
        eu   == PctOctets(pu[1], UsernameSet, enc)
        ep   == PctOctets(pu[3], PasswordSet, enc)
    IN
    IF (Len(username) > 0 /\ ~eu.ok) \/ (Len(password) > 0 /\ ~ep.ok) THEN
         \* parse() returned, but reading .url raises UnicodeEncodeError: seen by callers as a ValueError from normalize()
         (IF FixUrlEager THEN VErr ELSE [oc |-> "urlerror"])
    ELSE
     [oc |-> "value", net |-> TRUE, scheme |-> scheme, hostname |-> ph.hostname, port |-> port,
      path |-> np.v, query |-> nq.v, fragment |-> nf.v, username |-> username, password |-> password, v6 |-> v6,
      url |-> scheme \o tCSS
              \o (IF Len(username) > 0 THEN UpperPct(eu.v) ELSE <<>>)
              \o (IF Len(password) > 0 THEN <<COLON>> \o UpperPct(ep.v) ELSE <<>>)
              \o (IF Len(username) > 0 \/ Len(password) > 0 THEN <<AT>> ELSE <<>>)
              \o (IF v6 THEN <<LBR>> \o ph.hostname \o <<RBR>> ELSE ph.hostname)
              \o (IF port # DefaultPort(scheme) THEN <<COLON>> \o Dec(port) ELSE <<>>)
              \o np.v
              \o (IF Len(nq.v) > 0 THEN <<QM>> \o nq.v ELSE <<>>)]

Norm(url0, enc) ==
  IF ~Modelled(enc) THEN UnM
  ELSE
  LET url == Strip(url0) IN
  IF \E i \in 1..Len(url) : url[i] < 32 THEN VErr
  ELSE
   LET pt == Partition(url, COLON) IN
   IF Len(pt[1]) = 0 THEN VErr
   ELSE
    LET st1 == IF ~pt[2] THEN <<HTTP, url>> ELSE <<LowerS(pt[1]), pt[3]>>
        st2 == IF Has(st1[1], DOT) \/ st1[1] = tLOCALHOST
               THEN <<HTTP, url>> ELSE st1       \* (the text as written, not the lower-cased "scheme")
    IN IF DefaultPort(st2[1]) = 0
       THEN [oc |-> "value", net |-> FALSE, url |-> url, scheme |-> st2[1]]
       ELSE NormRel(url, st2[1], st2[2], enc)

-----------------------------------------------------------------------------
(* 4. Property predicates over a normalised URL string `u` (C10).           *)
(* They look at the string only: scheme "://" authority path ["?" query].   *)

SchemeEnd(u) == Find(u, COLON)                                   \* index of the first ':'
WellFormed(u) == LET c == SchemeEnd(u) IN c > 1 /\ Len(u) >= c + 2 /\ u[c + 1] = SLASH /\ u[c + 2] = SLASH
AuthStart(u) == SchemeEnd(u) + 3
AuthEnd(u)   == LET ix == {i \in AuthStart(u)..Len(u) : u[i] \in {SLASH, QM, HASH}} IN
                IF ix = {} THEN Len(u) ELSE MinOf(ix) - 1
SchemeOf(u)  == Slice(u, 1, SchemeEnd(u) - 1)
AuthOf(u)    == Slice(u, AuthStart(u), AuthEnd(u))
RestOf(u)    == From(u, AuthEnd(u) + 1)                            \* path ["?" query]
HostPortOf(u) == LET a == AuthOf(u) i == RFind(a, AT) IN From(a, i + 1)
UserOf(u)    == LET a == AuthOf(u) i == RFind(a, AT) IN Slice(a, 1, i - 1)
\* host without port: a bracketed literal, or everything before the last ':'
HostOf(u)    == LET hp == HostPortOf(u) IN
                IF StartsWith(hp, <<LBR>>) /\ Has(hp, RBR) THEN Slice(hp, 1, Find(hp, RBR))
                ELSE IF Has(hp, COLON) THEN Slice(hp, 1, RFind(hp, COLON) - 1) ELSE hp
PortTextOf(u) == LET hp == HostPortOf(u) h == HostOf(u) IN
                 IF Len(hp) > Len(h) /\ hp[Len(h) + 1] = COLON THEN From(hp, Len(h) + 2) ELSE <<>>
HasPort(u)   == LET hp == HostPortOf(u) h == HostOf(u) IN Len(hp) > Len(h)
PathOf(u)    == LET r == RestOf(u) i == Find(r, QM) IN IF i = 0 THEN r ELSE Slice(r, 1, i - 1)

IsAscii(u)  == AllAscii(u)
NoWsC0(u)   == \A i \in 1..Len(u) : u[i] > 32
LowerSchemeHost(u) == WellFormed(u) /\ LET sc == SchemeOf(u) h == HostOf(u) IN
                                       /\ \A i \in 1..Len(sc) : ~IsUpperAZ(sc[i])
                                       /\ \A i \in 1..Len(h) : ~IsUpperAZ(h[i])
DefaultPortOmitted(u) == WellFormed(u) /\
                         (HasPort(u) => LET p == PortTextOf(u) IN
                                         /\ Len(p) > 0 /\ (\A i \in 1..Len(p) : IsDigit(p[i]))
                                         /\ p # Dec(DefaultPort(SchemeOf(u))))
NoDotOrEmptySegments(u) ==
  WellFormed(u) /\ LET p == PathOf(u) IN
                   /\ StartsWith(p, <<SLASH>>)
                   /\ LET segs == Split(Tail(p), SLASH) IN
                      /\ \A i \in 1..Len(segs) : segs[i] # <<DOT>> /\ segs[i] # <<DOT, DOT>>
                      /\ \A i \in 1..(Len(segs) - 1) : Len(segs[i]) > 0
EscapesUpper(u) == \A i \in 1..Len(u) : (u[i] = PCT /\ i + 2 <= Len(u) /\ IsHex(u[i + 1]) /\ IsHex(u[i + 2]))
                                         => (~IsLowerAZ(u[i + 1]) /\ ~IsLowerAZ(u[i + 2]))
-----------------------------------------------------------------------------
(* 5. The input space.                                                      *)
(* Alphabet of character classes with their representatives:                *)
(*   a A z 0 1 7 8 9 x e E 2 f F   letters / digits / hex digits            *)
(*   . / : @ [ ] ? # % \ + ;       delimiters                               *)
(*   SPC TAB                       white space, C0                          *)
(*   EAC FWX IDOT SUR              2-byte UTF-8, IDNA-mapped, IDNA dot,     *)
(*                                 lone surrogate                           *)
(* Inputs are structured: scheme-variant, userinfo, host-variant, port-     *)
(* variant, path, query/fragment, (document) encoding.  Catalogue entries   *)
(* carry a class label `k` used in violation signatures.                    *)

Rep(c, n) == [i \in 1..n |-> c]

SC(t, k, dp) == [t |-> t, k |-> k, dp |-> dp]      \* dp: text of the scheme's default port (<<>>: no such variant)
SchemeCat == <<
  SC(S("http://"),  "http",  S("80")),
  SC(S("https://"), "https", S("443")),
  SC(S("ftp://"),   "ftp",   S("21")),
  SC(S("http:"),    "http-noslash", S("80")),
  SC(<<>>,          "noscheme", S("80")),
  SC(S("//"),       "schemerel", S("80")),
  \* ---- the rest only in cluster A3
  SC(S("ws://"),    "ws",    S("80")),
  SC(S("wss://"),   "wss",   S("443")),
  SC(S("gopher://"), "gopher", S("70")),
  SC(S("http:/"),   "http-oneslash", S("80")),
  SC(S("http:///"), "http-3slash", S("80")),
  SC(S("mailto:"),  "nonnet", <<>>),
  SC(S("x://"),     "nonnet-slashes", <<>>),
  SC(S(":"),        "emptyscheme", <<>>),
  SC(S("a.x://"),   "dotscheme", <<>>),
  SC(S("localhost://"), "localhostscheme", <<>>),
  SC(<<SPC>> \o S("http://"), "leading-space", S("80")),
  SC(S("ht") \o <<TAB>> \o S("tp://"), "c0-inside", <<>>) >>
NMainSchemes == 6

UC(t, k) == [t |-> t, k |-> k]
UserCat == <<
  UC(<<>>, "none"),
  UC(S("a:A@"), "user-pass"),
  UC(S("a@"), "user"),
  UC(S("@"), "empty"),
  UC(S(":@"), "empty-both"),
  UC(S("a:@"), "empty-pass"),
  UC(S(":A@"), "pass-only"),
  UC(S("%41@"), "escaped-alnum"),
  UC(S("%2541@"), "double-escape"),
  UC(S("a%40b@"), "escaped-delim"),
  UC(S("%2f:%3A@"), "escaped-delim"),
  UC(S("%aF@"), "mixed-case-escape"),
  UC(S("a:b:c@"), "colon-in-pass"),
  UC(S("a@b@"), "two-at"),
  UC(S("a b@"), "space"),
  UC(S("%@"), "lone-percent"),
  UC(S("%00@"), "escaped-nul"),
  UC(<<EAC, AT>>, "nonascii"),
  UC(S("%C3%A9@"), "escaped-utf8"),
  UC(S("%e9@"), "escaped-latin1"),
  UC(<<SUR, AT>>, "surrogate"),
  UC(<<COLON, SUR, AT>>, "surrogate"),              \* empty user name, password that no codec encodes
  UC(S("a:") \o <<SUR, AT>>, "surrogate"),
  UC(<<COLON, EAC, AT>>, "nonascii") >>             \* empty user name, password outside ascii / latin-1 documents

H(t, k, g) == [t |-> t, k |-> k, g |-> g]           \* g: hosts with the same g > 0 are notations of one address
HostCat == <<
  H(S("h"), "name", 0),
  H(S("a.x"), "name", 0),
  H(S("localhost"), "localhost", 0),
  H(S("a.x."), "name-trailing-dot", 0),
  H(S("a..x"), "empty-label", 0),
  H(S(".a"), "empty-label", 0),
  H(Rep(97, 63) \o S(".x"), "label63", 0),
  H(Rep(97, 64) \o S(".x"), "label64", 0),
  H(S("xn--9ca"), "punycode", 0),
  H(<<EAC>> \o S(".x"), "idna-nonascii", 0),
  H(<<97, EAC>>, "idna-nonascii", 0),
  H(<<FWX>>, "idna-mapped", 0),
  H(S("a") \o <<IDOT>> \o S("x"), "idna-dot", 0),
  H(S("xn--") \o <<EAC>>, "idna-ace-prefix", 0),
  H(<<SUR>>, "surrogate", 0),
  H(S("a") \o <<SUR>>, "surrogate", 0),
  H(S("0") \o <<FWX>> \o S("7f.0.0.1"), "idna-mapped-hex-ipv4", 0),
  \* characters that NFKC / IDNA mapping turns into URL delimiters (fullwidth solidus, question mark, number sign)
  H(S("a") \o <<65295>> \o S("b"), "idna-maps-to-delimiter", 0),
  H(S("a") \o <<65311>> \o S("b"), "idna-maps-to-delimiter", 0),
  H(S("a") \o <<65283>> \o S("b"), "idna-maps-to-delimiter", 0),
  \* characters that compatibility normalisation turns into a full stop (ONE DOT LEADER, SMALL FULL STOP), leading
  H(<<8228>> \o S("a.x"), "idna-maps-to-dot", 0),
  H(<<65106>> \o S("a.x"), "idna-maps-to-dot", 0),
  H(S("a") \o <<8228>> \o S("x"), "idna-maps-to-dot", 0),
  \* the last C0 control character inside the host
  H(S("a") \o <<31>> \o S("b"), "c0-us-inside", 0),
  H(S("a") \o <<1>> \o S("b"), "c0-soh-inside", 0),
  \* ---- IPv4 notations
  H(S("127.0.0.1"), "ipv4-dotted", 1),
  H(S("0x7f.0.0.1"), "ipv4-hex", 1),
  H(S("0177.0.0.1"), "ipv4-octal", 1),
  H(S("2130706433"), "ipv4-int", 1),
  H(S("0x7f000001"), "ipv4-hexint", 1),
  H(S("017700000001"), "ipv4-octint", 1),
  \* the forms with two and three parts (a.b: 8 + 24 bits, a.b.c: 8 + 8 + 16 bits)
  H(S("127.1"), "ipv4-2part", 1),
  H(S("127.0.1"), "ipv4-3part", 1),
  H(S("0x7f.1"), "ipv4-2part-hex", 1),
  H(S("127.0.256"), "ipv4-3part-not-this-address", 0),
  H(S("1.256.3"), "ipv4-3part-overflow", 0),
  H(S("1.16777216"), "ipv4-2part-overflow", 0),
  H(S("1.2.3.4"), "ipv4-dotted", 0),
  H(S("1.2.3"), "ipv4-3part", 0),
  H(S("1.2.3.4.5"), "ipv4-5part", 0),
  H(S("1.2.3."), "ipv4-trailing-dot", 0),
  H(S("1.2.3.256"), "ipv4-part-overflow", 0),
  H(S("256.0.0.1"), "ipv4-overflow", 0),
  H(S("4294967295"), "ipv4-int", 0),
  H(S("4294967296"), "ipv4-overflow", 0),
  H(S("99999999999999999999"), "ipv4-overflow", 0),
  H(S("08.0.0.1"), "ipv4-bad-octal", 0),
  H(S("0x.0.0.1"), "ipv4-bad-hex", 0),
  H(S("0"), "ipv4-int", 0),
  \* long runs of digits that continue as an ordinary name (nothing numeric about them)
  H(Rep(49, 40) \o S(".cdn.x"), "digits-then-name", 0),
  H(Rep(49, 32) \o S("a"), "digits-then-name", 0),
  H(Rep(49, 30) \o S(".") \o Rep(50, 30) \o S(".x"), "digits-then-name", 0),
  H(S("0x") \o Rep(102, 34) \o S("g.x"), "digits-then-name", 0),
  \* ---- IPv6 literals
  H(S("[::1]"), "ipv6", 2),
  H(S("[0:0:0:0:0:0:0:1]"), "ipv6-expanded", 2),
  H(S("[0000:0000:0000:0000:0000:0000:0000:0001]"), "ipv6-expanded", 2),
  H(S("[::0:1]"), "ipv6-partial", 2),
  H(S("[::0.0.0.1]"), "ipv6-v4suffix", 2),
  H(S("[2001:db8::1]"), "ipv6", 3),
  H(S("[2001:0db8:0:0:0:0:0:1]"), "ipv6-expanded", 3),
  H(S("[2001:db8:0::1]"), "ipv6-partial", 3),
  H(S("[::]"), "ipv6", 0),
  H(S("[1::]"), "ipv6", 0),
  H(S("[::ffff:1.2.3.4]"), "ipv6-v4mapped", 0),
  H(S("[1:2:3:4:5:6:7:8]"), "ipv6", 0),
  H(S("[1:0:0:2:0:0:0:3]"), "ipv6-two-runs", 0),
  H(S("[1:0:2:0:3:0:4:0]"), "ipv6-single-zeros", 0),
  H(S("[1:2:3:4:5:6:7::]"), "ipv6-trailing", 0),
  H(S("[fe80::1%a]"), "ipv6-scope", 0),
  H(S("[::1"), "ipv6-unclosed", 0),
  H(S("::1]"), "ipv6-unopened", 0),
  H(S("[]"), "ipv6-invalid", 0),
  H(S("[:::]"), "ipv6-invalid", 0),
  H(S("[1::2::3]"), "ipv6-invalid", 0),
  H(S("[1:2:3:4:5:6:7:8:9]"), "ipv6-invalid", 0),
  H(S("[12345::]"), "ipv6-invalid", 0),
  H(S("[x::]"), "ipv6-invalid", 0),
  H(S("[::1]a"), "ipv6-invalid", 0),
  H(S("[1.2.3.4]"), "ipv6-invalid", 0),
  H(S("[::1.2.3.256]"), "ipv6-invalid", 0),
  H(S("[::01.2.3.4]"), "ipv6-invalid", 0),
  H(S("[::1%]"), "ipv6-invalid", 0),
  H(S("[::1%]]"), "ipv6-zone-bracket", 0),
  H(S("[fe80::1%[eth0]"), "ipv6-zone-bracket", 0),
  H(S("[fe80::1%a]b]"), "ipv6-zone-bracket", 0),
  H(S("[[::1]]"), "ipv6-zone-bracket", 0),
  H(S("[fe80::1%a b]"), "ipv6-zone-space", 0),
  H(S("[fe80::1%a") \o <<1>> \o S("b]"), "ipv6-zone-control", 0),
  H(S("[fe80::1%a") \o <<EAC>> \o S("]"), "ipv6-zone-nonascii", 0),
  H(S("[fe80::1%a\\b]"), "ipv6-zone-backslash", 0),
  \* ---- forbidden characters, empty
  H(S("a b"), "forbidden-char", 0),
  H(S("a%41"), "forbidden-char", 0),
  H(S("a\\b"), "forbidden-char", 0),
  H(S("a[b"), "forbidden-char", 0),
  H(S("a]"), "forbidden-char", 0),
  H(<<>>, "empty", 0) >>

PC(t, k) == [t |-> t, k |-> k]
PortCat0 == <<
  PC(<<>>, "none"),
  PC(<<COLON>>, "default"),               \* + the scheme's default port
  PC(S(":81"), "other"),
  PC(S(":443"), "other"),                 \* the default of another scheme (of this one for https)
  PC(S(":80"), "other"),
  PC(S(":21"), "other"),
  PC(S(":0"), "zero"),
  PC(S(":65535"), "max"),
  PC(S(":65536"), "too-big"),
  PC(S(":99999999999"), "huge"),
  PC(S(":"), "empty"),
  PC(S(":a"), "alpha"),
  PC(S(":8a"), "mixed"),
  PC(S(":0"), "leading-zero-default"),    \* + the scheme's default port
  PC(S(": 81"), "space"),
  PC(S(":+81"), "plus"),
  PC(S(":81:82"), "two-ports") >>
NPorts == Len(PortCat0)
PortAt(dp, j) == IF PortCat0[j].k \in {"default", "leading-zero-default"} THEN PC(PortCat0[j].t \o dp, PortCat0[j].k)
                 ELSE PortCat0[j]

SegCat == << S("a"), S("A"), S("."), S(".."), <<>>, S("%2e"), S("%2E%2e"), S("%2F"), S("%aF"), <<EAC>>, S("a b"), S("x;y"),
            \* backslashes: no separators (dot segments hidden behind them are ordinary text)
            S("a\\..\\b"), S("\\.") >>
SegKind == << "plain", "upper", "dot", "dotdot", "empty", "escaped-dot", "escaped-dotdot", "escaped-slash",
              "mixed-case-escape", "nonascii", "space", "param", "backslash-dots", "backslash-dot" >>

QFClasses == <<QM, HASH, 97, PCT, 101, 70, SPC, EAC>>
SoupClasses == <<DOT, SLASH, COLON, AT, LBR, RBR, QM, HASH, PCT, BSL>>
Soup2Classes == SoupClasses \o <<97, 49, SPC>>

CrossPaths == << <<>>, S("/"), S("/a"), S("/a/"), S("/a/b"), S("/A"), S("/."), S("/.."), S("/a/.."), S("/a/../b"),
                 S("//a"), S("/a//b"), S("/%2e"), S("/%2E%2e/a"), S("/%2F"), S("/%aF"), <<SLASH, EAC>>, S("/a b"),
                 S("/x;y"), S("/a/./b/"), S("/Pub/File:1") >>
CrossQF == << <<>>, S("?"), S("?a"), S("?a#f"), S("#f"), S("? ") \o <<EAC>> \o S("%eF#?") >>

EncCat == << "utf-8", "latin-1", "ascii", "cp1252", "iso8859-15", "koi8-r", "cp437", "shift_jis", "euc_jp", "gbk",
             "big5", "utf-16", "utf-16-le", "utf-32", "cp500", "cp037", "utf-16-be", "utf-7", "hz",
             \* 7-bit stateful codecs in which ASCII text is itself but other characters become escape sequences
             \* followed by octets in the ASCII range ("/" and "." among them)
             "iso2022_jp", "iso2022_jp_ext", "iso2022_jp_2004", "iso2022_kr",
             \* labels that are no text codec at all (unknown names, WHATWG labels Python lacks, byte-to-byte codecs)
             "x-user-defined", "iso-8859-8-i", "utf-88", "hex", "rot13", "base64", "zlib" >>   \* incl. EBCDIC: not ASCII compatible either

\* ---- a structured input and the text it stands for
Base(sc, ui, ho, po, pa, qf, enc) ==
  [sc |-> sc.t, dp |-> sc.dp, ui |-> ui.t, ho |-> ho.t, hg |-> ho.g, po |-> po.t, pk |-> po.k, pa |-> pa, qf |-> qf,
   enc |-> enc, tags |-> <<sc.k, ui.k, ho.k, po.k>>]
Render(b) == b.sc \o b.ui \o b.ho \o b.po \o b.pa \o b.qf

\* hex digits of every %XX in lower / upper case
EscCase(s, F(_)) == [i \in 1..Len(s) |->
                      IF \/ (i >= 2 /\ i + 1 <= Len(s) /\ s[i - 1] = PCT /\ IsHex(s[i]) /\ IsHex(s[i + 1]))
                         \/ (i >= 3 /\ s[i - 2] = PCT /\ IsHex(s[i - 1]) /\ IsHex(s[i]))
                      THEN F(s[i]) ELSE s[i]]

tDOTSEG == S("/.")  tDDSEG == S("/x/..")  tFRAG == S("#f")
FirstOfGroup(g) == CHOOSE i \in 1..Len(HostCat) : HostCat[i].g = g /\ \A j \in 1..(i - 1) : HostCat[j].g # g

\* Variants(b): respellings that C10 says normalise to the same string, as <<kind, text>>
Variants(b) ==
  LET V(k, t) == IF t # Render(b) THEN << <<k, t>> >> ELSE <<>>
      others == IF b.hg = 0 \/ HostCat[FirstOfGroup(b.hg)].t # b.ho THEN {}
                ELSE {i \in 1..Len(HostCat) : HostCat[i].g = b.hg /\ HostCat[i].t # b.ho}
      RECURSIVE Nots(_)
      Nots(I) == IF I = {} THEN <<>>
                 ELSE LET i == MinOf(I) IN
                      << <<"notation", Render([b EXCEPT !.ho = HostCat[i].t])>> >> \o Nots(I \ {i})
  IN IF Len(b.ho) = 0 \/ (~Has(b.sc, COLON) /\ b.pk # "none") \/ Has(b.sc, DOT)
        \* (without a scheme, a colon further on makes everything before it the "scheme" - unless that has a dot)
        \/ (~Has(b.sc, COLON) /\ ~Has(b.ho, DOT) /\ (Has(b.pa, COLON) \/ Has(b.qf, COLON))) \/ StartsWith(LowerS(b.sc), tLOCALHOST \o <<COLON>>)
     THEN <<>>       \* without a host, "host:port" without a scheme, or a "scheme" with a dot (read as host name + empty
                     \* port): the structure is not what the parser sees
     ELSE
     V("case", Render([b EXCEPT !.sc = UpperS(@), !.ho = UpperS(@)]))
     \* (without a scheme, "h:80" reads as scheme "h" - but "a.x:80" is a host and its port: a scheme has no dot)
     \o (IF b.pk = "none" /\ Len(b.dp) > 0 /\ (Has(b.sc, COLON) \/ (b.sc \in {<<>>, S("//")} /\ Has(b.ho, DOT) /\ ~Has(b.ho, COLON))) THEN
         V("default-port", Render([b EXCEPT !.po = <<COLON>> \o b.dp])) ELSE <<>>)
     \o (IF StartsWith(b.pa, <<SLASH>>)
         THEN V("dot-segment", Render([b EXCEPT !.pa = tDOTSEG \o @])) \o V("dotdot-segment", Render([b EXCEPT !.pa = tDDSEG \o @]))
         ELSE <<>>)
     \* a dot segment at the END of the path names the directory: "/a/" = "/a/." = "/a/x/.."
     \o (IF StartsWith(b.pa, <<SLASH>>) /\ LastIs(b.pa, SLASH)
         THEN V("dot-segment-last", Render([b EXCEPT !.pa = @ \o S(".")])) \o V("dotdot-segment-last", Render([b EXCEPT !.pa = @ \o S("x/..")]))
         ELSE <<>>)
     \o (IF ~Has(b.qf, HASH) /\ ~IsSpace(Render(b)[Len(Render(b))])      \* (trailing white space is stripped)
         THEN V("fragment", Render(b) \o tFRAG) ELSE <<>>)
     \o V("escape-lower", Render([b EXCEPT !.pa = EscCase(@, LowerC), !.qf = EscCase(@, LowerC)]))
     \o V("escape-upper", Render([b EXCEPT !.pa = EscCase(@, UpperC), !.qf = EscCase(@, UpperC)]))
     \o Nots(others)

\* deterministic sampling: a cheap hash of the text
Hash(t) == LET RECURSIVE Hh(_, _)
               Hh(i, acc) == IF i > Len(t) THEN acc ELSE Hh(i + 1, (acc * 31 + t[i] + i) % 1000003)
           IN Hh(1, 7)
=============================================================================
