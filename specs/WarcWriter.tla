----------------------------- MODULE WarcWriter -----------------------------
(***************************************************************************)
(* Implementation-shaped model of wpull/warc/recorder.py (WARCRecorder,    *)
(* its HTTP / FTP recorder sessions) and of the part of warc/format.py it  *)
(* uses, as a sequence of FILE-SYSTEM OPERATIONS.                          *)
(*                                                                         *)
(* One action = one file-system operation of the code (os.path.exists,     *)
(* getsize, open, write, close, truncate, remove, move) or one await-free  *)
(* piece of bookkeeping between two of them.  What is on disk after an     *)
(* operation is exactly what a process killed there leaves behind: data    *)
(* written to a Python file object is on disk only after a flush, which    *)
(* happens at close() or - nondeterministically - when a buffer fills      *)
(* (AWrite(fl)).  Crash can fire anywhere; IOError at every journal /      *)
(* archive operation of an append, followed by the handler AS WRITTEN:     *)
(*     open(archive, 'wb'); truncate(before); raise; finally remove journal*)
(*                                                                         *)
(* Known defects are modelled as the code behaves; the repaired behaviour  *)
(* (fixes_proposed/C05-*, C06-*, C07-*.diff) sits behind the Fix*          *)
(* constants (sets of admitted variants):                                  *)
(*   rollback  FALSE: 'wb' truncates the archive to 0 before truncate(n)   *)
(*             -> earlier records become zero bytes      (DESIGN 6, #15)   *)
(*             TRUE: the archive is opened without truncation ('ab')       *)
(*   offset    FALSE: payload offset = length of a RE-SERIALISATION of the *)
(*             parsed response header                    (DESIGN 6, #14)   *)
(*             TRUE: length of the header block as received                *)
(*   cdx       0: header sniffing regex without DOTALL (only an empty      *)
(*             header block is recognised)               (DESIGN 6, #16);  *)
(*             1: regex repaired, still a 4 KiB window; 2: 64 KiB window   *)
(*   journal   FALSE: an I/O error while writing the journal leaves it     *)
(*             behind (it is created outside the try block);               *)
(*             TRUE: it is removed before the error is passed on           *)
(***************************************************************************)
EXTENDS WarcWriterProps, TLC

CONSTANTS
  MaxEx,          \* exchanges (sessions) per recorder process
  MaxRuns,        \* recorder processes run one after the other on the same directory
  MaxFault,       \* injected I/O errors per behaviour
  MaxCrash,       \* process deaths per behaviour
  ParamSet,       \* set of [cdx, log, digests, move : BOOLEAN, maxsize : Nat (0 = no rollover), compress, extra]
  Kinds,          \* subset of {"http", "rev", "ftp", "cut"}  (cut: the connection breaks inside the response body)
  Shapes,         \* response header shapes
  Bodies,         \* subset of {"data", "empty"}
  CanonShapes,    \* shapes whose re-serialisation is as long as the header block on the wire
  LongerShapes,   \* shapes whose re-serialisation is longer than the header block on the wire
  BigShapes,      \* header block longer than 4 KiB
  EmptyShapes,    \* empty header block
  MaxSeq,         \* highest sequence number of a numbered file
  LenInfo, LenRec,\* abstract length of a warcinfo record / of any other record (the trace spec binds observed lengths)
  FixRollbackSet, FixOffsetSet, FixCdxSet, FixJournalSet,
  FixVariants     \* if not {}: the admitted variants as a set of [rollback, offset, cdx, journal] records

LenOf(t) == IF t = "warcinfo" THEN LenInfo ELSE LenRec

FPlain  == 0
FSeq(n) == n + 1
FMeta   == MaxSeq + 2
Files   == 0..FMeta

VARIABLES
  par, fix,
  disk,        \* [Files -> Seq(member)]   complete members (and junk) on disk
  tail,        \* [Files -> BOOLEAN]       a torn piece of a member follows them
  jr,          \* [Files -> [st, n]]       the journal file <archive>-wpullinc
  cdx,         \* Seq(line)                the CDX file (data lines)
  ex,          \* SUBSET Files             archive paths that exist in the working directory
  cdxEx,       \* BOOLEAN                  the CDX file exists in the working directory
  pc,          \* "off" | "idle" | label of the next file-system operation
  todo,        \* pending steps of the current activity: Seq(<<op, a, b, c>>)
  cur, seq, winfo, appending,      \* recorder fields: _warc_filename, _sequence_num, warcinfo id, params.appending
  rec,         \* record being appended
  ap,          \* append-local: before, after, k (writes so far), bef / btail (content before), cls (failing op)
  nextRid, runs, exch, faults, crashes,
  lastFault,   \* observation: [cls, before, after, j] at the moment an I/O error left write_record
  overJournal  \* observation: number of start-ups that went ahead although a journal existed

vars == <<par, fix, disk, tail, jr, cdx, ex, cdxEx, pc, todo, cur, seq, winfo, appending, rec, ap,
          nextRid, runs, exch, faults, crashes, lastFault, overJournal>>

fsvars  == <<disk, tail, jr, cdx, ex, cdxEx>>
recvars == <<cur, seq, winfo, appending>>
budvars == <<runs, exch, faults, crashes>>
obsvars == <<lastFault, overJournal>>

JAbs   == [st |-> "absent", n |-> 0]
NoRec  == [ty |-> "none", rid |-> 0, wid |-> 0, pdo |-> "none", tr |-> "na", hc |-> "na", ok |-> FALSE, len |-> 0]
Torn   == [NoRec EXCEPT !.len = 1]
Junk(n) == [NoRec EXCEPT !.len = n]
NoAp   == [before |-> 0, after |-> 0, k |-> 0, bef |-> <<>>, btail |-> FALSE, cls |-> "none", cbef |-> <<>>, cin |-> FALSE]
NoFault == [cls |-> "none", before |-> <<>>, after |-> <<>>, j |-> JAbs]

View(f)  == IF tail[f] THEN Append(disk[f], Torn) ELSE disk[f]
ViewAll  == [f \in Files |-> View(f)]
FixSpace == IF FixVariants # {} THEN FixVariants
            ELSE [rollback : FixRollbackSet, offset : FixOffsetSet, cdx : FixCdxSet, journal : FixJournalSet]

InitWith(p, fx) ==
  /\ par = p /\ fix = fx
  /\ disk = [f \in Files |-> <<>>] /\ tail = [f \in Files |-> FALSE] /\ jr = [f \in Files |-> JAbs]
  /\ cdx = <<>> /\ ex = {} /\ cdxEx = FALSE
  /\ pc = "off" /\ todo = <<>>
  /\ cur = 0 /\ seq = 0 /\ winfo = 0 /\ appending = FALSE
  /\ rec = NoRec /\ ap = NoAp
  /\ nextRid = 1 /\ runs = 0 /\ exch = 0 /\ faults = 0 /\ crashes = 0
  /\ lastFault = NoFault /\ overJournal = 0

Init == \E p \in ParamSet, fx \in FixSpace : InitWith(p, fx)

-----------------------------------------------------------------------------
S(op, a, b) == <<op, a, b, "">>
S4(op, a, b, c) == <<op, a, b, c>>
Step(name)  == pc = "idle" /\ todo # <<>> /\ Head(todo)[1] = name
Ready       == pc = "idle" /\ todo = <<>>

HdrClass(shape) == IF shape \in EmptyShapes THEN "empty" ELSE IF shape \in BigShapes THEN "over4k" ELSE "short"
WireOffset(shape) == fix.offset \/ shape \in CanonShapes

\* body: "empty" | "data".  With an empty body an offset that is too LARGE still yields the digest of nothing.
NewRec(ty, shape, body, l) ==
  [ty  |-> ty,
   rid |-> IF ty = "warcinfo" THEN winfo ELSE nextRid,
   wid |-> winfo,
   pdo |-> IF ~par.digests \/ ty \notin {"request", "response", "revisit"} THEN "none"
           ELSE IF ty = "request" \/ WireOffset(shape) THEN "wire"
           ELSE IF body = "empty" /\ shape \in LongerShapes THEN "wire" ELSE "other",
   tr  |-> IF ty # "revisit" THEN "na" ELSE IF WireOffset(shape) THEN "wire" ELSE "other",
   hc  |-> HdrClass(shape), ok |-> TRUE, len |-> l]

(* ------------------------------------------------------------------------ *)
(* WARCRecorder.__init__                                                    *)
(* _check_journals_and_maybe_raise; _start_new_warc_file; _start_new_cdx_file *)
Startup(app) ==
  /\ pc = "off" /\ runs < MaxRuns
  /\ (runs > 0 /\ par.maxsize > 0) => app       \* stale numbered files of an overwritten run are not this run's output
  /\ ~(par.move /\ runs > 0)
  /\ runs' = runs + 1 /\ exch' = 0
  /\ IF \E f \in Files : jr[f].st # "absent"
     THEN UNCHANGED <<pc, todo, appending, seq>>                    \* raise OSError('... is incomplete')
     ELSE /\ appending' = app /\ seq' = 0 /\ pc' = "idle"
          /\ todo' = <<S("newfile", "seq", "")>> \o (IF par.cdx THEN <<S("cdxinit", "", "")>> ELSE <<>>)
                     \o <<S("started", "", "")>>
  /\ UNCHANGED <<par, fix, fsvars, cur, winfo, rec, ap, nextRid, faults, crashes, obsvars>>

\* _start_new_warc_file: pick the file name (skipping existing sequence numbers when appending with max_size),
\* allocate the warcinfo record
NewFile ==
  /\ Step("newfile")
  /\ LET meta == Head(todo)[2] = "meta"
         n == IF par.maxsize > 0 /\ ~meta /\ appending
              THEN CHOOSE k \in seq..(MaxSeq + 1) :
                      (k > MaxSeq \/ FSeq(k) \notin ex) /\ \A q \in seq..(k - 1) : FSeq(q) \in ex
              ELSE seq
         f == IF par.maxsize = 0 THEN FPlain ELSE IF meta THEN FMeta ELSE FSeq(n)
     IN /\ n <= MaxSeq
        /\ seq' = n /\ cur' = f
        /\ winfo' = nextRid /\ nextRid' = nextRid + 1
        /\ todo' = (IF appending THEN <<>> ELSE <<S("trunc", "", "")>>)
                   \o <<S("append", "warcinfo", "none")>> \o Tail(todo)
  /\ UNCHANGED <<par, fix, fsvars, pc, appending, rec, ap, budvars, obsvars>>

\* wpull.util.truncate_file(self._warc_filename)
Trunc ==
  /\ Step("trunc")
  /\ disk' = [disk EXCEPT ![cur] = <<>>] /\ tail' = [tail EXCEPT ![cur] = FALSE] /\ ex' = ex \cup {cur}
  /\ todo' = Tail(todo)
  /\ UNCHANGED <<par, fix, jr, cdx, cdxEx, pc, recvars, rec, ap, nextRid, budvars, obsvars>>

\* _start_new_cdx_file
CdxInit ==
  /\ Step("cdxinit")
  /\ IF ~appending
     THEN cdx' = <<>> /\ cdxEx' = TRUE /\ pc' = "c_hdr" /\ UNCHANGED todo
     ELSE IF ~cdxEx THEN cdxEx' = TRUE /\ pc' = "c_hdr" /\ UNCHANGED <<cdx, todo>>
                    ELSE todo' = Tail(todo) /\ UNCHANGED <<cdx, cdxEx, pc>>
  /\ UNCHANGED <<par, fix, disk, tail, jr, ex, recvars, rec, ap, nextRid, budvars, obsvars>>

\* _write_cdx_header: open, three writes, close
CHdr(done) ==
  /\ pc = "c_hdr"
  /\ IF done THEN pc' = "idle" /\ todo' = Tail(todo) ELSE UNCHANGED <<pc, todo>>
  /\ UNCHANGED <<par, fix, fsvars, recvars, rec, ap, nextRid, budvars, obsvars>>

Started ==
  /\ Step("started") /\ todo' = Tail(todo)
  /\ UNCHANGED <<par, fix, fsvars, pc, recvars, rec, ap, nextRid, budvars, obsvars>>

(* ------------------------------------------------------------------------ *)
(* sessions: HTTP (request record, response | revisit record), FTP (resource *)
(* record at end_transfer, then the control conversation as metadata), then  *)
(* BaseWARCRecorderSession.close -> flush_session                            *)
SessItems(kind, shape, body) ==
  (CASE kind = "http" -> <<S("append", "request", shape), S4("append", "response", shape, body)>>
     [] kind = "rev"  -> <<S("append", "request", shape),
                           S4("append", IF par.digests THEN "revisit" ELSE "response", shape, body)>>
     [] kind = "ftp"  -> <<S("append", "resource", "none"), S("append", "metadata", "none")>>
     [] kind = "cut"  -> <<S("append", "request", shape)>>)            \* end_response never happens
  \o <<S("flush", "", ""), S("sessend", "", "")>>

Session(kind, shape, body) ==
  /\ Ready /\ exch < MaxEx
  /\ exch' = exch + 1
  /\ todo' = SessItems(kind, shape, body)
  /\ UNCHANGED <<par, fix, fsvars, pc, recvars, rec, ap, nextRid, runs, faults, crashes, obsvars>>

\* two workers share the recorder: HTTP session A has written its request record when session B runs from
\* beginning to end (including its flush, which may start the next archive file); A's response arrives afterwards
\* and goes wherever the recorder is writing by then.  (Records are written by synchronous calls: sessions
\* interleave only at record granularity.)
SessionOvl(shape, body, kind2, shape2, body2) ==
  /\ Ready /\ exch + 1 < MaxEx
  /\ exch' = exch + 2
  /\ todo' = <<S("append", "request", shape)>> \o SessItems(kind2, shape2, body2)
             \o <<S4("append", "response", shape, body), S("flush", "", ""), S("sessend", "", "")>>
  /\ UNCHANGED <<par, fix, fsvars, pc, recvars, rec, ap, nextRid, runs, faults, crashes, obsvars>>

\* flush_session: os.path.getsize(current) > max_size -> next sequence number, (move), new file + warcinfo
Flush ==
  /\ Step("flush")
  /\ IF par.maxsize > 0 /\ Size(View(cur)) > par.maxsize
     THEN /\ seq' = seq + 1
          /\ todo' = (IF par.move THEN <<S("move", "a", "")>> ELSE <<>>) \o <<S("newfile", "seq", "")>> \o Tail(todo)
     ELSE todo' = Tail(todo) /\ UNCHANGED seq
  /\ UNCHANGED <<par, fix, fsvars, pc, cur, winfo, appending, rec, ap, nextRid, budvars, obsvars>>

\* shutil.move(file, move_to): the path no longer exists in the working directory
Move ==
  /\ Step("move")
  /\ IF Head(todo)[2] = "a" THEN ex' = ex \ {cur} /\ UNCHANGED cdxEx ELSE cdxEx' = FALSE /\ UNCHANGED ex
  /\ todo' = Tail(todo)
  /\ UNCHANGED <<par, fix, disk, tail, jr, cdx, pc, recvars, rec, ap, nextRid, budvars, obsvars>>

SessEnd ==
  /\ Step("sessend") /\ todo' = Tail(todo)
  /\ UNCHANGED <<par, fix, fsvars, pc, recvars, rec, ap, nextRid, budvars, obsvars>>

\* WARCRecorder.close: log record (into the -meta file when max_size is set), moves
Close ==
  /\ Ready
  /\ todo' = (IF par.log
              THEN (IF par.maxsize > 0
                    THEN (IF par.move THEN <<S("move", "a", "")>> ELSE <<>>) \o <<S("newfile", "meta", "")>>
                    ELSE <<>>)
                   \o <<S("append", "resource", "none")>>
              ELSE <<>>)
             \* the last archive is moved with or without a log record in it (was: only after the log record)
             \o (IF par.move THEN <<S("move", "a", "")>> ELSE <<>>)
             \o (IF par.cdx /\ par.move THEN <<S("move", "c", "")>> ELSE <<>>)
             \o <<S("closed", "", "")>>
  /\ UNCHANGED <<par, fix, fsvars, pc, recvars, rec, ap, nextRid, budvars, obsvars>>

Closed ==
  /\ Step("closed") /\ pc' = "off" /\ todo' = <<>>
  /\ UNCHANGED <<par, fix, fsvars, recvars, rec, ap, nextRid, budvars, obsvars>>

(* ------------------------------------------------------------------------ *)
(* write_record: the append, one file-system operation per action           *)
BeginAppend(l) ==
  /\ Step("append")
  /\ rec' = NewRec(Head(todo)[2], Head(todo)[3], Head(todo)[4], l)
  /\ nextRid' = IF Head(todo)[2] = "warcinfo" THEN nextRid ELSE nextRid + 1
  /\ ap' = [NoAp EXCEPT !.bef = disk[cur], !.btail = tail[cur]]
  /\ pc' = "a_exists"
  /\ UNCHANGED <<par, fix, fsvars, todo, recvars, budvars, obsvars>>

DoAppend == Step("append") /\ BeginAppend(LenOf(Head(todo)[2]))

Goto(l) == pc' = l /\ UNCHANGED <<par, fix, todo, recvars, rec, nextRid, budvars, obsvars>>

AExists  == pc = "a_exists" /\ Goto(IF cur \in ex THEN "a_getsize" ELSE "j_open") /\ UNCHANGED <<fsvars, ap>>
AGetsize == pc = "a_getsize" /\ Goto("j_open") /\ ap' = [ap EXCEPT !.before = Size(View(cur))] /\ UNCHANGED fsvars

JOpen  == /\ pc = "j_open" /\ Goto("j_w")
          /\ jr' = [jr EXCEPT ![cur] = [st |-> "empty", n |-> 0]] /\ ap' = [ap EXCEPT !.k = 0]
          /\ UNCHANGED <<disk, tail, cdx, ex, cdxEx>>
JWrite == /\ pc = "j_w" /\ Goto("j_w") /\ ap' = [ap EXCEPT !.k = IF @ < 2 THEN @ + 1 ELSE @] /\ UNCHANGED fsvars
JClose == /\ pc = "j_w" /\ Goto("a_open")
          /\ jr' = [jr EXCEPT ![cur] = [st |-> "offset", n |-> ap.before]]
          /\ UNCHANGED <<disk, tail, cdx, ex, cdxEx, ap>>

AOpen  == /\ pc = "a_open" /\ Goto("a_write") /\ ex' = ex \cup {cur}
          /\ UNCHANGED <<disk, tail, jr, cdx, cdxEx, ap>>
\* data handed to the file object; fl: a buffer filled up and part of the member reached the disk
AWrite(fl) == /\ pc = "a_write" /\ Goto("a_write")
              /\ tail' = [tail EXCEPT ![cur] = @ \/ fl]
              /\ UNCHANGED <<disk, jr, cdx, ex, cdxEx, ap>>
\* close: everything flushed (gzip trailer included): the member is complete
\* The CDX line belongs to the append: it is written while the journal still exists, and an error there takes the
\* record back as well (the line itself too).
WithLine == par.cdx /\ rec.ty = "response"
\* (the constructor writes the warcinfo record of the first file BEFORE it sets up the CDX index)
CdxReady == par.cdx /\ ~\E i \in 1..Len(todo) : todo[i][1] = "cdxinit"
AClose == /\ pc = "a_write" /\ Goto(IF CdxReady THEN "a_getsize2" ELSE "j_remove")
          /\ disk' = [disk EXCEPT ![cur] = Append(@, rec)] /\ tail' = [tail EXCEPT ![cur] = FALSE]
          /\ UNCHANGED <<jr, cdx, ex, cdxEx, ap>>
AGetsize2 == /\ pc = "a_getsize2" /\ Goto("c_getsize")
             /\ ap' = [ap EXCEPT !.after = Size(View(cur))] /\ UNCHANGED fsvars
CGetsize == /\ pc = "c_getsize" /\ Goto(IF WithLine THEN "c_open" ELSE "j_remove")    \* (only response records get a line)
            /\ ap' = [ap EXCEPT !.cbef = cdx, !.cin = TRUE] /\ UNCHANGED fsvars

CdxHdrOK(hc) == CASE fix.cdx = 0 -> hc = "empty" [] fix.cdx = 1 -> hc # "over4k" [] OTHER -> TRUE
Line == [rid |-> rec.rid, f |-> cur, off |-> ap.before, len |-> ap.after - ap.before, hdr |-> CdxHdrOK(rec.hc)]

COpen  == pc = "c_open" /\ Goto("c_w") /\ UNCHANGED <<fsvars, ap>>
CWrite == pc = "c_w" /\ Goto("c_w") /\ UNCHANGED <<fsvars, ap>>
CClose == /\ pc = "c_w" /\ Goto("j_remove") /\ cdx' = Append(cdx, Line)
          /\ UNCHANGED <<disk, tail, jr, ex, cdxEx, ap>>
JRemove == /\ pc = "j_remove" /\ Goto("a_done")
           /\ jr' = [jr EXCEPT ![cur] = JAbs] /\ UNCHANGED <<disk, tail, cdx, ex, cdxEx, ap>>

ADone == /\ pc = "a_done" /\ pc' = "idle" /\ todo' = Tail(todo)
         /\ UNCHANGED <<par, fix, fsvars, recvars, rec, ap, nextRid, budvars, obsvars>>

(* ------------------------------------------------------------------------ *)
(* I/O errors (one operation raises OSError) and the code's handling        *)
Fail(l, c) ==
  /\ faults < MaxFault /\ faults' = faults + 1
  /\ pc' = l /\ ap' = [ap EXCEPT !.cls = c]
  /\ UNCHANGED <<par, fix, todo, recvars, rec, nextRid, runs, exch, crashes, obsvars>>

\* the journal is written OUTSIDE the try block: the error leaves write_record at once
JFailDest == IF fix.journal THEN "j_fremove" ELSE "raise"
ErrJOpen  == pc = "j_open" /\ Fail("raise", "journal") /\ UNCHANGED fsvars
ErrJWrite == pc = "j_w" /\ Fail("j_fclose", "journal") /\ UNCHANGED fsvars         \* with-block closes the file
JFClose   == /\ pc = "j_fclose" /\ Goto(JFailDest)
             /\ jr' = [jr EXCEPT ![cur] = [st |-> IF ap.k = 0 THEN "empty" ELSE "bad", n |-> 0]]
             /\ UNCHANGED <<disk, tail, cdx, ex, cdxEx, ap>>
ErrJClose == /\ pc = "j_w" /\ Fail(JFailDest, "journal")                           \* error reported by close()
             /\ jr' = [jr EXCEPT ![cur] = [st |-> "offset", n |-> ap.before]]
             /\ UNCHANGED <<disk, tail, cdx, ex, cdxEx>>

\* inside the try block: except (OSError, IOError): rollback; raise; finally: remove the journal
ErrAOpen  == pc = "a_open" /\ Fail("r_open", "archive") /\ UNCHANGED fsvars
ErrAWrite == pc = "a_write" /\ Fail("a_fclose", "archive") /\ UNCHANGED fsvars     \* with-block closes the file
AFClose(fl) == /\ pc = "a_fclose" /\ Goto("r_open")
               /\ tail' = [tail EXCEPT ![cur] = @ \/ fl]                          \* what was buffered reaches the disk
               /\ UNCHANGED <<disk, jr, cdx, ex, cdxEx, ap>>
ErrAClose == /\ pc = "a_write" /\ Fail("r_open", "archive")                        \* error reported by close()
             /\ disk' = [disk EXCEPT ![cur] = Append(@, rec)] /\ tail' = [tail EXCEPT ![cur] = FALSE]
             /\ UNCHANGED <<jr, cdx, ex, cdxEx>>

\* errors while the CDX line is written: same except clause
ErrCOpen  == pc = "c_open" /\ Fail("r_open", "cdx") /\ UNCHANGED fsvars
ErrCWrite == pc = "c_w" /\ Fail("c_fclose", "cdx") /\ UNCHANGED fsvars           \* with-block closes the file
CFClose(fl) == /\ pc = "c_fclose" /\ Goto("r_open")
               /\ cdx' = IF fl THEN Append(cdx, [Line EXCEPT !.rid = 0]) ELSE cdx   \* part of the line may be on disk
               /\ UNCHANGED <<disk, tail, jr, ex, cdxEx, ap>>
ErrCClose == /\ pc = "c_w" /\ Fail("r_open", "cdx")                              \* error reported by close()
             /\ cdx' = Append(cdx, Line) /\ UNCHANGED <<disk, tail, jr, ex, cdxEx>>

\* open(self._warc_filename, mode='wb')  -  'wb' TRUNCATES the archive
ROpen  == /\ pc = "r_open" /\ Goto("r_trunc") /\ ex' = ex \cup {cur}
          /\ IF fix.rollback THEN UNCHANGED <<disk, tail>>
             ELSE disk' = [disk EXCEPT ![cur] = <<>>] /\ tail' = [tail EXCEPT ![cur] = FALSE]
          /\ UNCHANGED <<jr, cdx, cdxEx, ap>>
\* out_file.truncate(before_offset): cuts back - or, after 'wb', EXTENDS the empty file with zero bytes
RTrunc == /\ pc = "r_trunc" /\ Goto("r_close")
          /\ IF fix.rollback
             THEN disk' = [disk EXCEPT ![cur] = ap.bef] /\ tail' = [tail EXCEPT ![cur] = ap.btail]
             ELSE /\ disk' = [disk EXCEPT ![cur] = IF ap.before > 0 THEN <<Junk(ap.before)>> ELSE <<>>]
                  /\ tail' = [tail EXCEPT ![cur] = FALSE]
          /\ UNCHANGED <<jr, cdx, ex, cdxEx, ap>>
RClose == pc = "r_close" /\ Goto(IF ap.cin THEN "rc_open" ELSE "j_fremove") /\ UNCHANGED <<fsvars, ap>>
\* the CDX index is cut back to its length before the line
RCOpen  == pc = "rc_open" /\ Goto("rc_trunc") /\ UNCHANGED <<fsvars, ap>>
RCTrunc == /\ pc = "rc_trunc" /\ Goto("rc_close") /\ cdx' = ap.cbef
           /\ UNCHANGED <<disk, tail, jr, ex, cdxEx, ap>>
RCClose == pc = "rc_close" /\ Goto("j_fremove") /\ UNCHANGED <<fsvars, ap>>
JFRemove == /\ pc = "j_fremove" /\ Goto("raise")
            /\ jr' = [jr EXCEPT ![cur] = JAbs] /\ UNCHANGED <<disk, tail, cdx, ex, cdxEx, ap>>

\* os.remove(journal) itself fails: the record is complete, the journal stays
ErrJRemove == pc = "j_remove" /\ Fail("raise", "unlink") /\ UNCHANGED fsvars

\* the exception leaves write_record: the rest of the session is skipped (its close() still runs flush_session);
\* outside a session (constructor, close()) the process gives up
Raise ==
  /\ pc = "raise"
  /\ lastFault' = [cls |-> ap.cls, before |-> IF ap.btail THEN Append(ap.bef, Torn) ELSE ap.bef,
                   after |-> View(cur), j |-> jr[cur]]
  /\ LET I == {i \in 2..Len(todo) : todo[i][1] \in {"flush", "sessend"}} IN
       IF I # {}
       THEN LET i == CHOOSE x \in I : \A y \in I : x <= y IN
              pc' = "idle" /\ todo' = SubSeq(todo, i, Len(todo))
       ELSE pc' = "off" /\ todo' = <<>>
  /\ UNCHANGED <<par, fix, fsvars, recvars, rec, ap, nextRid, budvars, overJournal>>

\* the process dies: nothing that was only in its buffers reaches the disk
Crash ==
  /\ pc # "off" /\ crashes < MaxCrash /\ crashes' = crashes + 1
  /\ pc' = "off" /\ todo' = <<>>
  /\ UNCHANGED <<par, fix, fsvars, recvars, rec, ap, nextRid, runs, exch, faults, obsvars>>

-----------------------------------------------------------------------------
SysNext ==
  \/ NewFile \/ Trunc \/ CdxInit \/ (\E d \in BOOLEAN : CHdr(d)) \/ Started
  \/ Flush \/ Move \/ SessEnd \/ Closed
  \/ DoAppend
  \/ AExists \/ AGetsize \/ JOpen \/ JWrite \/ JClose \/ AOpen \/ (\E fl \in BOOLEAN : AWrite(fl)) \/ AClose
  \/ JRemove \/ AGetsize2 \/ CGetsize \/ COpen \/ CWrite \/ CClose \/ ADone
  \/ JFClose \/ (\E fl \in BOOLEAN : AFClose(fl)) \/ (\E fl \in BOOLEAN : CFClose(fl))
  \/ ROpen \/ RTrunc \/ RClose \/ RCOpen \/ RCTrunc \/ RCClose \/ JFRemove \/ Raise

EnvNext ==
  \/ (\E a \in BOOLEAN : Startup(a))
  \/ (\E k \in Kinds, s \in Shapes, b \in Bodies : Session(k, s, b))
  \/ (\E s \in Shapes, b \in Bodies, k2 \in Kinds, s2 \in Shapes, b2 \in Bodies : SessionOvl(s, b, k2, s2, b2))
  \/ Close
  \/ ErrJOpen \/ ErrJWrite \/ ErrJClose \/ ErrAOpen \/ ErrAWrite \/ ErrAClose \/ ErrJRemove
  \/ ErrCOpen \/ ErrCWrite \/ ErrCClose
  \/ Crash

Next == SysNext \/ EnvNext
Spec == Init /\ [][Next]_vars

-----------------------------------------------------------------------------
(* Properties.  Quiet: nothing in flight; Clean: no fault, no crash so far.  *)
Quiet == Ready \/ pc = "off"
Clean == faults = 0 /\ crashes = 0

\* C06
InvCrashOK      == CrashOK(ViewAll, jr, Files)
InvFaultContent == FaultContentOK(lastFault.cls, lastFault.before, lastFault.after)
InvFaultJournal == FaultJournalOK(lastFault.cls, lastFault.j)
InvStartup      == overJournal = 0
InvJournalNames == faults = 0 => JournalNamesOK(jr, Files, cur, IF ap.btail THEN Append(ap.bef, Torn) ELSE ap.bef)
\* C05
InvFilesValid   == (Quiet /\ Clean) => \A f \in Files : ValidSeq(View(f))
InvIdsUnique    == (Quiet /\ Clean) => IdsUnique(ViewAll, Files)
InvWarcinfoPtr  == (Quiet /\ Clean) => \A f \in Files : WarcinfoPtrOK(View(f))
InvPayloadRange == (Quiet /\ Clean) => \A f \in Files : PayloadRangeOK(View(f))
InvRevisitCut   == (Quiet /\ Clean) => \A f \in Files : RevisitCutOK(View(f))
\* C07
CdxQuiet == Quiet /\ Clean /\ par.cdx
InvCdxOne     == CdxQuiet => CdxOnePerResponse(ViewAll, Files, cdx)
InvCdxStray   == CdxQuiet => CdxNoStrayLine(ViewAll, Files, cdx)
InvCdxAddress == CdxQuiet => CdxAddressOK(ViewAll, Files, cdx)
InvCdxHeader  == CdxQuiet => CdxHeaderOK(cdx)

(* The same with the KNOWN DEVIATIONS of the code as it is (DESIGN 3.4): the design check of the unrepaired  *)
(* variant passes with exactly these and no others.                                                          *)
Dev15 == ~fix.rollback
DevJ  == ~fix.journal
Dev14 == ~fix.offset
AsIsCrashOK      == InvCrashOK \/ (Dev15 /\ faults > 0)
AsIsFaultContent == InvFaultContent \/ (Dev15 /\ lastFault.cls \in {"archive", "cdx"})
AsIsFaultJournal == InvFaultJournal \/ (DevJ /\ lastFault.cls = "journal")
AsIsPayloadRange == (Quiet /\ Clean) =>
                      \A f \in Files : \A i \in 1..Len(View(f)) :
                         LET m == View(f)[i] IN m.pdo \in {"none", "wire"} \/ (Dev14 /\ m.ty \in {"response", "revisit"})
AsIsRevisitCut   == InvRevisitCut \/ Dev14
AsIsCdxHeader    == CdxQuiet => \A j \in 1..Len(cdx) : cdx[j].hdr \/ fix.cdx < 2

TypeOK ==
  /\ pc \in {"off", "idle", "a_exists", "a_getsize", "j_open", "j_w", "a_open", "a_write", "j_remove", "a_getsize2",
             "c_getsize", "c_open", "c_w", "c_fclose", "rc_open", "rc_trunc", "rc_close", "a_done", "c_hdr", "j_fclose", "a_fclose", "r_open", "r_trunc", "r_close", "j_fremove",
             "raise"}
  /\ seq \in 0..MaxSeq /\ cur \in Files /\ faults \in 0..MaxFault /\ crashes \in 0..MaxCrash
  /\ \A f \in Files : jr[f].st \in {"absent", "empty", "bad", "offset"}

\* bound for the design check
Bounded == nextRid <= 40
=============================================================================
