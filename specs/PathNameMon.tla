---------------------------- MODULE PathNameMon ----------------------------
(***************************************************************************)
(* Observation monitor for C15.  One trace = one path choice of the REAL   *)
(* code (PathNamer.safe_filename / PathNamer.get_filename / the writer     *)
(* session's process_request + process_response): ev = << record >> with   *)
(*   oc      "value" | "valueerror" | "other" | "hang"                     *)
(*   pre     the chosen path starts with  root + "/"                       *)
(*   parts   the remainder split on the real separator "/"                 *)
(*   inside  os.path.realpath(chosen) lies below os.path.realpath(root)    *)
(*   os, nc  the OS mode and the control-character restriction in force    *)
(* The clauses are evaluated on these observations only: VIOLATION.        *)
(***************************************************************************)
EXTENDS PathName, Json, IOUtils, TLCExt

Batch == JsonDeserialize(IOEnv.TRACE_FILE)
NT    == Len(Batch)

VARIABLES tid, l, cur
mvars == <<tid, l, cur>>
Ev == Batch[tid].ev
None == [oc |-> "none"]

MInit == tid \in 1..NT /\ l = 1 /\ cur = None
MNext == l <= Len(Ev) /\ l' = l + 1 /\ UNCHANGED tid /\ cur' = Ev[l]
MSpec == MInit /\ [][MNext]_mvars

C15Returns   == cur.oc \in {"none", "value"}
C15Prefixed  == cur.oc = "value" => cur.pre
C15Contained == (cur.oc = "value" /\ cur.pre) => Contained(cur.parts, cur.os, cur.nc)
C15Inside    == cur.oc = "value" => cur.inside

B(p, n) == IF p THEN 0 ELSE n
BadMask == B(C15Returns, 1) + B(C15Prefixed, 2) + B(C15Contained, 4) + B(C15Inside, 8)

ASSUME \A i \in 1..(2 * NT) : TLCSet(i, 0)
Record ==
  /\ IF TLCGet(tid) < l THEN TLCSet(tid, l) ELSE TRUE
  /\ IF BadMask # 0 /\ TLCGet(NT + tid) = 0 THEN TLCSet(NT + tid, BadMask * 100000 + l) ELSE TRUE
Post == PrintT(<<"VERDICTS_BEGIN",
                 [i \in 1..NT |-> <<TLCGet(i) - 1, TLCGet(NT + i) \div 100000, TLCGet(NT + i) % 100000>>],
                 "VERDICTS_END">>)
=============================================================================
