----------------------------- MODULE ScopeCheck -----------------------------
(***************************************************************************)
(* Design check of Scope.tla: TLC enumerates a full product of abstract    *)
(* configurations and link records (as initial states) and checks the      *)
(* structural theorems the property statement relies on.                   *)
(***************************************************************************)
EXTENDS Scope

CONSTANT Small   \* TRUE: a reduced product for the quick tier
VARIABLES c, r
B == BOOLEAN
B2 == IF Small THEN {FALSE} ELSE BOOLEAN
Init ==
  /\ c \in [recursive : B, pagereq : B, level : 0..2, prlevel : 0..1, noparent : B, spanhosts : B, spanpr : B2,
            spanlp : {FALSE}, domacc : {FALSE}, domrej : B2, hostacc : {FALSE}, hostrej : {FALSE}, httpsonly : B2,
            followftp : {FALSE}, tries : 0..1, rxacc : {FALSE}, rxrej : B2, diracc : {FALSE}, dirrej : {FALSE},
            sufacc : {FALSE}, sufrej : {FALSE}, strong : B]
  /\ r \in [scheme : {"http", "https", "ftp"}, pscheme : {"http"}, hostc : {"start", "other", "rej"},
            phostc : {"start"}, sameport : {TRUE}, level : 0..3, inline : 0..2, try : 0..1,
            prel : {"same", "above", "elsewhere"}, rxa : {TRUE}, rxr : B2, da : {TRUE}, dr : {FALSE}, sfa : {TRUE},
            sfr : {FALSE}, noname : {FALSE}, redirect : B]
Next == UNCHANGED <<c, r>>
Spec == Init /\ [][Next]_<<c, r>>

\* the waiver never applies when any other rule fails, and only to redirects with strong redirects on
WaiverNarrow == Waiver(c, r) => (r.redirect /\ c.strong /\ \A n \in Active(c) \ {"SpanHosts"} : F(n, c, r))
\* whatever is requested passes every active rule except possibly the span-hosts rule
RequestPassesRules == MayRequest(c, r) => \A n \in Active(c) \ {"SpanHosts"} : F(n, c, r)
\* without the documented exception the verdict is the plain conjunction
NoRedirectNoWaiver == ~r.redirect => (MayRequest(c, r) <=> \A n \in Active(c) : F(n, c, r))
\* a start URL (depth 0) on a start host is never rejected by the recursion, level or span-hosts rules
StartPasses == (r.level = 0 /\ r.inline = 0 /\ r.hostc = "start") =>
                  (F("Recursive", c, r) /\ F("SpanHosts", c, r) /\ (("Level" \in Active(c)) => F("Level", c, r)))
\* the retry limit is a hard bound
TriesHard == (c.tries > 0 /\ r.try >= c.tries) => ~MayRequest(c, r)
=============================================================================
