---------------------------- MODULE URLTableGen ----------------------------
(***************************************************************************)
(* Scenario generation (spec -> code).  URLTable.tla plus the history of   *)
(* calls.  Two uses:                                                       *)
(*  * exhaustive, with VIEW GView hiding the history: the state of         *)
(*    URLTable.tla contains the projection before the last call, the call  *)
(*    and the projection after it, so one state = one transition of the    *)
(*    reference; TLC (breadth first) keeps for each transition the first   *)
(*    (a shortest) history reaching it and EmitAll prints it: one history  *)
(*    per transition of the bounded model;                                 *)
(*  * -simulate with SimSpec: the kind of call is drawn first (so that the  *)
(*    many parameter instances of add_many do not swamp the other calls),  *)
(*    then its arguments; EmitEnd prints the history of each behaviour.    *)
(***************************************************************************)
EXTENDS URLTable, Json, Randomization

VARIABLES hist, pick
gvars == <<vars, hist, pick>>

GView == vars

\* the call without its result (the driver records the result of the REAL table)
GInit == Init /\ hist = <<>> /\ pick = "add"
GNext == Next /\ hist' = Append(hist, ev') /\ UNCHANGED pick
GSpec == GInit /\ [][GNext]_gvars

KindSeq == <<"add", "add", "add", "out", "out", "out", "in", "in", "in", "in", "rel", "rem", "rem", "reopen",
             "upd", "vis", "rev", "read", "read", "cout", "cout", "cin">>
SimNext ==
  /\ n < MaxOps
  /\ pick' = KindSeq[RandomElement(1..Len(KindSeq))]
  /\ LET k == pick IN
       \/ k = "add" /\ \E b \in RandomSubset(2, Batches) : AddMany(b)
       \/ k = "out" /\ DoCheckOut
       \/ k = "in" /\ DoCheckIn
       \/ k = "rel" /\ DoRelease
       \/ k = "rem" /\ DoRemove
       \/ k = "reopen" /\ DoReopen
       \/ k = "upd" /\ DoUpdate
       \/ k = "vis" /\ DoAddVisits
       \/ k = "rev" /\ DoGetRevisit
       \/ k = "read" /\ DoReads
       \/ k = "cout" /\ DoConvertOut
       \/ k = "cin" /\ DoConvertIn
  /\ hist' = Append(hist, ev')
SimSpec == GInit /\ [][SimNext]_gvars

EmitAll == IF n > 0 THEN PrintT(<<"HIST", ToJson(hist)>>) ELSE TRUE
EmitEnd == IF n = MaxOps THEN PrintT(<<"HIST", ToJson(hist)>>) ELSE TRUE
=============================================================================
