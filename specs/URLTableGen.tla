---------------------------- MODULE URLTableGen ----------------------------
(***************************************************************************)
(* Scenario generation (spec -> code).  URLTable.tla plus the history of   *)
(* calls.  Two uses:                                                       *)
(*  * exhaustive, with VIEW GView hiding the history: the state of         *)
(*    URLTable.tla contains the projection before the last call, the call  *)
(*    and the projection after it, so one state = one transition of the    *)
(*    reference; TLC (breadth first) keeps for each transition the first   *)
(*    (a shortest) history reaching it and EmitAll prints it: one history  *)
(*    per transition of the bounded model;                                 *)
(*  * -simulate: EmitEnd prints the history of each random behaviour.      *)
(***************************************************************************)
EXTENDS URLTable, Json

VARIABLES hist
gvars == <<vars, hist>>

GView == vars

\* the call without its result (the driver records the result of the REAL table)
GInit == Init /\ hist = <<>>
GNext == Next /\ hist' = Append(hist, ev')
GSpec == GInit /\ [][GNext]_gvars

EmitAll == IF n > 0 THEN PrintT(<<"HIST", ToJson(hist)>>) ELSE TRUE
EmitEnd == IF n = MaxOps THEN PrintT(<<"HIST", ToJson(hist)>>) /\ FALSE ELSE TRUE
=============================================================================
