----------------------------- MODULE CacheTrace -----------------------------
(***************************************************************************)
(* Recorded calls on the real FIFOCache / LRUCache (clock replaced by an   *)
(* integer) replayed through Cache.tla: each event binds the call and its  *)
(* time, the model computes the next state, and what the code let us see   *)
(* (answer of the lookup, the key set, len()) must be what the model says. *)
(* All invariants of Cache.tla are evaluated at every step.                *)
(* events: [op, k, v, now, res, keys, n]                                   *)
(***************************************************************************)
EXTENDS Cache, Json, IOUtils, TLCExt

Batch == JsonDeserialize(IOEnv.TRACE_FILE)
NT    == Len(Batch)

VARIABLES tid, l
tvars == <<vars, tid, l>>

Ev  == Batch[tid].ev
Cur == Ev[l]
SetOf(sq) == {sq[i] : i \in 1..Len(sq)}

TInit == tid \in 1..NT /\ l = 1 /\ Init

TNext ==
  /\ l <= Len(Ev) /\ l' = l + 1 /\ UNCHANGED tid
  /\ LET e == Cur IN
     /\ e.now >= now /\ now' = e.now
     /\ CASE e.op = "set"   -> /\ seq' = SetF(seq, e.now, e.k, e.v) /\ truth' = [truth EXCEPT ![e.k] = e.v]
                               /\ last' = [op |-> "set", k |-> e.k, res |-> None, exp |-> 0]
          [] e.op = "get"   -> /\ seq' = GetF(seq, e.now, e.k) /\ UNCHANGED truth
                               /\ last' = [op |-> "get", k |-> e.k, res |-> GetRes(seq, e.now, e.k), exp |-> GetExp(seq, e.now, e.k)]
                               /\ e.res = GetRes(seq, e.now, e.k)
          [] e.op = "clear" -> /\ seq' = <<>> /\ truth' = [k \in Keys |-> None]
                               /\ last' = [op |-> "clear", k |-> None, res |-> None, exp |-> 0]
     /\ KeysOf(seq') = SetOf(e.keys)
     /\ Len(seq') = e.n

TSpec == TInit /\ [][TNext]_tvars

ASSUME \A i \in 1..(2 * NT) : TLCSet(i, 0)

BadClause ==
  IF ~Unique THEN 1 ELSE IF ~SizeBound THEN 2 ELSE IF ~Sorted THEN 3 ELSE IF ~NoStaleHit THEN 4
  ELSE IF ~HitLatest THEN 5 ELSE IF ~Stored THEN 6 ELSE IF ~NoLoss THEN 7 ELSE 0

Record ==
  /\ IF TLCGet(tid) < l THEN TLCSet(tid, l) ELSE TRUE
  /\ IF BadClause # 0 /\ TLCGet(NT + tid) = 0 THEN TLCSet(NT + tid, BadClause * 100000 + l) ELSE TRUE

Post == PrintT(<<"VERDICTS_BEGIN",
                 [i \in 1..NT |-> <<TLCGet(i) - 1, TLCGet(NT + i) \div 100000, TLCGet(NT + i) % 100000>>],
                 "VERDICTS_END">>)
=============================================================================
