----------------------------- MODULE CrawlTrace -----------------------------
(***************************************************************************)
(* Strict trace validation: is a recorded crawl of the real application a  *)
(* behaviour of Crawl.tla on the site it was recorded on?                  *)
(* Events that have no counterpart in the model (robots.txt exchanges,     *)
(* update_one, not-found check-outs, visit end, empty trailing add_many)   *)
(* are stuttering steps; the model's Filter step is silent.                *)
(* Only scenarios inside the model's vocabulary are submitted (one start   *)
(* URL, <= 2 hosts, no inline links, no reject rule).                      *)
(***************************************************************************)
EXTENDS Crawl, Json, IOUtils, TLCExt

Batch == JsonDeserialize(IOEnv.TRACE_FILE)
NT    == Len(Batch)

VARIABLES tid, l
tvars == <<vars, tid, l>>

S   == Batch[tid]
Ev  == S.ev
Cur == Ev[l]
Is(name) == l <= Len(Ev) /\ Cur.e = name
IsTx(op) == Is("tx") /\ Cur.op = op
Step   == l' = l + 1 /\ UNCHANGED tid
Silent == UNCHANGED <<tid, l>>
Range(f) == {f[i] : i \in DOMAIN f}

KindOf(k) == IF k \in {"page", "redirect", "notfound"} THEN k ELSE "error"

TInit ==
  /\ tid \in 1..NT /\ l = 1
  /\ Batch[tid].U = NU
  /\ links = {<<k[1], k[2]>> : k \in Range(Batch[tid].links)}
  /\ kind = [u \in URLs |-> Batch[tid].mkind[u]]
  /\ rto = [u \in URLs |-> IF Batch[tid].rto[u] = 0 THEN u ELSE Batch[tid].rto[u]]
  /\ host = [u \in URLs |-> Batch[tid].host[u]]
  /\ dis = [u \in URLs |-> Batch[tid].disallowed[u] = 1]
  /\ rkind = [h \in Hosts |-> IF h <= Batch[tid].H THEN Batch[tid].mrobots[h] ELSE "missing"]
  /\ st = [u \in URLs |-> "none"] /\ lvl = [u \in URLs |-> 0] /\ try = [u \in URLs |-> 0]
  /\ rid = [u \in URLs |-> 0] /\ nid = 1
  /\ phase = "boot" /\ held = <<>> /\ w = [i \in 1..N |-> Idle] /\ pool = {}
  /\ run = 1 /\ visits = [r \in 1..2 |-> [u \in URLs |-> 0]] /\ ivis = [r \in 1..2 |-> [u \in URLs |-> 0]]
  /\ vcount = [i \in 1..N |-> 0]
  /\ badRobots = FALSE /\ badScope = FALSE /\ doneAtCrash = {} /\ rowsAtCrash = {} /\ crashed = FALSE

Stutter == UNCHANGED vars

TStutter ==
  /\ Step /\ Stutter
  /\ \/ Is("start") \/ Is("vend") \/ Is("commit") \/ Is("respbody") \/ Is("dbsync") \/ IsTx("release") \/ IsTx("update_one") \/ Is("rows")
     \/ (IsTx("check_out") /\ ~Cur.found)
     \/ (Is("req") /\ Cur.kind = "robots")
     \/ (Is("resp") /\ Cur.cls \in {"robots200", "robots404", "robots500", "robots30x"})
     \/ (IsTx("add_many") /\ Cur.urls = <<>> /\ phase = "run")

TBoot == /\ IsTx("add_many") /\ phase = "boot" /\ Step /\ Boot

TCheckOut == /\ IsTx("check_out") /\ Cur.found /\ Step
             /\ CheckOut /\ held'[Len(held')] = Cur.u

TTake == /\ Is("vbegin") /\ Step
         /\ held # <<>> /\ Head(held) = Cur.u
         /\ \E i \in 1..N : Take(i)

TSend == /\ Is("req") /\ Cur.kind # "robots" /\ Step
         /\ \E i \in 1..N : w[i].u = Cur.item /\ w[i].cur = Cur.u /\ Send(i)

TRespond == /\ Is("resp") /\ Cur.cls \notin {"robots200", "robots404", "robots500", "robots30x"} /\ Step
            /\ \E i \in 1..N : w[i].ph = "wait" /\ w[i].cur = Cur.u /\ Respond(i)

TChildren == /\ IsTx("add_many") /\ phase = "run" /\ Step
             /\ \E i \in 1..N : /\ TxChildren(i)
                                /\ {x[1] : x \in w[i].batch} = Range(Cur.urls)
                                /\ {u \in URLs : st[u] = "none" /\ st'[u] = "todo"} = Range(Cur.new)

TStatus == /\ IsTx("check_in") /\ Step
           /\ \E i \in 1..N : w[i].u = Cur.u /\ StatusOf(i) = Cur.st /\ TxStatus(i)

TExit  == Is("exit") /\ Step /\ Exit
TCrash == Is("crash") /\ Step /\ Crash

TSilent == Silent /\ \E i \in 1..N : Filter(i)

TNext == TStutter \/ TBoot \/ TCheckOut \/ TTake \/ TSend \/ TRespond \/ TChildren \/ TStatus \/ TExit \/ TCrash \/ TSilent

TSpec == TInit /\ [][TNext]_tvars

ASSUME \A i \in 1..(2 * NT) : TLCSet(i, 0)

BadClause ==
  IF ~C01_Once THEN 1 ELSE IF ~C01_Complete THEN 2 ELSE IF ~C01_Final THEN 3 ELSE IF ~C03_NoRefetch THEN 4
  ELSE IF ~C03_NoStuck THEN 5 ELSE IF ~C03_NoLoss THEN 6 ELSE IF ~C18_Visit THEN 7 ELSE IF ~C18_Tries THEN 8
  ELSE IF ~C20_Robots THEN 9 ELSE IF ~C02_Scope THEN 10 ELSE 0

Record ==
  /\ IF TLCGet(tid) < l THEN TLCSet(tid, l) ELSE TRUE
  /\ IF BadClause # 0 /\ TLCGet(NT + tid) = 0 THEN TLCSet(NT + tid, BadClause * 100000 + l) ELSE TRUE

Post == PrintT(<<"VERDICTS_BEGIN",
                 [i \in 1..NT |-> <<TLCGet(i) - 1, TLCGet(NT + i) \div 100000, TLCGet(NT + i) % 100000>>],
                 "VERDICTS_END">>)
=============================================================================
