---------------------------- MODULE ConnPoolGen ----------------------------
(***************************************************************************)
(* Scenario generation (spec -> code): ConnPool.tla plus a history of the  *)
(* environment's choices.  Run with -simulate; every finished behaviour    *)
(* prints its environment script as JSON, which drivers/connpool.py        *)
(* replays into the real wpull ConnectionPool.  System blocks leave a      *)
(* marker <<"s", quiet>> from which the driver derives the separators      *)
(* (run to quiescence / run one loop iteration) between the commands.      *)
(***************************************************************************)
EXTENDS ConnPool, Json

VARIABLES hist
gvars == <<vars, hist>>

GInit == Init /\ hist = <<>>

GNext ==
  \/ SysNext /\ hist' = Append(hist, <<"s", IF quiet' THEN 1 ELSE 0>>)
  \/ \E c \in Clients, k \in Keys : Start(c, k) /\ hist' = Append(hist, <<"start", c, k>>)
  \/ \E c \in Clients, ok \in BOOLEAN : Connect(c, ok) /\ hist' = Append(hist, <<"connect", c, IF ok THEN 1 ELSE 0>>)
  \/ \E x \in Conns : Kill(x) /\ hist' = Append(hist, <<"kill", x>>)
  \/ \E c \in Clients, mode \in Modes, cl \in BOOLEAN :
        Finish(c, mode, cl) /\ hist' = Append(hist, <<"fin", c, mode, IF cl THEN 1 ELSE 0>>)
  \/ \E c \in Clients : Cancel(c) /\ hist' = Append(hist, <<"cancel", c>>)

GSpec == GInit /\ [][GNext]_gvars

\* print the script once nothing can happen any more
Emit == IF ~ENABLED Next
        THEN PrintT(<<"SCRIPT", ToJson(hist)>>) /\ FALSE
        ELSE TRUE
=============================================================================
