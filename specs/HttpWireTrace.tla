--------------------------- MODULE HttpWireTrace ---------------------------
(***************************************************************************)
(* Strict trace validation: is a recorded execution of the real wpull HTTP *)
(* client (Session / Stream / ChunkedTransferReader over the fake network) *)
(* a behaviour of HttpWire.tla?  A rejection is MODEL-DRIFT, never an      *)
(* alarm (the monitor HttpWireMon decides violations).                     *)
(*                                                                         *)
(* Batch element: msgs = the abstract messages (header lines as tokens),   *)
(* ev = abstracted events                                                  *)
(*   req(x, new)      request x written; new: on a new connection          *)
(*   feed(x, n)       n more items of the stream reached the client        *)
(*   rd(x, data)      a non-empty response_data notification               *)
(*                    (rd and dl acknowledge the output of the model's     *)
(*                    read steps, see TRd)                                 *)
(*   dl(x, data)      a non-empty write to the download file               *)
(*   stall(x)         the client blocked with nothing in flight            *)
(*   done(x, out, closed, left, unseen)                                    *)
(* Every model step must consume exactly the items announced by the feed   *)
(* events since the previous consuming step, so the nondeterministic       *)
(* piece sizes of the model are bound to the recorded ones.                *)
(***************************************************************************)
EXTENDS HttpWire, Json, IOUtils, TLCExt

Batch == JsonDeserialize(IOEnv.TRACE_FILE)
NT    == Len(Batch)

VARIABLES tid, l,
          fedq,    \* items announced by feed events and not yet taken by a model step
          dack,    \* octets of delivered[x] acknowledged by dl events
          rack     \* octets of recorded[x] acknowledged by rd events
tvars == <<vars, tid, l, fedq, dack, rack>>

Ev  == Batch[tid].ev
Cur == Ev[l]
Is(name) == l <= Len(Ev) /\ Cur.e = name
Step   == l' = l + 1 /\ UNCHANGED tid
Silent == UNCHANGED <<tid, l>>

TInit == /\ tid \in 1..NT /\ l = 1 /\ fedq = 0 /\ dack = 0 /\ rack = 0
         /\ InitWith(Batch[tid].msgs)

\* a model step takes from `net` exactly what the feed events announced
Taken == Len(net) - Len(net')
FeedOK == IF Len(net') < Len(net) THEN Taken = fedq /\ fedq' = 0 ELSE UNCHANGED fedq
\* the model's choice is determined by the announced feed
ReadStep ==
  \/ LET j == IF LFIndex(buf) > 0 THEN Len(buf) ELSE Len(buf) + fedq IN
       j \in LineExtents /\ (HdrLineAt(j) \/ ChHdrAt(j) \/ ChNlAt(j) \/ TrailerAt(j))
  \/ LET k == IF buf # <<>> THEN 0 ELSE fedq IN
       k \in PieceChoices /\ (LenReadAt(k) \/ CloseReadAt(k) \/ ChBodyAt(k))
  \/ LenEOF \/ CloseEOF \/ ChBodyEOF

TReq == /\ Is("req") /\ Step /\ Cur.x = x
        /\ fedq = 0 /\ UNCHANGED <<fedq, dack, rack>>
        /\ Fresh = Cur.new
        /\ Start

TFeed == /\ Is("feed") /\ Step
         /\ fedq' = fedq + Cur.n
         /\ UNCHANGED <<vars, dack, rack>>

\* response_data notifications and writes to the download file acknowledge, in order, what the model's read steps
\* produced; every read step waits until both are fully acknowledged (so each step's output is bound to the events
\* that follow it, whether the code passes a line on at once or holds it back until the header block is complete)
TRd == /\ Is("rd") /\ Step /\ Cur.x = x
       /\ rack + Len(Cur.data) <= Len(recorded[x])
       /\ SubSeq(recorded[x], rack + 1, rack + Len(Cur.data)) = Cur.data
       /\ rack' = rack + Len(Cur.data)
       /\ UNCHANGED <<vars, fedq, dack>>

TDl == /\ Is("dl") /\ Step /\ Cur.x = x
       /\ dack + Len(Cur.data) <= Len(delivered[x])
       /\ SubSeq(delivered[x], dack + 1, dack + Len(Cur.data)) = Cur.data
       /\ dack' = dack + Len(Cur.data)
       /\ UNCHANGED <<vars, fedq, rack>>

TStall == /\ Is("stall") /\ Step /\ Cur.x = x
          /\ fedq = 0 /\ UNCHANGED <<fedq, dack, rack>>
          /\ Stall

TDone == /\ Is("done") /\ Step /\ Cur.x = x
         /\ dack = Len(delivered[x]) /\ dack' = 0
         /\ rack = Len(recorded[x]) /\ rack' = 0
         /\ fedq = 0 /\ UNCHANGED fedq
         /\ (Fin \/ FinNb \/ RaiseErr)
         /\ outcome'[Cur.x] = Cur.out /\ connClosed'[Cur.x] = Cur.closed
         /\ leftover'[Cur.x] = Cur.left /\ unseen'[Cur.x] = Cur.unseen

\* steps of the model that produce no event in the recording
TSilent == /\ Silent
           /\ dack = Len(delivered[x]) /\ rack = Len(recorded[x]) /\ UNCHANGED <<dack, rack>>
           /\ (Body \/ LenDone \/ ReadStep) /\ FeedOK

TNext == TReq \/ TFeed \/ TRd \/ TDl \/ TStall \/ TDone \/ TSilent

TSpec == TInit /\ [][TNext]_tvars

ASSUME \A i \in 1..(2 * NT) : TLCSet(i, 0)

Record ==
  /\ IF TLCGet(tid) < l THEN TLCSet(tid, l) ELSE TRUE

Post == PrintT(<<"VERDICTS_BEGIN",
                 [i \in 1..NT |-> <<TLCGet(i) - 1, 0, 0>>],
                 "VERDICTS_END">>)
=============================================================================
