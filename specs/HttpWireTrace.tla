--------------------------- MODULE HttpWireTrace ---------------------------
(***************************************************************************)
(* Strict trace validation: is a recorded execution of the real wpull HTTP *)
(* client (Session / Stream / ChunkedTransferReader over the fake network) *)
(* a behaviour of HttpWire.tla?  A rejection is MODEL-DRIFT, never an      *)
(* alarm (the monitor HttpWireMon decides violations).                     *)
(*                                                                         *)
(* Batch element: msgs = the abstract messages (header lines as tokens),   *)
(* ev = abstracted events                                                  *)
(*   req(x, new)      request x written; new: on a new connection          *)
(*   feed(x, n)       n more items of the stream reached the client        *)
(*   rd(x, data)      a non-empty response_data notification               *)
(*   dl(x, data)      a non-empty write to the download file               *)
(*   stall(x)         the client blocked with nothing in flight            *)
(*   done(x, out, closed, left, unseen)                                    *)
(* Every model step must consume exactly the items announced by the feed   *)
(* events since the previous consuming step, so the nondeterministic       *)
(* piece sizes of the model are bound to the recorded ones.                *)
(***************************************************************************)
EXTENDS HttpWire, Json, IOUtils, TLCExt

Batch == JsonDeserialize(IOEnv.TRACE_FILE)
NT    == Len(Batch)

VARIABLES tid, l,
          fedq,    \* items announced by feed events and not yet taken by a model step
          dack     \* octets of delivered[x] acknowledged by dl events
tvars == <<vars, tid, l, fedq, dack>>

Ev  == Batch[tid].ev
Cur == Ev[l]
Is(name) == l <= Len(Ev) /\ Cur.e = name
Step   == l' = l + 1 /\ UNCHANGED tid
Silent == UNCHANGED <<tid, l>>

TInit == /\ tid \in 1..NT /\ l = 1 /\ fedq = 0 /\ dack = 0
         /\ InitWith(Batch[tid].msgs)

\* a model step takes from `net` exactly what the feed events announced
Taken == Len(net) - Len(net')
FeedOK == IF Len(net') < Len(net) THEN Taken = fedq /\ fedq' = 0 ELSE UNCHANGED fedq
\* the model's choice is determined by the announced feed
ReadStep ==
  \/ LET j == IF LFIndex(buf) > 0 THEN Len(buf) ELSE Len(buf) + fedq IN
       j \in LineExtents /\ (HdrLineAt(j) \/ ChHdrAt(j) \/ ChNlAt(j) \/ TrailerAt(j))
  \/ LET k == IF buf # <<>> THEN 0 ELSE fedq IN
       k \in PieceChoices /\ (LenReadAt(k) \/ CloseReadAt(k) \/ ChBodyAt(k))
  \/ LenEOF \/ CloseEOF \/ ChBodyEOF

TReq == /\ Is("req") /\ Step /\ Cur.x = x
        /\ fedq = 0 /\ UNCHANGED <<fedq, dack>>
        /\ Fresh = Cur.new
        /\ Start

TFeed == /\ Is("feed") /\ Step
         /\ fedq' = fedq + Cur.n
         /\ UNCHANGED <<vars, dack>>

TRd == /\ Is("rd") /\ Step /\ Cur.x = x
       /\ dack = Len(delivered[x]) /\ UNCHANGED dack
       /\ ReadStep /\ FeedOK
       /\ recorded'[x] = recorded[x] \o Cur.data

TDl == /\ Is("dl") /\ Step /\ Cur.x = x
       /\ dack + Len(Cur.data) <= Len(delivered[x])
       /\ SubSeq(delivered[x], dack + 1, dack + Len(Cur.data)) = Cur.data
       /\ dack' = dack + Len(Cur.data)
       /\ UNCHANGED <<vars, fedq>>

TStall == /\ Is("stall") /\ Step /\ Cur.x = x
          /\ fedq = 0 /\ UNCHANGED <<fedq, dack>>
          /\ Stall

TDone == /\ Is("done") /\ Step /\ Cur.x = x
         /\ dack = Len(delivered[x]) /\ dack' = 0
         /\ fedq = 0 /\ UNCHANGED fedq
         /\ (Fin \/ FinNb \/ RaiseErr)
         /\ outcome'[Cur.x] = Cur.out /\ connClosed'[Cur.x] = Cur.closed
         /\ leftover'[Cur.x] = Cur.left /\ unseen'[Cur.x] = Cur.unseen

\* steps of the model that produce no event in the recording
TSilent == /\ Silent
           /\ dack = Len(delivered[x]) /\ UNCHANGED dack
           /\ (Body \/ LenDone \/ ReadStep) /\ FeedOK
           /\ recorded' = recorded /\ delivered' = delivered

TNext == TReq \/ TFeed \/ TRd \/ TDl \/ TStall \/ TDone \/ TSilent

TSpec == TInit /\ [][TNext]_tvars

ASSUME \A i \in 1..(2 * NT) : TLCSet(i, 0)

Record ==
  /\ IF TLCGet(tid) < l THEN TLCSet(tid, l) ELSE TRUE

Post == PrintT(<<"VERDICTS_BEGIN",
                 [i \in 1..NT |-> <<TLCGet(i) - 1, 0, 0>>],
                 "VERDICTS_END">>)
=============================================================================
