--------------------------- MODULE URLTableTrace ---------------------------
(***************************************************************************)
(* Strict trace validation: is a recorded history of calls on the real     *)
(* URL table, with every result and the table contents read back after     *)
(* every call, a behaviour of URLTable.tla?  The model is deterministic    *)
(* given the call, so every line has exactly one candidate successor; a    *)
(* rejection is MODEL-DRIFT (e.g. another eligible row checked out, other  *)
(* row ids, another host-name order), never an alarm by itself.            *)
(***************************************************************************)
EXTENDS URLTable, Json, IOUtils, TLCExt

Batch == JsonDeserialize(IOEnv.TRACE_FILE)
NT    == Len(Batch)

VARIABLES tid, l
tvars == <<vars, tid, l>>

Ev  == Batch[tid].ev
Cur == Ev[l]

ApplyDelta(t, d, del) ==
  LET changed == {d[i].u : i \in DOMAIN d} IN
  [u \in (DOMAIN t \ Range(del)) \cup changed |->
      IF u \in changed THEN d[CHOOSE i \in DOMAIN d : d[i].u = u] ELSE t[u]]

TInit == /\ tid \in 1..NT /\ l = 1
         /\ InitWith(Batch[tid].host)

Call(e) ==
  \/ e.op = "add_many" /\ AddMany(e.batch)
  \/ e.op = "check_out" /\ CheckOut(e.st, e.lv)
  \/ e.op = "check_in" /\ CheckIn(e.u, e.st, e.inc, e.hr, e.fn, e.code)
  \/ e.op = "update_one" /\ UpdateOne(e.u, e.kv)
  \/ e.op = "release" /\ Release
  \/ e.op = "remove_many" /\ RemoveMany(e.urls)
  \/ e.op = "add_visits" /\ AddVisits(e.vs)
  \/ e.op = "get_revisit_id" /\ GetRevisitId(e.u, e.dg)
  \/ e.op = "count" /\ Count
  \/ e.op = "get_one" /\ GetOne(e.u)
  \/ e.op = "contains" /\ Contains(e.u)
  \/ e.op = "get_all" /\ GetAll
  \/ e.op = "get_hostnames" /\ GetHostnames
  \/ e.op = "root_todo" /\ RootTodo
  \/ e.op = "convert_check_out" /\ ConvertCheckOut
  \/ e.op = "convert_check_in" /\ ConvertCheckIn(e.fid, e.st)
  \/ e.op = "reopen" /\ Reopen

TNext ==
  /\ l <= Len(Ev) /\ l' = l + 1 /\ UNCHANGED tid
  /\ LET e == Cur IN
     /\ Call(e)
     \* the result of the call
     /\ ev'.res.k = e.res.k /\ ev'.res.rows = e.res.rows /\ ev'.res.n = e.res.n /\ ev'.res.urls = e.res.urls
     \* the contents read back from the database
     /\ tab' = ApplyDelta(tab, e.d, e.del)
     /\ e.dup = 0
     /\ LET o == ById(DOMAIN tab', ids') IN [i \in DOMAIN o |-> <<o[i], ids'[o[i]]>>] = e.ids
     /\ hosts' = e.hn
     /\ {<<f, files'[f].qid, files'[f].st>> : f \in DOMAIN files'} = Range(e.fl)
     /\ (e.qc = -1000000 \/ qc' = e.qc)

TSpec == TInit /\ [][TNext]_tvars

ASSUME \A i \in 1..(2 * NT) : TLCSet(i, 0)

\* the strict spec does not judge: the clauses are evaluated on the model's own variables only as a cross-check
Record ==
  /\ IF TLCGet(tid) < l THEN TLCSet(tid, l) ELSE TRUE

Post == PrintT(<<"VERDICTS_BEGIN",
                 [i \in 1..NT |-> <<TLCGet(i) - 1, 0, 0>>],
                 "VERDICTS_END">>)
=============================================================================
