---------------------------- MODULE HttpWireGen ----------------------------
(***************************************************************************)
(* Scenario generation (spec -> code): HttpWire.tla plus a history of the  *)
(* environment's choices = how many items of the stream arrive at each     *)
(* blocking read (<<1, n>>: while reading a line, <<2, n>>: for a          *)
(* read(n)), with <<0, c>> marking the start of each exchange (c: 1 = on a *)
(* new connection, + 2 = the server answers).  Every                       *)
(* finished behaviour prints (messages, history) as JSON;                  *)
(* drivers/httpwire.py renders the messages into real octets, serves them  *)
(* to the real client in exactly those pieces and validates what it        *)
(* observes.  Run with -simulate (sampling) or in BFS mode (all            *)
(* behaviours of a small message space).                                   *)
(***************************************************************************)
EXTENDS HttpWire, Json, IOUtils

VARIABLE hist
gvars == <<vars, hist>>

\* The message choices come from the driver (a seeded covering sample of the choice space of HttpWire.tla:
\* TLC's simulation mode enumerates all initial states first, and the full two-exchange space has 10^10);
\* the messages themselves (Mk: Bytes(msg), truncation point, close flag) are built here.
\* Scen[i] = a sequence of NX choice records [method, status, interim, ver, te, cl, conn, fmt, body, split,
\* ext, tr, pm, sc]: pm = truncation point in permille of the message length (1000: none), sc = close flag.
Scen == JsonDeserialize(IOEnv.SCEN_FILE)
MkS(s) == LET full == Full(Mk(s, NoTrunc, FALSE))
              t == IF s.pm >= 1000 THEN NoTrunc ELSE (s.pm * Len(full)) \div 1000
              sc == IF t # NoTrunc \/ MustClose(s) THEN TRUE ELSE s.sc
          IN Mk(s, t, sc)

GInit == /\ \E i \in 1..Len(Scen) : InitWith([j \in XS |-> MkS(Scen[i][j])])
         /\ hist = <<>>

Taken == Len(net) - Len(net')
GNext ==
  \/ Start /\ hist' = Append(hist, <<0, (IF Fresh THEN 1 ELSE 0) + (IF Answers THEN 2 ELSE 0)>>)
  \/ (HdrLine \/ ChHdr \/ ChNl \/ Trailer)
       /\ hist' = IF Len(net') < Len(net) THEN Append(hist, <<1, Taken>>) ELSE hist
  \/ (LenRead \/ CloseRead \/ ChBody)
       /\ hist' = IF Len(net') < Len(net) THEN Append(hist, <<2, Taken>>) ELSE hist
  \/ (Stall \/ Body \/ LenDone \/ Fin \/ FinNb \/ RaiseErr) /\ UNCHANGED hist

GSpec == GInit /\ [][GNext]_gvars

Emit == IF Terminal
        THEN PrintT(<<"SCRIPT", ToJson([msgs |-> msgs, feeds |-> hist])>>) /\ FALSE
        ELSE TRUE
=============================================================================
