---------------------------- MODULE AppSeriesGen ----------------------------
(***************************************************************************)
(* Scenario generation (spec -> code): AppSeries.tla plus a history of the *)
(* environment's choices.  Run with -simulate; every finished behaviour    *)
(* prints its configuration and environment script as JSON, which          *)
(* drivers/appseries.py replays into the real Application.                 *)
(***************************************************************************)
EXTENDS AppSeries, Json

VARIABLES hist, nb, at, pc0v, gph
gvars == <<vars, hist, nb, at, pc0v, gph>>

Kinds == <<"stop", "conc", "raise", "uec", "run2">>
obsNoC == <<mstate, runRuleOK, phase, orderOK, inPhaseOK, st, itemOK, taken, stopAcc, stopAt, lateTake, lateBegin,
            lateSkip, raisedX, mustFail, afterFail, uecAcc, crashSeen, returned, retcode, hung, concOK, boundOK>>

\* the configuration is chosen in single steps (simulation mode enumerates all successors of a state):
\* skippable flags, registered flags, item counts, initial concurrencies, then for every kind of disturbance the
\* number of finished task bodies after which it becomes enabled (spreads the disturbances over the run)
GInit ==
  /\ InitWith(NP, TT, [p \in 1..NP |-> FALSE], [p \in 1..NP |-> FALSE], [p \in 1..NP |-> K], [p \in 1..NP |-> 1])
  /\ pc0v = [p \in 1..NP |-> 1]
  /\ hist = <<>> /\ nb = 0 /\ at = [k \in 1..5 |-> 0] /\ gph = 1

GConf ==
  /\ gph <= 9 /\ gph' = gph + 1
  /\ UNCHANGED <<obsNoC, ctlvars, budvars, hist, nb, np, tt>>
  /\ \/ gph = 1 /\ skp' \in [Pipes -> BOOLEAN] /\ UNCHANGED <<reg, kk, effc, pc0v, at>>
     \/ gph = 2 /\ reg' \in [Pipes -> BOOLEAN] /\ UNCHANGED <<skp, kk, effc, pc0v, at>>
     \/ gph = 3 /\ kk' \in [Pipes -> 0..K] /\ UNCHANGED <<skp, reg, effc, pc0v, at>>
     \/ gph = 4 /\ effc' \in [Pipes -> 1..2] /\ pc0v' = effc' /\ UNCHANGED <<skp, reg, kk, at>>
     \/ gph >= 5 /\ (\E v \in 0..(NP * K * TT) : at' = [at EXCEPT ![gph - 4] = v]) /\ UNCHANGED <<skp, reg, kk, effc, pc0v>>
At(k) == at[CHOOSE n \in 1..5 : Kinds[n] = k]

Keep == UNCHANGED <<hist, nb, at, pc0v, gph>>
Log(x) == hist' = Append(hist, x) /\ UNCHANGED <<nb, at, pc0v, gph>>

GRun ==
  \/ Run /\ Log(<<"run">>)
  \/ (PickSkip \/ PickBegin \/ Finish) /\ Keep
  \/ \E p \in 1..NP : (Take(p) \/ (SrcNone(p) /\ Unfin(p) = {}) \/ Begin(p) \/ PReturnOK(p) \/ PFail(p)) /\ Keep
  \/ \E p \in 1..NP, i \in Items : BeginNext(p, i) /\ Keep
  \/ \E p \in 1..NP, i \in Items : EndOK(p, i) /\ hist' = Append(hist, <<"body", p, i, (st[p][i] + 1) \div 2>>)
                                   /\ nb' = nb + 1 /\ UNCHANGED <<at, pc0v, gph>>
  \/ \E p \in 1..NP, i \in Items, x \in XUse : TaskRaise(p, i, x) /\ nb >= At("raise")
                                   /\ Log(<<"braise", p, i, (st[p][i] + 1) \div 2, x>>)
  \/ \E p \in 1..NP, x \in XUse : SrcRaise(p, x) /\ nb >= At("raise") /\ Log(<<"sraise", x>>)
  \/ (StopAccepted \/ StopIgnored) /\ nb >= At("stop") /\ Log(<<"stop">>)
  \/ \E c \in 0..CMax : SetConc(c) /\ nb >= At("conc") /\ Log(<<"setc", c>>)
  \/ \E c \in UecVals : Uec(c) /\ nb >= At("uec") /\ Log(<<"uec", c>>)
  \/ RunRejected /\ nb >= At("run2") /\ Log(<<"run2">>)

GNext == GConf \/ (gph = 10 /\ GRun)

GSpec == GInit /\ [][GNext]_gvars

\* print the script once the run is over (terminal, or quiescent = paused)
Emit == IF Terminal \/ (~Progress /\ LegitPaused)
        THEN PrintT(<<"SCRIPT", ToJson([skp |-> skp, reg |-> reg, kk |-> kk, pc0 |-> pc0v, h |-> hist])>>) /\ FALSE
        ELSE TRUE
=============================================================================
