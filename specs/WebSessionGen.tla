--------------------------- MODULE WebSessionGen ---------------------------
(***************************************************************************)
(* Scenario generation for C16 (spec -> code): WebSession.tla plus the     *)
(* history of the environment's choices (start URL, referrer, login,       *)
(* initial cookie jar; status / Location / Set-Cookie of every answer).    *)
(* Exhaustive for small alphabets, -simulate for the larger ones; every    *)
(* finished behaviour prints its script, which the driver plays against    *)
(* the real WebClient / WebSession over the fake network.                  *)
(***************************************************************************)
EXTENDS WebSession, Json

CONSTANTS SimMode,      \* TRUE when run with -simulate
          StartHosts,   \* hosts the start URL may name (the hosts are interchangeable)
          Refs          \* referrer classes of the start request: subset of {"none", "http", "https"}

VARIABLES hist, cfg, fin
gvars == <<vars, hist, cfg, fin>>

GInit == /\ hist = <<>> /\ fin = FALSE
         /\ \E u \in {v \in URLs : v.host \in StartHosts}, ref \in Refs, login \in BOOLEAN,
               jar0 \in SUBSET {<<h, FALSE>> : h \in Hosts} :
              /\ InitWith(u, ref, login, jar0)
              /\ cfg = [start |-> u, referer |-> ref, login |-> login, jar0 |-> {k[1] : k \in jar0}]

Over == phase \in {"done", "error"} \/ (phase = "ready" /\ nsent = MaxHops)
SimFinish == /\ SimMode /\ Over /\ ~fin /\ fin' = TRUE
             /\ PrintT(<<"SCRIPT", ToJson([cfg |-> cfg, steps |-> hist])>>)
             /\ UNCHANGED <<vars, hist, cfg>>

GNext ==
  \/ Start /\ UNCHANGED <<hist, cfg, fin>>
  \/ \E st \in Statuses, kind \in {"url", "missing", "bad"}, loc \in URLs, sc \in BOOLEAN :
        /\ (st \notin Redirects => kind = "missing")
        /\ (kind # "url" => loc = AnyURL)
        /\ Respond(st, kind, loc, sc)
        /\ hist' = Append(hist, [status |-> st, loc |-> kind, locurl |-> loc, setcookie |-> sc])
        /\ UNCHANGED <<cfg, fin>>
  \* -simulate: the finished behaviour prints its script in a last step (a trace cut by a constraint is not counted)
  \/ SimFinish

GSpec == GInit /\ [][GNext]_gvars

-----------------------------------------------------------------------------
(* URL-text dimension: the product of component classes, restricted to at   *)
(* most MaxOdd components that differ from the plain form.  One initial     *)
(* state per case; the driver renders the case as URL text.                 *)
CONSTANT MaxOdd
UIs    == {"none", "user", "userpw", "enc", "crlf", "emptypw", "long"}
HostFs == {"plain", "upper", "idn", "ip4", "ip6", "ip6long", "pctcrlf", "pcttab"}
PortFs == {"none", "default", "other", "padded", "xdef", "zero"}
PathFs == {"p", "empty", "slash", "space", "crlf", "delims", "uni", "dots", "pct", "bslash", "semi", "at"}
QueryFs == {"none", "kv", "space", "crlf", "uni", "amp", "qmark", "hashenc"}
FragFs == {"none", "f", "spacef"}
Odd(c) == (IF c.ui = "none" THEN 0 ELSE 1) + (IF c.host = "plain" THEN 0 ELSE 1) + (IF c.port = "none" THEN 0 ELSE 1)
          + (IF c.path = "p" THEN 0 ELSE 1) + (IF c.query = "none" THEN 0 ELSE 1) + (IF c.frag = "none" THEN 0 ELSE 1)
TextCases == {c \in [ui : UIs, host : HostFs, port : PortFs, path : PathFs, query : QueryFs, frag : FragFs] : Odd(c) <= MaxOdd}

TextInit == /\ hist = <<>> /\ fin = FALSE
            /\ \E c \in TextCases : cfg = c
            /\ InitWith(AnyURL, "none", FALSE, {})
TextSpec == TextInit /\ [][FALSE]_gvars
EmitText == PrintT(<<"SCRIPT", ToJson(cfg)>>) /\ FALSE

Emit == IF Over /\ ~SimMode
        THEN PrintT(<<"SCRIPT", ToJson([cfg |-> cfg, steps |-> hist])>>) /\ FALSE
        ELSE TRUE
=============================================================================
